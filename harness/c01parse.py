"""C01 (parser half) — K-parse for statements.

tie   : the extracted statement parser (Model/ExprStmtParser.v, expression positions by Model/ExprParser.v) run on
        the REAL token stream (Environment._tokenize: lexer + wrap) must give the AST that Environment.parse gives
        (canonical s-expression dump, line numbers left out) or the same outcome class with the same error line.
oracle: the property itself at parser level: Environment.parse returns or raises TemplateSyntaxError with
        1 <= lineno <= number of lines + 1, never another exception type.
Called from harness/c01.py as  run_parse_tie(ctx).
"""
import itertools
import re
import os
import subprocess

from . import expr_common as X

RULE_PARSE = ("K-parse statements: grammar-generated templates over all modelled tags (for/else/recursive/filter, if/elif/else, "
              "set inline/block with filters, with, autoescape, block scoped/required, extends, include, import, from-import, "
              "macro, call block, filter block, print) with generated expressions and targets, word-level mutations of them "
              "(delete / duplicate / swap / insert a keyword or delimiter), exhaustive sequences of <= 3 fragments inside a "
              "tag and at top level; the same under 6 non-default lexer configurations (ERB-style <% %> ${ }, brackets [% %] [[ ]], PHP-style with a "
              "shared end delimiter, line statements and line comments, line statements + custom delimiters + trim_blocks, trim/lstrip/"
              "keep_trailing_newline): sources translated delimiter by delimiter (tags at random rewritten as line statements), then TOKEN-level "
              "mutations with that environment's lexer (delete / duplicate / swap / replace / insert one token, delimiters included, once or twice) "
              "and a slice of the exhaustive short sequences; distinct = (configuration, source); non-trivial = contains a block tag.")

# ------------------------------------------------------------------ encoding the real token stream
OPS = {"add", "sub", "mul", "div", "floordiv", "mod", "pow", "tilde", "eq", "ne", "lt", "lteq", "gt", "gteq", "lparen", "rparen",
       "lbracket", "rbracket", "lbrace", "rbrace", "dot", "comma", "colon", "pipe", "assign", "semicolon"}


def enc_stream(env, src):
    """driver line for the token stream of src; raises TemplateSyntaxError when the lexer does"""
    out = []
    for t in env._tokenize(src, None):
        l = t.lineno
        if t.type == "data":
            out.append("(data %s %d)" % (X.enc_str(t.value), l))
        elif t.type == "variable_begin":
            out.append("(vb %d)" % l)
        elif t.type == "variable_end":
            out.append("(ve %d)" % l)
        elif t.type == "block_begin":
            out.append("(bb %d)" % l)
        elif t.type == "block_end":
            out.append("(be %d)" % l)
        elif t.type == "name":
            out.append("(t (name %s) %d)" % (X.enc_str(t.value), l))
        elif t.type == "integer":
            out.append("(t (int %d) %d)" % (t.value, l))
        elif t.type == "string":
            out.append("(t (str %s) %d)" % (X.enc_str(t.value), l))
        elif t.type == "float":
            out.append("(t float %d)" % l)
        elif t.type in OPS:
            out.append("(t %s %d)" % (t.type, l))
        else:
            return None
    return "sparse (" + " ".join(out) + ")"


# ------------------------------------------------------------------ canonical dump of the real AST
class Unsupported(Exception):
    pass


def d_expr(node):
    tree = X.from_node(node)
    if "?unsupported" in repr(tree):
        raise Unsupported()
    try:
        return X.enc_expr(tree)
    except ValueError:
        raise Unsupported() from None


def d_target(node):
    from jinja2 import nodes
    if isinstance(node, nodes.Name):
        return "(tn %s)" % X.enc_str(node.name)
    if isinstance(node, nodes.NSRef):
        return "(tns %s %s)" % (X.enc_str(node.name), X.enc_str(node.attr))
    if isinstance(node, nodes.Tuple):
        return "(tt" + "".join(" " + d_target(x) for x in node.items) + ")"
    raise Unsupported()


def d_chain(f):
    items = []
    while f is not None:
        if f.kwargs or f.dyn_args is not None or f.dyn_kwargs is not None:
            raise Unsupported()
        items.append("(%s%s)" % (X.enc_str(f.name), "".join(" " + d_expr(a) for a in f.args)))
        f = f.node
    return "(chain" + "".join(" " + x for x in reversed(items)) + ")"


def d_body(body):
    return "(" + " ".join(d_stmt(s) for s in body) + ")"


def b01(b):
    return "1" if b else "0"


def d_stmt(s):
    from jinja2 import nodes
    if isinstance(s, nodes.Output):
        return "(out" + "".join(" (data %s)" % X.enc_str(n.data) if isinstance(n, nodes.TemplateData) else " (e %s)" % d_expr(n) for n in s.nodes) + ")"
    if isinstance(s, nodes.For):
        return "(for %s %s %s %s %s %s)" % (d_target(s.target), d_expr(s.iter), d_body(s.body), d_body(s.else_),
                                           "_" if s.test is None else d_expr(s.test), b01(s.recursive))
    if isinstance(s, nodes.If):
        return "(if %s %s (%s) %s)" % (d_expr(s.test), d_body(s.body), " ".join("(%s %s)" % (d_expr(e.test), d_body(e.body)) for e in s.elif_), d_body(s.else_))
    if isinstance(s, nodes.Assign):
        return "(assign %s %s)" % (d_target(s.target), d_expr(s.node))
    if isinstance(s, nodes.AssignBlock):
        return "(assignblock %s %s %s)" % (d_target(s.target), d_chain(s.filter), d_body(s.body))
    if isinstance(s, nodes.With):
        return "(with (%s) (%s) %s)" % (" ".join(d_target(t) for t in s.targets), " ".join(d_expr(v) for v in s.values), d_body(s.body))
    if isinstance(s, nodes.Scope) and len(s.body) == 1 and isinstance(s.body[0], nodes.ScopedEvalContextModifier):
        m = s.body[0]
        return "(autoescape %s %s)" % (d_expr(m.options[0].value), d_body(m.body))
    if isinstance(s, nodes.Block):
        return "(block %s %s %s %s)" % (X.enc_str(s.name), b01(s.scoped), b01(s.required), d_body(s.body))
    if isinstance(s, nodes.Extends):
        return "(extends %s)" % d_expr(s.template)
    if isinstance(s, nodes.Include):
        return "(include %s %s %s)" % (d_expr(s.template), b01(s.ignore_missing), b01(s.with_context))
    if isinstance(s, nodes.Import):
        return "(import %s %s %s)" % (d_expr(s.template), X.enc_str(s.target), b01(s.with_context))
    if isinstance(s, nodes.FromImport):
        names = " ".join("(%s %s)" % ((X.enc_str(n[0]), X.enc_str(n[1])) if isinstance(n, tuple) else (X.enc_str(n), "_")) for n in s.names)
        return "(from %s (%s) %s)" % (d_expr(s.template), names, b01(s.with_context))
    if isinstance(s, nodes.Macro):
        return "(macro %s (%s) (%s) %s)" % (X.enc_str(s.name), " ".join(X.enc_str(a.name) for a in s.args), " ".join(d_expr(d) for d in s.defaults), d_body(s.body))
    if isinstance(s, nodes.CallBlock):
        return "(callblock (%s) (%s) %s %s)" % (" ".join(X.enc_str(a.name) for a in s.args), " ".join(d_expr(d) for d in s.defaults), d_expr(s.call), d_body(s.body))
    if isinstance(s, nodes.FilterBlock):
        return "(filterblock %s %s)" % (d_chain(s.filter), d_body(s.body))
    raise Unsupported()


def real_outcome(env, src):
    from jinja2.exceptions import TemplateSyntaxError
    from . import lib as _lib
    try:
        with _lib.cpu_guard(5.0):
            tree = env.parse(src)
    except TemplateSyntaxError as e:
        return "err %d" % e.lineno
    except _lib.Hang:
        return "exc Hang"
    except RecursionError:
        return "exc RecursionError"
    except Exception as e:  # noqa: the property says this never happens
        return "exc " + type(e).__name__
    try:
        return "ok " + d_body(tree.body)
    except Unsupported:
        return "unsup"


# ------------------------------------------------------------------ generators
NAMES = ["a", "b", "x", "items", "loop", "ns", "true", "_p", "caller"]
EXPRS = ["x", "1", "'s'", "a.b", "x|f", "x|f(1)|g", "a + b * 2", "x if y else z", "x if y", "not a", "a < b < c", "f(1, k=2)", "[1, 2]",
         "(a, b)", "{'k': v}", "x is defined", "x is not none", "a ~ b", "-x", "x[1:2]", "a and b or c", "loop.index", "ns.v", "2 ** 3 ** 2",
         "x in y", "x not in y", "1.5", "x is defined if y else z", "x is odd if y", "x is not none and y", "x is t else", "x is t if", "a if x is t else b", "f(*a)", "x|f(k=1)", "", "1 +", "(", ")", "a b", "x is", "a.", "a,", "a, b", "a, b,", "none", "True"]
TARGETS = ["x", "a, b", "(a, b)", "a, (b, c)", "ns.v", "ns.v, y", "x,", "1", "true", "a.b.c", "[a]", "x.y", "(a, 1)", "", "a b", "f()", "x[0]"]


class TplGen:
    def __init__(self, rng):
        self.r = rng
        self.eg = X.EGen(rng)

    def expr(self):
        if self.r.random() < 0.6:
            return self.r.choice(EXPRS)
        return X.to_src(self.eg.gen(self.r.randint(1, 3)))

    def target(self):
        return self.r.choice(TARGETS)

    def name(self):
        return self.r.choice(NAMES)

    def sig(self):
        r = self.r
        parts = []
        for _ in range(r.randint(0, 3)):
            n = self.name()
            parts.append(n + ("=" + self.expr() if r.random() < 0.4 else ""))
        return "(" + ", ".join(parts) + (")" if r.random() < 0.95 else "")

    def ctxsuffix(self):
        return self.r.choice(["", "", " with context", " without context", " with", " context", " without context x"])

    def body(self, d):
        r = self.r
        return "".join(self.stmt(d - 1) for _ in range(r.randint(0, 3)))

    def stmt(self, d):
        r = self.r
        nl = r.choice(["", "", "\n", " "])
        if d <= 0 or r.random() < 0.25:
            k = r.randint(0, 3)
            if k == 0:
                return r.choice(["text", " ", "\n", "<b>", "a\nb"]) + nl
            if k == 1:
                return "{{ " + self.expr() + " }}" + nl
            if k == 2:
                return "{% print " + ", ".join(self.expr() for _ in range(r.randint(0, 2))) + " %}"
            return "{# c #}"
        k = r.randint(0, 15)
        e = self.expr
        if k == 0:
            s = "{% for " + self.target() + " in " + e() + (" if " + e() if r.random() < 0.3 else "") + (" recursive" if r.random() < 0.2 else "") + " %}" + self.body(d)
            if r.random() < 0.4:
                s += "{% else %}" + self.body(d)
            return s + r.choice(["{% endfor %}", "{% endfor %}", "{% endfor x %}", "{% endif %}", ""]) + nl
        if k == 1:
            s = "{% if " + e() + " %}" + self.body(d)
            for _ in range(r.randint(0, 2)):
                s += "{% elif " + e() + " %}" + self.body(d)
            if r.random() < 0.4:
                s += "{% else %}" + self.body(d)
            return s + r.choice(["{% endif %}", "{% endif %}", "{% endfor %}", "{% end %}", ""]) + nl
        if k == 2:
            return "{% set " + self.target() + " = " + e() + " %}" + nl
        if k == 3:
            return "{% set " + self.target() + r.choice(["", " | upper", "|f(1)|g", " |", "| 1"]) + " %}" + self.body(d) + r.choice(["{% endset %}", "{% endset %}", ""]) + nl
        if k == 4:
            pairs = ", ".join(self.target() + " = " + e() for _ in range(r.randint(0, 2)))
            return "{% with " + pairs + " %}" + self.body(d) + "{% endwith %}" + nl
        if k == 5:
            return "{% autoescape " + e() + " %}" + self.body(d) + "{% endautoescape %}" + nl
        if k == 6:
            nm = self.name()
            req = r.random() < 0.3
            body = r.choice(["", " ", "\n  ", "{# c #}", "x", "{{ 1 }}"]) if req else self.body(d)
            return ("{% block " + nm + r.choice(["", " scoped", " required", " scoped required", " required scoped", "-x"]) + (" required" if req else "") + " %}" + body
                    + "{% endblock" + r.choice(["", " " + nm, " other", " " + nm + " x"]) + " %}" + nl)
        if k == 7:
            return "{% extends " + e() + " %}" + nl
        if k == 8:
            return "{% include " + e() + r.choice(["", " ignore missing", " ignore", " missing"]) + self.ctxsuffix() + " %}" + nl
        if k == 9:
            return "{% import " + e() + r.choice([" as ", " as ", " ", " as true "]) + self.name() + self.ctxsuffix() + " %}" + nl
        if k == 10:
            names = ", ".join(self.name() + (" as " + self.name() if r.random() < 0.4 else "") for _ in range(r.randint(0, 3)))
            return "{% from " + e() + " import " + names + r.choice(["", ",", ", "]) + self.ctxsuffix() + " %}" + nl
        if k == 11:
            return "{% macro " + self.name() + self.sig() + " %}" + self.body(d) + "{% endmacro %}" + nl
        if k == 12:
            return "{% call" + (self.sig() if r.random() < 0.3 else "") + " " + e() + " %}" + self.body(d) + "{% endcall %}" + nl
        if k == 13:
            return "{% filter " + r.choice(["upper", "f(1)", "f|g(2)", "f.g", "", "|f", "f |"]) + " %}" + self.body(d) + "{% endfilter %}" + nl
        if k == 14:
            return "{% " + r.choice(["", "endfor", "unknown x", "1", "else", "elif x", "for", "if", "set", "block", "macro m", "call", "filter", "from x import", "-", "for x in"]) + " %}" + nl
        return "{% if " + e() + " %}" + self.body(d) + nl     # unclosed

    def template(self):
        return "".join(self.stmt(3) for _ in range(self.r.randint(1, 4)))


KEYWORDS = ["{%", "%}", "{{", "}}", "endfor", "endif", "else", "elif", "in", "if", "for", "=", ",", "(", ")", "|", "as", "import", ":", "-", "recursive", "scoped"]


def mutate(rng, src):
    words = src.split(" ")
    if len(words) < 2:
        return src + " " + rng.choice(KEYWORDS)
    k = rng.randint(0, 3)
    i = rng.randrange(len(words))
    if k == 0:
        del words[i]
    elif k == 1:
        words.insert(i, words[i])
    elif k == 2:
        j = rng.randrange(len(words))
        words[i], words[j] = words[j], words[i]
    else:
        words.insert(i, rng.choice(KEYWORDS))
    return " ".join(words)


FRAGS = ["for", "x", "in", "y", "if", "else", "endfor", "endif", "set", "=", "1", ",", "(", ")", "block", "endblock", "macro", "call", "%}{%", "%}", "{%", "}}{{",
         "print", "as", "import", "from", "with", "filter", "|", "required", "recursive", "ns.v", ":"]


def short_sequences(ctx):
    n = ctx.size(2, 3)
    for k in range(0, n + 1):
        for seq in itertools.product(FRAGS, repeat=k):
            yield "{% " + " ".join(seq) + " %}"
    for k in range(1, n + 1):
        for seq in itertools.product(["{% if x %}", "{% else %}", "{% endif %}", "{% for a in b %}", "{% endfor %}", "{{ x }}", "t", "{% block b %}", "{% endblock %}",
                                      "{% set v %}", "{% endset %}", "{% elif y %}", "{% macro m() %}", "{% endmacro %}", "{{", "{%"], repeat=k):
            yield "".join(seq)


# ------------------------------------------------------------------ delimiter configurations
# (the statement parser works on the token stream, so every configuration of the lexer is a source of token streams;
#  the generated default-syntax sources are translated delimiter by delimiter, then mutated at TOKEN level with that lexer)
CONFIGS = [
    ("default", {}),
    ("erb", dict(block_start_string="<%", block_end_string="%>", variable_start_string="${", variable_end_string="}", comment_start_string="<!--", comment_end_string="-->")),
    ("brackets", dict(block_start_string="[%", block_end_string="%]", variable_start_string="[[", variable_end_string="]]", comment_start_string="[#", comment_end_string="#]")),
    ("php", dict(block_start_string="<?", block_end_string="?>", variable_start_string="<?=", variable_end_string="?>", comment_start_string="<!--", comment_end_string="-->")),
    ("line", dict(line_statement_prefix="#", line_comment_prefix="##")),
    ("line-erb", dict(block_start_string="<%", block_end_string="%>", variable_start_string="${", variable_end_string="}", comment_start_string="<%#", comment_end_string="%>",
                      line_statement_prefix="%", line_comment_prefix="%%", trim_blocks=True)),
    ("trim", dict(trim_blocks=True, lstrip_blocks=True, keep_trailing_newline=True)),
]


def translate(rng, src, kw, name):
    """default-syntax source -> the same template in another delimiter configuration"""
    if "line_statement_prefix" in kw:
        pre = kw["line_statement_prefix"]

        def as_line(m):
            body = m.group(1)
            if "\n" in body or rng.random() < 0.4:
                return m.group(0)
            return "\n" + rng.choice(["", " ", "\t"]) + pre + " " + body.strip() + rng.choice(["", "", ":"]) + "\n" + (kw["line_comment_prefix"] + " c\n" if rng.random() < 0.15 else "")
        src = re.sub(r"\{%(.*?)%\}", as_line, src, flags=re.S)
    pairs = [("{%", kw.get("block_start_string")), ("%}", kw.get("block_end_string")), ("{{", kw.get("variable_start_string")), ("}}", kw.get("variable_end_string")),
             ("{#", kw.get("comment_start_string")), ("#}", kw.get("comment_end_string"))]
    if any(b for _, b in pairs):
        rx = re.compile("|".join(re.escape(a) for a, _ in pairs))
        m = {a: b or a for a, b in pairs}
        src = rx.sub(lambda mo: m[mo.group(0)], src)
    return src


MUT_TOKENS = ["endfor", "endif", "else", "elif", "in", "if", "for", "=", ",", "(", ")", "|", "as", "import", ":", "-", "recursive", "scoped", ".", "[", "]", "not", "is", "~", "1", "x", "'s'", "%", "}", "{", "#", "<", ">", "?", "$"]


def mutate_tokens(rng, env, src):
    """token-level mutation with the environment's own lexer: delete / duplicate / swap / replace / insert one token
    (delimiters included), then re-join the raw token texts"""
    from jinja2.exceptions import TemplateSyntaxError
    try:
        toks = [v for _, _, v in env.lexer.tokeniter(src, None)]
    except TemplateSyntaxError:
        return mutate(rng, src)
    idx = [i for i, v in enumerate(toks) if v.strip()]
    if len(idx) < 2:
        return src + " " + rng.choice(MUT_TOKENS)
    i = rng.choice(idx)
    k = rng.randint(0, 4)
    if k == 0:
        del toks[i]
    elif k == 1:
        toks.insert(i, toks[i] + " ")
    elif k == 2:
        j = rng.choice(idx)
        toks[i], toks[j] = toks[j], toks[i]
    elif k == 3:
        toks[i] = rng.choice(MUT_TOKENS + [toks[rng.choice(idx)]])
    else:
        toks.insert(i, rng.choice(MUT_TOKENS + [toks[rng.choice(idx)]]) + " ")
    return "".join(toks)


def sources(ctx, name="default", kw=None, env=None):
    g = TplGen(ctx.rng)
    if name == "default":
        for _ in range(ctx.size(2500, 60000)):
            t = g.template()
            yield t, "generated"
            if ctx.rng.random() < 0.5:
                yield (mutate(ctx.rng, t) if ctx.rng.random() < 0.5 else mutate_tokens(ctx.rng, env, t)), "mutated"
        for s in short_sequences(ctx):
            yield s, "short"
        return
    for _ in range(ctx.size(450, 4000)):
        t = translate(ctx.rng, g.template(), kw, name)
        yield t, "generated"
        yield mutate_tokens(ctx.rng, env, t), "mutated"
        if ctx.rng.random() < 0.3:
            yield mutate_tokens(ctx.rng, env, mutate_tokens(ctx.rng, env, t)), "mutated"
    for k, s in enumerate(short_sequences(ctx)):
        if k % 41 == CONFIGS.index((name, kw)):          # a slice of the exhaustive short sequences under this configuration
            yield translate(ctx.rng, s, kw, name), "short"


def run_parse_tie(ctx):
    X.use_jinja()
    ctx.extra.setdefault("rule_parse", RULE_PARSE)
    for name, kw in CONFIGS:
        run_parse_tie_config(ctx, name, kw)


def run_parse_tie_config(ctx, name, kw):
    import jinja2
    from jinja2.exceptions import TemplateSyntaxError
    env = jinja2.Environment(**kw)
    tag = "" if name == "default" else name + "_"
    items, lines = [], []
    for src, kind in sources(ctx, name, kw, env):
        from . import lib as _lib
        try:
            with _lib.cpu_guard(5.0):
                ln = enc_stream(env, src)
        except TemplateSyntaxError:
            ctx.count("parse_tie_" + tag + "lexer_error")
            continue
        except _lib.Hang:
            ctx.reject({"kind": "stmt-parse", "src": src, "config": name}, "lexing did not finish within 5 s of CPU time", None)
            continue
        except Exception as e:
            ctx.reject({"kind": "stmt-parse", "src": src, "config": name}, "the lexer raised " + type(e).__name__, "C01:lexer-exception:" + type(e).__name__)
            continue
        if ln is None:
            continue
        items.append((src, kind))
        lines.append(ln)
    exe = os.environ.get("EXPR_DRIVER")
    if exe:
        p = subprocess.run([exe], input="\n".join(lines) + "\n", capture_output=True, text=True)
        outs = p.stdout.split("\n")[:len(lines)]
    else:
        outs = ctx.driver("expr", lines)
    nlines_of = lambda s: s.count("\n") + 1  # noqa: E731
    for (src, kind), m in zip(items, outs):
        real = real_outcome(env, src)
        case = {"kind": "stmt-parse", "src": src, "config": name}
        nontriv = env.block_start_string in src and real.startswith(("ok", "err")) or (name.startswith("line") and real.startswith("ok") and "For" in real)
        ctx.case(sample={"src": src[:160], "config": name, "outcome": real[:80]} if kind == "generated" and real.startswith("ok") and len(src) > 40 else None,
                 key=("stmt", name, src) if nontriv else None)
        ctx.count("parse_tie_" + tag + kind + "_" + real.split()[0])
        # ---- oracle: never another exception type; the error line is inside the template
        if real.startswith("exc"):
            ctx.reject(dict(case, real=real), "Environment.parse raised " + real[4:] + " (not a TemplateSyntaxError)", "C01:parse-exception:" + real[4:])
            continue
        if real.startswith("err"):
            l = int(real.split()[1])
            if not (1 <= l <= nlines_of(src) + 1):
                ctx.reject(dict(case, real=real), f"syntax error line {l} outside the template (lines 1..{nlines_of(src)})", "C01:parse-error-line")
                continue
        if m.startswith("BAD"):
            raise RuntimeError("driver rejected a token stream: " + m + " :: " + src)
        if real == "unsup" or m == "unsup":
            if m.startswith("ok") and real == "unsup" or (m.startswith("err") and real == "unsup"):
                ctx.model_mismatch("K-parse statements", case, m[:300], real, None)
            else:
                ctx.count("parse_tie_unsupported")
            continue
        if m != real:
            ctx.model_mismatch("K-parse statements", case, m[:400], real[:400], None)
        else:
            ctx.validated()
