"""C24 — HTML-producing filters cannot be used to inject markup.

proof : Properties/C24.v (escape is clean; tojson replace chain leaves no metacharacter and is a
        round trip over the JSON string-literal model; xmlattr shape and key rejection; urlize
        output shape for every behaviour of the URL / e-mail matchers; rel/target escaped;
        forceescape; indent escapes a plain width)
tie   : T5 translator: gen/filt_translate_html.py turns the current source of htmlsafe_json_dumps (the
        replace chain), do_forceescape, do_xmlattr and do_indent into terms of the deep embedding
        Lib/PyHtml (tagged strings with MarkupSafe's operator semantics); Gen_filt_tojson / _forceescape /
        _xmlattr / _indent prove  interpreted source term = replace4 / do_forceescape / do_xmlattr /
        do_indent + indent_markup  for all inputs;
        K-rt  extracted Model.FiltHtml (escape, replace4, do_xmlattr, indent/replace/join rows with
        Markup input) == MarkupSafe / htmlsafe_json_dumps / the real filters on adversarial
        strings and nested JSON-like values; json.dumps output is checked against the literal
        grammar the round-trip theorem assumes.
oracle: no metacharacter in tojson output and json.loads(output) == value; xmlattr raises
        exactly for keys with [\\s/>=] and otherwise yields k="v" items with escaped values; a
        tiny parser for the anchor language applied to REAL urlize output (clean text, clean
        whitespace-free href, escaped rel/target, unlinking gives back the escaped text);
        plain arguments next to a safe string never add a '<' (indent replace join format
        truncate wordwrap).
"""
import itertools
import json
import re

from . import lib
from .filt_common import cps

RULE = ("adversarial strings built from {<, >, &, ', \", /, =, space, newline, a, \\, U+2028, é} up to length 3 plus "
        "hand-written attack strings; tojson: those strings nested in lists / dicts (as keys too) with numbers, "
        "booleans, None; xmlattr: dicts of 1-2 items over adversarial keys and values (plain, Markup, None); urlize: "
        "texts combining URL-like, e-mail-like and markup fragments with punctuation x rel / target / trim_url_limit "
        "/ extra_schemes (argument and policy), every URL-like word also next to each kind of Unicode whitespace (CR, CRLF, FF, VT, NBSP, U+2028/9, FS..US, NEL, U+3000); rows: a safe input x adversarial plain arguments. distinct = (filter, arguments, input); "
        "non-trivial = the input or an argument contains a metacharacter.")

ALPHA = ["<", ">", "&", "'", '"', "/", "=", " ", "\n", "a", "\\", " ", "é"]
ATTACKS = ["</script><script>alert(1)</script>", "<!--", "]]>", "' onmouseover='x", '" onload="x', "&lt;already&gt;",
           "a=b&c=d", "\\u003c", "\\", "\\\"", "</ScRiPt >", " ", "\x00", "𝒳<", "<<>>&&''"]
META = "<>&'"


def strings(ctx):
    out = []
    for k in range(0, ctx.size(2, 3) + 1):
        for t in itertools.product(ALPHA, repeat=k):
            out.append("".join(t))
    return out + ATTACKS


def txt(r):
    return "OK " + cps(str(r))


# ------------------------------------------------------------------ JSON literal grammar (hypothesis of the round-trip theorem)
def json_grammar_ok(text):
    i, n = 0, len(text)
    while i < n:
        c = text[i]
        if c == '"':
            i += 1
            while i < n and text[i] != '"':
                if text[i] == "\\":
                    if i + 1 >= n:
                        return False
                    e = text[i + 1]
                    if e == "u":
                        if not re.fullmatch(r"[0-9a-fA-F]{4}", text[i + 2:i + 6]):
                            return False
                        i += 6
                    elif e in '"\\/bfnrt':
                        i += 2
                    else:
                        return False
                else:
                    i += 1
            if i >= n:
                return False
            i += 1
        else:
            if c in META:
                return False
            i += 1
    return True


# ------------------------------------------------------------------ anchor language
ANCHOR = re.compile(r'<a href="([^"]*)"((?: rel="[^"]*")?(?: target="[^"]*")?)>(.*?)</a>', re.S)


def parse_anchor_language(out):
    """-> list of ('text', s) | ('a', href, attrs, inner), or None when out is not in the language"""
    pieces, pos = [], 0
    for m in ANCHOR.finditer(out):
        pieces.append(("text", out[pos:m.start()]))
        pieces.append(("a", m.group(1), m.group(2), m.group(3)))
        pos = m.end()
    pieces.append(("text", out[pos:]))
    return pieces


def dirty(s):
    return any(c in s for c in '<>"\'')


def judge_urlize(text, out, rel, target, limit, escape):
    pieces = parse_anchor_language(out)
    from markupsafe import Markup as _Mk
    for p in pieces:
        for part in ((p[1],) if p[0] == "text" else (p[1], p[3])):
            # every text piece is the escaping of some text: no bare '&', no broken character reference
            if str(escape(_Mk(part).unescape())) != part:
                if True:
                    return f"{'text' if p[0] == 'text' else 'anchor text / href'} is not properly escaped (bare '&' or a broken character reference): {part[-40:]!r}"
    want_attrs = (f' rel="{escape(rel)}"' if rel else "") + (f' target="{escape(target)}"' if target else "")
    rebuilt = [""]
    for p in pieces:
        if p[0] == "text":
            if dirty(p[1]):
                return "text outside anchors contains a markup character"
            rebuilt = [r + p[1] for r in rebuilt]
        else:
            _, href, attrs, inner = p
            if dirty(href) or dirty(inner):
                return "anchor href or text contains a markup character"
            if any(c.isspace() for c in href):
                return "href contains whitespace"
            if attrs not in ("", want_attrs):
                return f"anchor attributes {attrs!r} are not the escaped rel/target {want_attrs!r}"
            # source candidates of this anchor in the escaped text
            cands = {href}
            if href.startswith("https://"):
                cands.add(href[8:])
            if href.startswith("mailto:"):
                cands.add(href[7:])
            # a trimmed link text is the escaping of the first `limit` characters of the text the target
            # stands for, followed by "..." (trimming never cuts through an entity)
            from markupsafe import Markup as _M
            ok_inner = {c for c in cands} | ({str(escape(_M(c).unescape()[:limit])) + "..." for c in cands
                                              if len(_M(c).unescape()) > limit} if limit is not None else set())
            if inner not in ok_inner:
                return "anchor text is neither the link target nor its trimmed form"
            rebuilt = [r + c for r in rebuilt for c in cands][:64]
    if str(escape(text)) not in rebuilt:
        return "removing the anchors does not give back the escaped text"
    return None


def run(ctx):
    jinja2 = lib.use_repo_jinja()
    from markupsafe import Markup, escape
    from jinja2.utils import htmlsafe_json_dumps, urlize
    ctx.extra["rule"] = RULE
    ctx.assumptions += [
        "json.dumps writes JSON text in which '<', '>', '&', ''' occur only as raw characters of string literals (literal grammar checked on every generated value)",
        "the punctuation trimming of urlize only cuts a word into head + middle + tail (hypothesis split3_law; its consequence, that removing the anchors gives back the escaped text, is checked on the real output)",
        "whitespace runs are never matched by the URL / e-mail regexes (hypothesis of C24_urlize_href_no_space, checked by the anchor parser on real output)",
        "MarkupSafe's Markup methods (+, %, join, replace, slicing) escape plain operands (modelled for indent / replace / join, compared behaviourally)",
    ]
    from . import filt_common as fcm
    # T5: the current source of the HTML-producing cores as Lib/PyHtml terms = the model functions
    import os
    import sys
    sys.path.insert(0, os.path.join(lib.ROOT, "gen"))
    import filt_translate_html as fth
    ctx.pending_parts = []
    for which, n in (("tojson", 1), ("forceescape", 1), ("xmlattr", 3), ("indent", 6), ("urlize", 3)):
        name = "Gen_filt_" + which
        try:
            vtext = fth.EMIT[which](lib.SRC)
        except Exception as e:  # noqa: BLE001  (fail-closed)
            ctx.obligations += 1
            ctx.obligation_names.append(name + " (regenerated)")
            ctx.broken.append(f"translator gen/filt_translate_html.py: the source of {which} left the translatable "
                              f"vocabulary or the shape the equation is stated for: {e}")
            continue
        ctx.pending_parts.append((which.capitalize(), vtext, n))
    from .c22 import flush_obligations
    bg = fcm.Background(lambda: (ctx.proof("C24"), flush_obligations(ctx, "Gen_filt_c24")))
    env = jinja2.Environment()
    aenv = jinja2.Environment(autoescape=True)
    penv = jinja2.Environment(autoescape=True)
    penv.policies["urlize.extra_schemes"] = ["tel:", "ftp:"]
    S = strings(ctx)

    # ---------------- escape / forceescape / replace4
    lines = [f"escape {cps(s)}" for s in S]
    out = ctx.driver("filthtml", lines)
    for s, m in zip(S, out):
        nontriv = any(c in s for c in '<>&\'"')
        ctx.case(key=("escape", s) if nontriv else None)
        ctx.count("escape")
        real = txt(escape(s))
        fe = env.call_filter("forceescape", Markup(s))
        fe2 = env.call_filter("forceescape", s)
        of = None
        if dirty(str(fe)) or dirty(str(fe2)) or str(fe) != str(escape(s)) or not isinstance(fe, Markup):
            of = "forceescape did not escape the markup form of its input"
        elif dirty(str(escape(s))):
            of = "escape left a markup character"
        if of:
            ctx.reject({"filter": "escape/forceescape", "s": s}, of, None)
        elif real != m:
            ctx.model_mismatch("K-rt markupsafe.escape", {"s": s}, m, real, None)
        else:
            ctx.validated()

    # ---------------- tojson
    values = []
    for s in S:
        values += [s, [s], {"k": s}, {s: 1}]
    for a, b in itertools.product(ATTACKS[:8], repeat=2):
        values.append({"x": [a, {"y": b, "n": None, "t": True, "f": 1.5}], a: [b, 3]})
    dumps = [json.dumps(v) for v in values]
    out = ctx.driver("filthtml", [f"replace4 {cps(d)}" for d in dumps])
    for v, d, m in zip(values, dumps, out):
        nontriv = any(c in d for c in META)
        ctx.case(sample={"filter": "tojson", "value": v} if nontriv and len(ctx.samples) < 2 else None,
                 key=("tojson", d) if nontriv else None)
        ctx.count("tojson")
        case = {"filter": "tojson", "value": v}
        try:
            r1 = htmlsafe_json_dumps(v)
            r2 = aenv.call_filter("tojson", v)
            r3 = env.from_string("{{ v|tojson }}").render(v=v)
        except Exception as ex:  # noqa: BLE001
            ctx.reject(case, f"tojson raised {type(ex).__name__}", None)
            continue
        of = None
        # (the filter passes the policy kwargs sort_keys=True: texts may differ in key order)
        if any(c in str(r1) + str(r2) + r3 for c in META):
            of = "tojson output contains '<', '>', '&' or a single quote"
        elif str(r2) != r3 or json.loads(str(r2)) != json.loads(d) or str(r2) != str(htmlsafe_json_dumps(v, sort_keys=True)):
            of = "the tojson filter does not parse back to the input value"
        else:
            try:
                back = json.loads(str(r1))
            except ValueError:
                back = object()
            if back != json.loads(d):
                of = "json.loads(tojson output) is not the input value"
        if of:
            ctx.reject(case, of, None)
        elif not json_grammar_ok(d):
            ctx.model_mismatch("json.dumps literal grammar (hypothesis of C24_tojson_roundtrip)", case, "grammar", d, None)
        elif txt(r1) != m:
            ctx.model_mismatch("K-rt htmlsafe_json_dumps replace chain", case, m, txt(r1), None)
        else:
            ctx.validated()

    # ---------------- xmlattr
    keys = [s for s in S if len(s) <= 2 and s] + ["class", "a b", "a/b", "a>b", "a=b", "a\u2003b", "on<x"] \
        + ["class" + c + "onclick" for c in " \t\n\r\x0b\x0c\x1c\x1f\x85\xa0"]
    vals = [("p", "x"), ("p", '"<'), ("m", "<b>"), ("p", "a'b&"), (None, None), ("p", 42)]
    hostile = hostile_numbers()
    cases = []
    for k in keys:
        for kind, v in vals:
            cases.append(([(k, kind, v)], True))
    for k1, k2 in itertools.product(keys[:12], repeat=2):
        if k1 != k2:
            cases.append(([(k1, "p", '"'), (k2, "m", "x")], False))
    lines = []
    for items, autospace in cases:
        toks = []
        for k, kind, v in items:
            toks += [cps(k), "?" if kind is None else kind + cps(str(v))]
        lines.append(f"xmlattr {int(autospace)} " + " ".join(toks))
    out = ctx.driver("filthtml", lines)
    for (items, autospace), m in zip(cases, out):
        d = {k: (None if kind is None else (Markup(v) if kind == "m" else v)) for k, kind, v in items}
        case = {"filter": "xmlattr", "items": [(k, kind, str(v)) for k, kind, v in items], "autospace": autospace}
        ctx.case(key=("xmlattr", repr(items), autospace))
        ctx.count("xmlattr")
        try:
            r = env.call_filter("xmlattr", d, (autospace,))
            real = txt(r)
        except ValueError:
            r, real = None, "ERR ValueError"
        except Exception as ex:  # noqa: BLE001
            r, real = None, "X:" + type(ex).__name__
        live = [(k, v) for k, v in d.items() if v is not None]
        bad = any(re.search(r"[ \t\n\r\f\v/>=]", k) for k, _ in live)
        of = None
        if bad and r is not None:
            of = "a key with a space, '/', '>' or '=' was accepted"
        elif not bad and r is None:
            of = f"valid keys rejected ({real})"
        elif r is not None:
            body = r[1:] if (autospace and r.startswith(" ")) else r
            want = " ".join(f'{escape(k)}="{escape(v)}"' for k, v in live)
            if body != want:
                of = "output is not the space-joined key=\"escaped value\" items"
            elif any('"' in str(escape(v)) for _, v in live if not isinstance(v, Markup)):
                of = "an escaped value contains a double quote"
        if of:
            ctx.reject(case, of, None)
        elif real != m:
            ctx.model_mismatch("K-rt do_xmlattr", case, m, real, None)
        else:
            ctx.validated()

    # ---------------- urlize: anchor-language parser on real output
    frags = ["http://a.example/x?y=1&z=<2>", "www.example.com", "(www.example.com)", "<www.example.com>", "foo@example.com",
             "mailto:foo@example.com", "https://x.org/'q'", 'http://x.org/"q"', "plain", "<b>bold</b>", "a&b", "example.org.",
             "http://x.org).", "tel:+123", "ftp://h/p", "@a@b", "www.é.com", "x.com,", "((http://x.org/(a)))", "&lt;", "javascript:alert(1)"]
    texts = list(frags)
    for a, b in itertools.product(frags, repeat=2):
        texts.append(a + " " + b)
        if len(texts) % 3 == 0:
            texts.append(a + "\n" + b + "\t" + a)
    # every kind of whitespace re.split(r"(\\s+)") separates words at, around URL-like words
    WS = ["\r\n", "\r", "\x0c", "\x0b", "\xa0", "\u2028", "\u2029", "\x1c", "\x1f", "\x85", "\u3000", "\u2003", "\t", "\n"]
    linkish = ["tel:+1-555-0100", "tel:123", "ftp://host/a", "www.example.com", "http://x.org/p", "foo@example.com",
               "mailto:foo@example.com", "javascript:x", "example.org"]
    ws_texts = []
    for i, w in enumerate(WS):
        for j, a in enumerate(linkish):
            b = linkish[(i + j + 1) % len(linkish)]
            ws_texts.append(f"call {a}{w}or {b}")
            if (i + j) % 3 == 0:
                ws_texts.append(f"{w}{a}{w}{b}{w}")
    texts += S[:: max(1, len(S) // 150)]
    opts = [(None, None, None, None), ('no"follow <x>', "_blank", None, None), (None, '"><script>', 12, None),
            ("nofollow", None, 3, ["tel:", "ftp:"]), (None, None, None, ["javascript:"])]
    step = ctx.size(2, 1)
    plan = [(t, o) for ti, t in enumerate(texts[::step]) for o in (opts if ti % 2 == 0 else opts[:2])]
    # trim_url_limit cuts the ESCAPED text (model: trim_url after escape_t), so it can split an entity:
    # the link text then holds a stray '&' that starts no complete entity.  '&' is not a markup
    # character in the sense of the theorem (Clean = no '<', '>', '"', "'"); recorded as an observation.
    for t, lim in (("http://a.co/?x=1&y=2", 18), ("http://a.co/<b>", 14), ("http://a.co/'q'", 13), ("www.x.org/a&b&c", 12)):
        plan.append((t, (None, None, lim, None)))
    for t in ws_texts:
        plan.append((t, (None, None, None, None)))
        plan.append((t, ("nofollow", "_blank", None, ["tel:", "ftp:", "javascript:"])))
    for t, (rel, target, limit, schemes) in plan:
        if True:
            case = {"filter": "urlize", "text": t, "rel": rel, "target": target, "trim_url_limit": limit, "extra_schemes": schemes}
            nontriv = any(c in t for c in META + '"') and ("." in t or "@" in t)
            ctx.case(sample=case if nontriv and len(ctx.samples) < 4 else None, key=("urlize", t, rel, target, limit, str(schemes)) if nontriv else None)
            ctx.count("urlize")
            try:
                r = urlize(t, trim_url_limit=limit, rel=rel, target=target, extra_schemes=schemes)
                r2 = aenv.call_filter("urlize", t, (), {"trim_url_limit": limit, "target": target, "rel": rel, "extra_schemes": schemes})
            except Exception as ex:  # noqa: BLE001
                ctx.reject(case, f"urlize raised {type(ex).__name__}", None)
                continue
            w = judge_urlize(t, r, rel, target, limit, escape)
            if w is None and schemes is None:
                try:
                    r3 = penv.call_filter("urlize", t, (), {"trim_url_limit": limit, "target": target, "rel": rel})
                    rel3 = " ".join(sorted(set((rel or "").split()) | {"noopener"})) or None
                    w = judge_urlize(t, str(r3), rel3, target, limit, escape)
                    if w:
                        w = "filter with policy urlize.extra_schemes: " + w
                except Exception as ex:  # noqa: BLE001
                    w = f"filter with policy urlize.extra_schemes raised {type(ex).__name__}"
            if limit is not None and re.search(r"&[#a-z0-9]{0,5}\.\.\.</a>", str(r)):
                ctx.extra.setdefault("urlize_trim_splits_entity", [])
                if len(ctx.extra["urlize_trim_splits_entity"]) < 4:
                    ctx.extra["urlize_trim_splits_entity"].append({"text": t, "limit": limit, "output": str(r)})
            if w is None:
                # the filter adds the policy rel values and sorts them
                rel2 = " ".join(sorted(set((rel or "").split()) | {"noopener"})) or None
                w = judge_urlize(t, str(r2), rel2, target, limit, escape)
                if w:
                    w = "filter: " + w
            if w:
                ctx.reject(case, w, None)
            else:
                ctx.validated()

    # history of argument kinds on the module-level function: the same rel / target text arrives first as
    # Markup (trusted) and then as plain str, and the other way round; the plain call must still escape
    n_hist = 0
    for t in texts[:6] + ws_texts[:4]:
        for rel, target in (('no"follow <x>', "_blank"), ("me", '"><script>'), ('a"b', "c'd<")):
            n_hist += 1
            for first_kind, second_kind in ((Markup, str), (str, Markup)):
                tok = f"\u046f{n_hist}{'m' if first_kind is Markup else 's'}"
                r0, t0 = rel + tok, target + tok
                case = {"filter": "urlize", "text": t, "rel": r0, "target": t0,
                        "history": f"{first_kind.__name__} then {second_kind.__name__} with the same text"}
                ctx.count("urlize_kind_history")
                ctx.case(key=("urlize_kind_history", t, r0, t0, first_kind.__name__))
                try:
                    urlize(t, rel=first_kind(r0), target=first_kind(t0))
                    out2 = urlize(t, rel=second_kind(r0), target=second_kind(t0))
                    if second_kind is str:
                        w = judge_urlize(t, out2, r0, t0, None, escape)
                    else:
                        # a Markup rel / target is trusted: it must arrive as it is, not as the escaped
                        # form computed for the plain call before
                        want = f' rel="{r0}" target="{t0}"'
                        w = None if (' rel="' not in out2 or want in out2) else \
                            f"a Markup rel / target does not arrive unchanged in the anchors: {out2[:90]!r}"
                except Exception as ex:  # noqa: BLE001
                    w = f"urlize raised {type(ex).__name__}"
                if w:
                    ctx.reject(case, f"after the same rel / target text was passed as {first_kind.__name__}: {w}", None)
                else:
                    ctx.validated()

    # ---------------- plain arguments next to a safe string
    safe_inputs = [Markup("a\nb"), Markup("x y\n\nz"), Markup("one two three four five six")]
    adv = [s for s in S if s and len(s) <= 2] + ATTACKS[:6]
    lines, meta = [], []
    for si in safe_inputs:
        for a in adv:
            for kind in ("p", "m"):
                lines.append(f"indentm {kind}{cps(a)} 1 1 {cps(str(si))}")
                meta.append(("indent", si, a, kind))
                lines.append(f"replacem p{cps(' ')} {kind}{cps(a)} {cps(str(si))}")
                meta.append(("replace", si, a, kind))
            lines.append(f"joinm p{cps(a)} m{cps(str(si))} p{cps(a)}")
            meta.append(("join", si, a, "p"))
    out = ctx.driver("filthtml", lines)
    for (f, si, a, kind), m in zip(meta, out):
        arg = Markup(a) if kind == "m" else a
        case = {"filter": f, "safe_input": str(si), "argument": a, "argument_is_markup": kind == "m"}
        ctx.case(key=(f, str(si), a, kind) if any(c in a for c in META + '"') else None)
        ctx.count("row_" + f)
        try:
            if f == "indent":
                r = aenv.call_filter("indent", si, (arg, True, True))
            elif f == "replace":
                r = aenv.call_filter("replace", si, (" ", arg))
            else:
                r = aenv.call_filter("join", [si, arg], (arg,))
        except Exception as ex:  # noqa: BLE001
            ctx.reject(case, f"raised {type(ex).__name__}", None)
            continue
        of = None
        if kind == "p" and isinstance(r, Markup) and any(c in str(r) for c in '<>"\''):
            of = "a plain argument put a markup character into a safe result"
        if of:
            ctx.reject(case, of, "C24:indent-width-unescaped" if f == "indent" else None)
        elif txt(r) != m:
            ctx.model_mismatch("K-rt Markup row " + f, case, m, txt(r), None)
        else:
            ctx.validated()
    # format / truncate / wordwrap rows: oracle only
    for a in adv:
        for f, call in (("format", lambda: aenv.call_filter("format", Markup("<i>%s</i>"), (a,))),
                        ("truncate", lambda: aenv.call_filter("truncate", Markup("one two three four five six"), (9, True, a, 0))),
                        ("wordwrap", lambda: aenv.call_filter("wordwrap", Markup("one two three four"), (7, True, a)))):
            ctx.case(key=(f, a) if any(c in a for c in META + '"') else None)
            ctx.count("row_" + f)
            case = {"filter": f, "argument": a}
            try:
                r = call()
            except AssertionError:
                ctx.validated()
                continue
            except Exception as ex:  # noqa: BLE001
                ctx.reject(case, f"raised {type(ex).__name__}", None)
                continue
            body = str(r).replace("<i>", "").replace("</i>", "")
            if isinstance(r, Markup) and any(c in body for c in '<>"\''):
                ctx.reject(case, "a plain argument put a markup character into a safe result", None)
            else:
                ctx.validated()
    fcm.guarded(ctx, "C24 matrix", matrix, ctx, jinja2)
    bg.join()


class HasHtml:
    """an object with an __html__ method (treated as safe by escape, forceescape, join, ...)"""
    def __init__(self, s):
        self.s = s

    def __html__(self):
        return self.s

    def __str__(self):
        return self.s

    def __repr__(self):
        return f"HasHtml({self.s!r})"


class HasHtmlMarkup(HasHtml):
    """the usual widget / form-field case: __html__ returns a Markup instance"""
    def __html__(self):
        from markupsafe import Markup
        return Markup(self.s)


class HtmlDiffers:
    """a form field / lazy string: its markup form (__html__) is not its str()"""
    def __init__(self, s):
        self.s = s

    def __html__(self):
        return self.s

    def __str__(self):
        return "str-form:" + self.s.upper()

    def __repr__(self):
        return f"HtmlDiffers({self.s!r})"


class StrSub(str):
    pass


class HostileInt(int):
    """a number whose text is hostile (an int-mixin Enum with a label, a unit-carrying quantity ...)"""
    def __str__(self):
        return '"><b>' + int.__repr__(self) + "&'"

    __repr__ = __str__

    def __format__(self, spec):
        return str(self)


class HostileFloat(float):
    def __str__(self):
        return "<i>" + float.__repr__(self) + '"'

    __repr__ = __str__

    def __format__(self, spec):
        return str(self)


def hostile_numbers():
    import enum

    class Level(int, enum.Enum):
        LOW = 1
        HIGH = 2

        def __str__(self):
            return f'<{self.name} "level">'

        __format__ = lambda self, spec: str(self)   # noqa: E731
    return [HostileInt(3), HostileFloat(2.5), Level.HIGH]


def matrix(ctx, jinja2):
    """every enumerated filter through every spelling / entry point / environment (plain and autoescape
    groups) and twice on the same environments; results of the autoescape group that are safe strings are
    additionally judged: a plain argument must not have put a markup character into them"""
    import types
    from markupsafe import Markup, escape
    from .filt_matrix import Matrix
    mx = Matrix(ctx, jinja2, autoescape_group=True)
    bad = ["<script>", "\"'&", "a b", "x"]
    texts = ["<b>x</b> & 'y'", "plain", ""]
    class MarkupSub(Markup):
        """a Markup subclass whose markup form is overridden"""
        def __html__(self):
            return Markup("<em>" + str.__str__(self) + "</em>")
    kinds = [str, Markup, StrSub, HasHtml, HasHtmlMarkup, HtmlDiffers, MarkupSub]

    def judge_auto(res, case, safe_input_chars):
        for way, text in res.items():
            if way.startswith("auto") and text.startswith("Markup:"):
                body = text[len("Markup:"):]
                extra = [c for c in "<>" if body.count(c) > safe_input_chars.count(c)]
                if extra:
                    ctx.reject(dict(case, way=way), f"a plain argument put {extra[0]!r} into a safe result: {body[:70]}", None)
                    return
    try:
        for t in texts:
            for K in kinds:
                v = K(t)
                html = str(v.__html__()) if hasattr(v, "__html__") else str(v)
                for f in ("escape", "e"):
                    mx.apply("C24", f, v, (), (), expect=lambda v=v, html=html: Markup(html) if hasattr(v, "__html__") else escape(str(v)))
                # forceescape escapes the markup form of its input, whatever its __html__ returns
                mx.apply("C24", "forceescape", v, (), (), expect=lambda html=html: escape(html))
                # striptags documents using the markup form too
                mx.apply("C24", "striptags", v, (), (), expect=lambda html=html: Markup(html).striptags())
                for f in ("safe", "string"):
                    mx.apply("C24", f, v, (), ())
                # items with a markup form are joined in that form under autoescape
                if hasattr(v, "__html__"):
                    res = mx.apply("C24", "join", [v, "<p>"], ("|",), ("d",), fresh_value=lambda v=v: [v, "<p>"],
                                   auto_expect=lambda html=html: Markup(html + "|&lt;p&gt;"))
                mx.apply("C24", "urlize", v, (), ())
        for v in (42, None, True, 1.5, jinja2.Undefined(name="u"), ["<a>", {"k": "</script>"}], ("t", 1), {"<k>": ["'", "&"]}, "</script>", Markup("<i>")):
            for f in ("escape", "forceescape"):
                if not isinstance(v, (list, tuple, dict)):
                    mx.apply("C24", f, v, (), ())
            if not isinstance(v, jinja2.Undefined):
                for a in ((), (None,), (2,)):
                    mx.apply("C24", "tojson", v, a, ("indent",))
        for d in ({"class": "a b", "id": "<x>", "skip": None, "u": jinja2.Undefined(name="q"), "n": 3, "m": Markup("<m>")}, {}, {"a b": 1}, {"a/b": 1},
                  {"on>x": "y"}, {"k=": 1}, {"data-x": "\"q\"", "t": True}):
            for make in (dict, types.MappingProxyType):
                for a in ((), (True,), (False,)):
                    mx.apply("C24", "xmlattr", make(dict(d)), a, ("autospace",))
        for num in hostile_numbers():
            for f in ("escape", "e", "forceescape", "string"):
                mx.apply("C24", f, num, (), (), expect=(lambda num=num: escape(str(num))) if f != "string" else None)
            for make in (dict, types.MappingProxyType):
                d = {"width": num, "title": "t", "n": 7, "x": 1.5, "b": True}
                mx.apply("C24", "xmlattr", make(d), (), ("autospace",), fresh_value=lambda d=d, make=make: make(dict(d)),
                         expect=lambda d=d: " " + " ".join(f'{escape(k)}="{escape(v)}"' for k, v in d.items()))
            res = mx.apply("C24", "join", [Markup("<i>"), num, "p"], (num,), ("d",), fresh_value=lambda num=num: [Markup("<i>"), num, "p"])
            judge_auto(res, {"filter": "join", "item": repr(num)}, "<i>")
            res = mx.apply("C24", "format", Markup("<i>%s</i>"), (num,), ())
            judge_auto(res, {"filter": "format", "argument": repr(num)}, "<i></i>")
            res = mx.apply("C24", "replace", Markup("a b"), (" ", num), ("old", "new", "count"))
            judge_auto(res, {"filter": "replace", "argument": repr(num)}, "")
            res = mx.apply("C24", "indent", Markup("a\nb"), (num,), ("width",))
            mx.apply("C24", "urlize", "go www.x.org", (None, False, num, num), ("trim_url_limit", "nofollow", "target", "rel"))
        # NON-str keys of xmlattr (tuple, bytes, frozenset, enum member, objects with __str__ / __html__, numbers):
        # whatever the filter does with them (the unchanged tree rejects them with TypeError from the key
        # check), it must not emit an attribute name that contains a space, '/', '>' or '='
        import enum
        import re as _re

        class Key(enum.Enum):
            A = "x onclick=alert(1)"

            def __str__(self):
                return self.value

        class StrKey:
            def __init__(self, t):
                self.t = t

            def __str__(self):
                return self.t

            def __repr__(self):
                return f"StrKey({self.t!r})"

            def __hash__(self):
                return hash(self.t)

            def __eq__(self, o):
                return isinstance(o, StrKey) and o.t == self.t

        class HtmlKey(StrKey):
            def __html__(self):
                return self.t
        attr_item = _re.compile(r'(?:^| )([^\s"=<>/]+)="[^"]*"')
        odd_keys = [("a b", 1), ("a", "b c"), b"a b", b"x>y", frozenset(["a b"]), Key.A, StrKey("x y=1"), StrKey("ok"), HtmlKey("a/b"),
                    HtmlKey("on>x"), 1, 2.5, True, None, ("k",), HostileInt(3)]
        for k in odd_keys:
            for other in ({}, {"id": "i"}):
                d = dict(other)
                d[k] = "v"
                res = mx.apply("C24", "xmlattr", d, (), ("autospace",), fresh_value=lambda d=d: dict(d))
                for way, text in res.items():
                    if text.startswith("ERR"):
                        continue
                    body = text.split(":", 1)[1] if text.startswith("Markup:") else text
                    try:
                        out = eval(body)            # canon() wrote a str repr
                    except Exception:  # noqa: BLE001
                        out = body
                    rest = attr_item.sub("", out)
                    if rest.strip():
                        ctx.reject({"filter": "xmlattr", "key": repr(k), "key_type": type(k).__name__, "way": way},
                                   f"a key that is not a str was written as an attribute name with a space, '/', '>' or '=': {out[:80]!r}", None)
                        break
        urls = ["see http://a.example/x?y=1&z=<2> and www.x.org, mail foo@example.com or tel:+1-555\r\nftp://h/p", "<b>www.evil.com</b> \u2028tel:12"]
        for t in urls:
            for K in (str, StrSub):
                for a in ((), (20,), (None, True), (None, False, "_blank"), (12, True, "_top", "me <x>"), (None, False, None, None, ["tel:", "ftp:"]),
                          (None, False, '_b"><x', 'r"<y \'z')):
                    mx.apply("C24", "urlize", K(t), a, ("trim_url_limit", "nofollow", "target", "rel", "extra_schemes"))
        # plain arguments next to a safe string (judged in the autoescape group)
        for si in (Markup("a\nb c"), Markup("one two three four"), HasHtml("h h")):
            chars = str(si.__html__() if hasattr(si, "__html__") else si)
            for b in bad:
                for B in (str, StrSub):
                    arg = B(b)
                    for f, a, n in (("indent", (arg, True, True), ("width", "first", "blank")),
                                    ("replace", (" ", arg), ("old", "new", "count")), ("replace", (" ", arg, 1), ("old", "new", "count")),
                                    ("truncate", (5, True, arg, 0), ("length", "killwords", "end", "leeway")),
                                    ("wordwrap", (3, True, arg), ("width", "break_long_words", "wrapstring")),
                                    ("center", (9,), ("width",)), ("trim", (arg,), ("chars",))):
                        if isinstance(si, HasHtml) and f not in ("replace",):
                            continue
                        res = mx.apply("C24", f, si, a, n)
                        judge_auto(res, {"filter": f, "safe_input": chars, "argument": b}, chars)
                    res = mx.apply("C24", "join", [si, arg, Markup("<i>")], (arg,), ("d",), fresh_value=lambda si=si, arg=arg: [si, arg, Markup("<i>")])
                    judge_auto(res, {"filter": "join", "safe_input": chars, "argument": b}, chars + "<i>")
                    res = mx.apply("C24", "format", Markup("<i>%s</i> %s"), (arg, si), ())
                    judge_auto(res, {"filter": "format", "safe_input": chars, "argument": b}, "<i></i>" + chars)
                    res = mx.apply("C24", "format", Markup("<i>%(a)s</i>"), {"a": arg}, ())
                    judge_auto(res, {"filter": "format", "safe_input": chars, "argument": b}, "<i></i>")
        mx.history_pass(every_fresh=5)
        mx.alternation_pass()
    finally:
        mx.close()
    # configuration history on ONE environment (and an overlay made before the changes): urlize and tojson
    # read env.policies at every application
    import json as _json
    env = jinja2.Environment(autoescape=True)
    ov = env.overlay()
    text = "go www.x.org tel:12"
    value = {"b": "</script>", "a": ["'", 1]}
    steps = [({"urlize.rel": "noopener", "urlize.target": None, "urlize.extra_schemes": None}, {"sort_keys": True}),
             ({"urlize.rel": "nofollow <x>", "urlize.target": "_blank", "urlize.extra_schemes": ["tel:"]}, {"sort_keys": False, "indent": 1}),
             ({"urlize.rel": None, "urlize.target": '"q', "urlize.extra_schemes": None}, {"sort_keys": True}),
             ({"urlize.rel": "noopener", "urlize.target": None, "urlize.extra_schemes": None}, {"sort_keys": True})]
    for pol, jkw in steps:
        env.policies.update(pol)
        env.policies["json.dumps_kwargs"] = dict(jkw)
        fresh = jinja2.Environment(autoescape=True)
        fresh.policies.update(pol)
        fresh.policies["json.dumps_kwargs"] = dict(jkw)
        for which, e in (("environment", env), ("overlay", ov)):
            for f, v in (("urlize", text), ("tojson", value)):
                ctx.count("policy_history")
                ctx.case(key=("policy_history", which, f, repr(pol), repr(jkw)))
                want = str(fresh.call_filter(f, v))
                got = str(e.call_filter(f, v))
                got_t = e.from_string("{{ v|" + f + " }}").render(v=v)
                w = None
                if got != want or got_t != want:
                    w = f"after changing the policies on the same environment {f} gives {got[:70]!r}, a fresh environment gives {want[:70]!r}"
                elif f == "urlize":
                    w = judge_urlize(v, got, " ".join(sorted(set((pol["urlize.rel"] or "").split()))) or None, pol["urlize.target"], None, escape)
                elif any(c in got for c in META) or _json.loads(got) != value:
                    w = "tojson output has a metacharacter or does not parse back"
                if w:
                    ctx.reject({"filter": f, "policies": repr(pol), "json.dumps_kwargs": repr(jkw), "through": which}, w, None)
                else:
                    ctx.validated()


def replay(ctx, data):
    case = data.get("case")
    if data.get("kind") == "failing-input" and case is not None:
        print("case:", case, "\nwhat:", data.get("what"))
    else:
        print("replay: this file names a broken theorem/correspondence, not an input:", data.get("broken"))
    return run(ctx)
