"""C33 — translation blocks render like their source text and are fully extractable.

proof : Properties/C33.v (percent_roundtrip, undouble_roundtrip, format_block, trans_renders old/new
        style with values escaped under autoescape, plural_choice, extraction_covers)
tie   : K-trans  extracted I18nModel.render_trans / trans_call == real rendering of the printed
        {% trans %} block with recording identity translations: rendered text AND the message
        strings handed to gettext / ngettext / pgettext / npgettext, both gettext styles, both
        autoescape modes, trimmed / not; K-fmt extracted pyformat == python's % on the restricted
        language; K-trim extracted trim_ws == the extension's _trim_whitespace.
oracle: (a) rendered text == block text with variables substituted (independent python reading of
        the documentation), singular/plural by the count, values escaped under autoescape;
        (b) every message recorded at run time is among extract_from_ast(...) and babel_extract(...)
        of the same source with the same options.
"""
import io
import re

from . import lib
from .esc_lang import enc, dec
from . import esc_i18n_ast as A

RULE = ("generated trans blocks: 0-3 declared variables, free names, optional context string, optional pluralize with "
        "count in {0,1,2,5} (count variable declared, named num, or first free name), trimmed / notrimmed / policy, text "
        "pieces over an alphabet with '%', '%%', '%(x)s', '%s', braces, line breaks, tabs, markup and '&'; values plain "
        "or Markup with metacharacters; each block rendered under {old,new} style x autoescape {on,off}. distinct = "
        "(source, data, style, autoescape); non-trivial = the block has at least one variable and a '%' or a line break "
        "in its text, or a plural. Extraction: the block plus direct gettext calls (some in dead branches) through "
        "extract_from_ast and babel_extract.")

TEXTS = ["Hello ", "100% ", "50%% off ", "%(x)s ", "%s ", "a{b}c ", "{x ", "} ", "line\nbreak ", "  \n  indented\n", "\ttab ",
         "<b>bold</b> ", "R&D ", "\"q\" 's ", "%", " % d ", "(paren) ", "", " ", "x", "%)s ", "trailing  "]
VALUES = ["v", "<i>", "a&b", "\"", "'", "100%", "%s", "", "x y", "&lt;"]
NAMES = ["a", "b", "user", "count", "num", "n2"]
# names of the gettext functions' own parameters and of the keywords the wrappers fill in themselves
PARAM_NAMES = ["context", "message", "singular", "plural", "string", "n", "__string", "__context", "__num", "__singular", "__plural",
               "__string_ctx", "_trans", "_trans_n", "self", "caller"]


def _idf(v):
    return v


class _S(str):
    def __str__(self):
        return str.__str__(self)


class _O:
    def __init__(self, v):
        self.v = v

    def __str__(self):
        return self.v

    def __repr__(self):
        return "O(" + repr(self.v) + ")"


AXES = ("plain", "plain", "async", "sandbox", "overlay", "unoptimized", "translations_object", "null_translations", "overlay_install_after")


def gen_block(rng):
    ndecl = rng.randint(0, 3)
    pool = NAMES + (rng.sample(PARAM_NAMES, 3) if rng.random() < 0.35 else [])
    names = rng.sample(pool, ndecl)
    plural = rng.random() < 0.45
    count_name = None
    explicit = False
    decl = [(n, "src_" + n) for n in names]
    data = {}
    if plural:
        # at least one declared variable; any declared variable may be the count: the FIRST one implicitly,
        # or the one named by {% pluralize VAR %}; names (incl. the literal `num`) and positions vary freely
        if not decl:
            decl = [(rng.choice(NAMES), None)]
            decl = [(decl[0][0], "src_" + decl[0][0])]
        if rng.random() < 0.35 and "num" not in [d[0] for d in decl]:
            decl.insert(rng.randint(0, len(decl)), ("num", "src_num"))
        ints = set(rng.sample(range(len(decl)), rng.randint(1, len(decl))))
        ints.add(0)
        for i in ints:
            data[decl[i][1]] = rng.choice([0, 1, 1, 2, 5, 40, 1.0, True, 2.5, False])
        if rng.random() < 0.5:
            explicit = True
            count_name = decl[rng.choice(sorted(ints))][0]
        else:
            count_name = decl[0][0]
    free = [n for n in NAMES if n not in [d[0] for d in decl]]

    def body():
        ps = []
        for _ in range(rng.randint(1, 4)):
            if rng.random() < 0.55:
                ps.append(("t", rng.choice(TEXTS)))
            else:
                pool = [d[0] for d in decl] + (rng.sample(free, 1) if free and rng.random() < 0.3 else [])
                if pool:
                    ps.append(("v", rng.choice(pool)))
                else:
                    ps.append(("t", rng.choice(TEXTS)))
        # merge adjacent text pieces (the lexer delivers one data token)
        out = []
        for p in ps:
            if p[0] == "t" and out and out[-1][0] == "t":
                out[-1] = ("t", out[-1][1] + p[1])
            elif not (p[0] == "t" and p[1] == ""):
                out.append(p)
        return out or [("t", "x")]

    sing = body()
    plur = body() if plural else None
    ctx = rng.choice([None, None, "menu", "ctx %s"])
    trim = rng.choice([None, None, True, False])
    used = {p[1] for p in sing if p[0] == "v"} | ({p[1] for p in plur if p[0] == "v"} if plur else set())
    for n, s in decl:
        if s not in data:
            data[s] = rng.choice(VALUES)
    # some declared variables are EXPRESSIONS (a call: the extension evaluates it once into a scratch name)
    exprs = {n for n, s in decl if rng.random() < 0.3}
    data["idf"] = _idf
    for n in used:
        if n not in [d[0] for d in decl]:
            data[n] = rng.choice(VALUES)
    markup_vals = {k for k in data if isinstance(data[k], str) and rng.random() < 0.2}
    for k in list(data):
        # value kinds: user str subclass, object with __str__ (not a string)
        if isinstance(data[k], str) and k not in markup_vals and rng.random() < 0.15:
            data[k] = _S(data[k]) if rng.random() < 0.5 else _O(data[k])
    return {"decl": decl, "sing": sing, "plur": plur, "ctx": ctx, "trim": trim, "data": data,
            "markup": sorted(markup_vals), "count": count_name, "explicit": explicit, "exprs": sorted(exprs)}


def print_block(b, delims=None):
    src = _print_block(b)
    if delims:
        # structural re-delimiting: tags and references are generated, text never contains the default delimiters
        src = src.replace("{%", "\x00B").replace("%}", "\x00E").replace("{{", "\x00V").replace("}}", "\x00W")
        src = src.replace("\x00B", delims[0]).replace("\x00E", delims[1]).replace("\x00V", delims[2]).replace("\x00W", delims[3])
    return src


def _print_block(b):
    head = "{% trans"
    if b["ctx"] is not None:
        head += ' "' + b["ctx"] + '"'
    if b["trim"] is not None:
        head += " trimmed" if b["trim"] else " notrimmed"
    if b["decl"]:
        head += " " + ", ".join(f"{n}=idf({s})" if n in b.get("exprs", ()) else f"{n}={s}" for n, s in b["decl"])
    head += " %}"

    def pr(ps):
        return "".join(p[1] if p[0] == "t" else "{{ " + p[1] + " }}" for p in ps)
    s = head + pr(b["sing"])
    if b["plur"] is not None:
        s += ("{% pluralize " + b["count"] + " %}" if b.get("explicit") else "{% pluralize %}") + pr(b["plur"])
    return s + "{% endtrans %}"


def count_value(b):
    return b["data"][dict(b["decl"])[b["count"]]]


def block_vars(b):
    """variables as _make_node sees them: declared, then free names referenced in the bodies;
    -> list of (name, value, is_markup)"""
    out = []
    seen = set()
    for n, s in b["decl"]:
        out.append((n, b["data"][s], s in b["markup"]))
        seen.add(n)
    for ps in (b["sing"], b["plur"] or []):
        for p in ps:
            if p[0] == "v" and p[1] not in seen:
                seen.add(p[1])
                out.append((p[1], b["data"][p[1]], p[1] in b["markup"]))
    return out


def model_line(b, style, ae, policy_trim):
    trim = b["trim"] if b["trim"] is not None else policy_trim
    toks = ["T", "o" if style == "old" else "n", "1" if ae else "0", "1" if trim else "0",
            "none" if b["ctx"] is None else enc(b["ctx"]), str(len(b["sing"]))]
    toks += [p[0] + ":" + enc(p[1]) for p in b["sing"]]
    if b["plur"] is not None:
        n = count_value(b)
        toks += ["1", str(len(b["plur"]))] + [p[0] + ":" + enc(p[1]) for p in b["plur"]]
        toks += ["1" if n == 1 else "0", enc(str(n))]
    else:
        toks.append("0")
    vs = block_vars(b)
    toks.append(str(len(vs)))
    for n, v, mk in vs:
        toks += [enc(n), "m" if mk else "p", enc(str(v))]
    return " ".join(toks)


def spec_text(b, ae, policy_trim):
    """the documented result, read independently of ext.py: block text with variables substituted,
    trimmed blocks have line breaks with surrounding whitespace replaced by one space and are
    stripped, singular iff count == 1, values escaped under autoescape unless already Markup"""
    import html
    ps = b["sing"]
    if b["plur"] is not None and count_value(b) != 1:
        ps = b["plur"]
    vals = {n: (v, mk) for n, v, mk in block_vars(b)}
    trim = b["trim"] if b["trim"] is not None else policy_trim
    s = "".join(p[1] if p[0] == "t" else "\x00" + p[1] + "\x01" for p in ps)
    if trim:
        s = re.sub(r"\s*(?:\r\n|\r|\n)\s*", " ", s.strip())

    def sub(m):
        v, mk = vals[m.group(1)]
        v = str(v)
        if ae and not mk:
            v = v.replace("&", "&amp;").replace("<", "&lt;").replace(">", "&gt;").replace('"', "&#34;").replace("'", "&#39;")
        return v
    return re.sub("\x00(\\w+)\x01", sub, s)


def nl_norm(b, nl):
    """what the lexer hands to the extension: line breaks of template data normalized to newline_sequence"""
    if nl == "\n":
        return b

    def f(ps):
        return None if ps is None else [(p[0], re.sub(r"\r\n|\r|\n", nl, p[1]) if p[0] == "t" else p[1]) for p in ps]
    return dict(b, sing=f(b["sing"]), plur=f(b["plur"]))


def real_run(jinja2, src, data, markup, style, ae, policy_trim, axis="plain", delims=None, nl="\n", env_kw=None):
    """-> (rendered | None, recorded calls, error); axis = configuration / installer variant"""
    from markupsafe import Markup
    rec = []

    def g(s):
        rec.append(("gettext", s)); return s

    def ng(s, p, n):
        rec.append(("ngettext", s, p)); return s if n == 1 else p

    def pg(c, s):
        rec.append(("pgettext", c, s)); return s

    def npg(c, s, p, n):
        rec.append(("npgettext", c, s, p)); return s if n == 1 else p

    class Tr:
        """a translations object (gettext.GNUTranslations interface)"""
        gettext = staticmethod(g)
        ngettext = staticmethod(ng)
        pgettext = staticmethod(pg)
        npgettext = staticmethod(npg)
    kw = dict(extensions=["jinja2.ext.i18n"], autoescape=ae, newline_sequence=nl)
    if env_kw:
        kw.update(env_kw)
    if delims:
        kw.update(block_start_string=delims[0], block_end_string=delims[1], variable_start_string=delims[2],
                  variable_end_string=delims[3])
        if len(delims) > 4:
            kw.update(comment_start_string=delims[4], comment_end_string=delims[5])
    cls = jinja2.Environment
    if axis == "async":
        kw["enable_async"] = True
    elif axis == "unoptimized":
        kw["optimized"] = False
    elif axis == "sandbox":
        from jinja2.sandbox import SandboxedEnvironment as cls
    try:
        if axis in ("overlay", "overlay_install_after"):
            base = jinja2.Environment(**dict(kw, autoescape=not ae))
            base.policies["ext.i18n.trimmed"] = policy_trim
            if axis == "overlay":
                # supported order: translations installed on the base, then overlaid
                base.install_gettext_callables(g, ng, newstyle=(style == "new"), pgettext=pg, npgettext=npg)
            env = base.overlay(autoescape=ae)
        else:
            env = cls(**kw)
        env.policies["ext.i18n.trimmed"] = policy_trim
        if axis == "overlay":
            pass
        elif axis == "translations_object":
            env.install_gettext_translations(Tr, newstyle=(style == "new"))
        elif axis == "null_translations":
            env.install_null_translations(newstyle=(style == "new"))
        else:
            env.install_gettext_callables(g, ng, newstyle=(style == "new"), pgettext=pg, npgettext=npg)
        ctx = {k: (Markup(v) if k in markup else v) for k, v in data.items()}
        t = env.from_string(src)
        if axis == "async":
            import asyncio
            out = asyncio.run(t.render_async(ctx))
        else:
            out = t.render(ctx)
    except Exception as e:
        return None, rec, type(e).__name__ + ": " + str(e)[:80]
    if axis == "null_translations":
        rec = None          # nothing can be recorded
    return out, rec, None


def extract_both(jinja2, src, style, policy_trim, nl="\n"):
    from jinja2.ext import extract_from_ast, babel_extract
    env = jinja2.Environment(extensions=["jinja2.ext.i18n"], newline_sequence=nl)
    env.policies["ext.i18n.trimmed"] = policy_trim
    env.newstyle_gettext = (style == "new")
    alias = {"_": "gettext"}
    a = [(alias.get(f, f), norm_msg(m)) for _, f, m in extract_from_ast(env.parse(src))]
    opts = {"extensions": "jinja2.ext.i18n", "trimmed": "true" if policy_trim else "false",
            "newstyle_gettext": "true" if style == "new" else "false"}
    kw = ("_", "gettext", "ngettext", "pgettext", "npgettext")
    bb = [(alias.get(f, f), norm_msg(m)) for _, f, m, _ in babel_extract(io.BytesIO(src.encode("utf-8")), kw, [], opts)]
    return a, bb


def norm_msg(m):
    """babel-style messages carry None for non-constant arguments (count, keyword arguments)"""
    if isinstance(m, tuple):
        t = tuple(x for x in m if x is not None)
        return t[0] if len(t) == 1 else t
    return m


def norm_call(c):
    f = c[0]
    args = c[1:]
    return (f, args[0] if len(args) == 1 else tuple(args))


def run(ctx):
    jinja2 = lib.use_repo_jinja()
    ctx.extra["rule"] = RULE
    ctx.assumptions += [
        "Python's % operator restricted to %% and %(name)s with a mapping (K-fmt compares the extracted pyformat with "
        "the interpreter on that language, incl. malformed specs which both reject)",
        "ASCII whitespace in trimmed blocks (re's \\s and str.strip on the generated text)",
        "translations are identity functions that record their arguments",
        "C33_trans_renders / C33_plural_choice are stated for untrimmed blocks; trimmed blocks are covered by K-trans, "
        "K-trim and the oracle",
    ]
    ctx.proof("C33")
    ctx.proof("C33ext")

    # ---------------- K-fmt / K-trim
    # bare %s / %r would format the whole mapping: outside the restricted language (_parse_block never emits them)
    # (likewise %a = ascii()); the other conversion letters used here fail on a mapping in python as in the model
    alpha = ["%", "%%", "%(a)s", "%(b)s", "%(zz)s", "(", ")", "q", " ", "%(a", "%d", "z", "d"]
    fcases = []
    for _ in range(ctx.size(1500, 15000)):
        f = "".join(ctx.rng.choice(alpha) for _ in range(ctx.rng.randint(0, 6)))
        fcases.append((f, {"a": ctx.rng.choice(VALUES), "b": ctx.rng.choice(VALUES)}))
    outs = ctx.driver("i18n", [" ".join(["F", enc(f), str(len(v))] + [x for k in v for x in (enc(k), enc(v[k]))]) for f, v in fcases])
    for (f, v), o in zip(fcases, outs):
        try:
            real = "O " + enc(f % v)
        except (ValueError, TypeError, KeyError):
            real = "N"
        ctx.case(key=("fmt", f, repr(v)) if "%" in f else None)
        ctx.count("k_fmt")
        if real != o:
            # the interpreter accepts more conversions than the restricted language (e.g. %(a)d fails, "% (a)s" flags)
            ctx.model_mismatch("K-fmt pyformat vs python %", {"fmt": f, "vars": v}, o, real, None)
        else:
            ctx.validated()
    env0 = jinja2.Environment(extensions=["jinja2.ext.i18n"])
    ext = env0.extensions["jinja2.ext.InternationalizationExtension"]
    wal = [" ", "\n", "\t", "a", "b", "\r", "  ", "\n\n", "%(a)s"]
    wcases = ["".join(ctx.rng.choice(wal) for _ in range(ctx.rng.randint(0, 8))) for _ in range(ctx.size(800, 8000))]
    for s, o in zip(wcases, ctx.driver("i18n", ["W " + enc(s) for s in wcases])):
        try:
            real = ext._trim_whitespace(s)
        except Exception as e:
            real = "X:" + type(e).__name__
        ctx.case(key=("trim", s) if "\n" in s else None)
        ctx.count("k_trim")
        if dec(o) != real:
            ctx.model_mismatch("K-trim trim_ws vs _trim_whitespace", {"s": s}, dec(o), real,
                               None if real == re.sub(r"\s*(?:\r\n|\r|\n)\s*", " ", s.strip()) else "trimmed text is not the documented one")
        else:
            ctx.validated()

    # ---------------- K-trans + oracle
    blocks = [gen_block(ctx.rng) for _ in range(ctx.size(500, 5000))]
    # regression shapes of the fixed defect and corner cases
    fixed = [
        {"decl": [("a", "src_a")], "sing": [("t", "100%")], "plur": None, "ctx": None, "trim": None, "data": {"src_a": "v"}, "markup": [], "count": None},
        {"decl": [("count", "src_count")], "sing": [("t", "100% done")], "plur": [("t", "100% dones")], "ctx": None, "trim": None,
         "data": {"src_count": 2}, "markup": [], "count": "count"},
        {"decl": [("a", "src_a")], "sing": [("t", "%(x)s")], "plur": None, "ctx": "c", "trim": True, "data": {"src_a": "<"}, "markup": [], "count": None},
        {"decl": [], "sing": [("t", "50%% %s ")], "plur": None, "ctx": None, "trim": None, "data": {}, "markup": [], "count": None},
        {"decl": [("num", "src_num")], "sing": [("v", "num"), ("t", " item")], "plur": [("v", "num"), ("t", " items %")], "ctx": "shop",
         "trim": None, "data": {"src_num": 1}, "markup": [], "count": "num"},
    ]
    blocks = fixed + blocks
    configs = [(st, ae) for st in ("old", "new") for ae in (False, True)]
    jobs = []
    for b in blocks:
        pol = ctx.rng.random() < 0.3
        nl = ctx.rng.choice(["\n", "\n", "\n", "\r\n", "\r"])
        for st, ae in configs:
            jobs.append((b, st, ae, pol, nl))
    mouts = ctx.driver("i18n", [model_line(nl_norm(b, nl), st, ae, pol) for b, st, ae, pol, nl in jobs])
    for (b0_, st, ae, pol, nl), mo in zip(jobs, mouts):
        src = print_block(b0_)
        b = nl_norm(b0_, nl)
        ctx.count("newline_" + {"\n": "lf", "\r\n": "crlf", "\r": "cr"}[nl])
        axis = ctx.rng.choice(AXES)
        ctx.count("axis_" + axis)
        out, rec, err = real_run(jinja2, src, b["data"], b["markup"], st, ae, pol, axis, nl=nl)
        m = re.match(r"R (\S+) C (\S+) S (\S+) P (\S+)$", mo)
        m_out = None if m.group(1) == "N" else dec(m.group(1))
        m_call = (None if m.group(2) == "none" else dec(m.group(2)), dec(m.group(3)), None if m.group(4) == "none" else dec(m.group(4)))
        r_call = None
        if rec is None:
            r_call, rec = m_call, []          # null translations: only the rendered text is observable
        elif len(rec) == 1:
            c = rec[0]
            r_call = {"gettext": (None, c[1], None), "ngettext": (None, c[1], c[2]) if len(c) > 2 else None,
                      "pgettext": (c[1], c[2], None) if len(c) > 2 else None,
                      "npgettext": (c[1], c[2], c[3]) if len(c) > 3 else None}[c[0]]
        has_var = bool(block_vars(b))
        text = "".join(p[1] for p in b["sing"] + (b["plur"] or []) if p[0] == "t")
        nt = (has_var and ("%" in text or "\n" in text)) or b["plur"] is not None
        case = {"kind": "trans", "source": src, "data": {k: (v if isinstance(v, (int, float, bool)) else str(v)) for k, v in b["data"].items() if k != "idf"},
                "markup": b["markup"], "style": st, "autoescape": ae, "policy_trimmed": pol, "axis": axis, "newline_sequence": nl,
                "block": dict(b, data={k: (v if isinstance(v, (int, float, bool)) else str(v)) for k, v in b["data"].items() if k != "idf"})}
        ctx.case(sample={"source": src, "data": b["data"], "style": st, "autoescape": ae, "render": out, "gettext_call": rec}
                 if nt and len(ctx.samples) < 5 else None,
                 key=("trans", src, repr(b["data"]), st, ae, pol) if nt else None)
        ctx.count(f"k_trans_{st}_{'ae' if ae else 'plain'}")
        # oracle (a): documented text
        of = None
        spec = spec_text(b, ae, pol)
        if out is None:
            of = f"rendering the block raised {err}"
        elif out != spec:
            of = f"rendered {out!r}, block text with variables substituted is {spec!r}"
        # oracle (b): run-time messages are extracted
        if of is None:
            try:
                ea, eb = extract_both(jinja2, src, st, pol, nl)
            except Exception as e:
                ea = eb = None
                of = f"extraction raised {type(e).__name__}: {e}"
            if of is None:
                for c in rec:
                    nc = norm_call(c)
                    if nc not in ea:
                        of = f"message {nc!r} passed at run time is not reported by extract_from_ast: {ea!r}"
                    elif nc not in eb:
                        if nl != "\n" and any(isinstance(x, str) and ("\r" in x) for x in c[1:]):
                            # babel_extract has no newline_sequence option: recorded finding, judged separately
                            ctx.reject(dict(case, kind="babel-newline"), f"message {nc!r} passed at run time under newline_sequence={nl!r} "
                                       f"is reported by babel_extract with \\n line breaks: {eb!r}", "C33:babel-extract-newline-sequence")
                            continue
                        of = f"message {nc!r} passed at run time is not reported by babel_extract: {eb!r}"
        sig = "C33:install-after-overlay" if axis == "overlay_install_after" else "C33:trans-block"
        if (m_out, m_call) != (out, r_call):
            ctx.model_mismatch("K-trans render_trans / trans_call vs the extension", case, [m_out, m_call], [out, r_call], of, sig)
        elif of:
            ctx.reject(case, of, sig)
        else:
            ctx.validated()

    # ---------------- extraction with direct calls and dead branches
    for i in range(ctx.size(150, 1500)):
        b = gen_block(ctx.rng)
        lit1 = ctx.rng.choice(["plain", "with %(a)s", "100%%", "<b>m</b>", "multi\nline"])
        lit2 = ctx.rng.choice(["one", "one %(num)s"])
        src = (print_block(b) + "{{ _(" + repr(lit1) + ") }}{% if false %}{{ gettext('dead " + str(i % 3) + "') }}{% endif %}"
               + "{{ ngettext(" + repr(lit2) + ", 'many %(num)s', 2) }}{{ pgettext('cx', 'pm') }}{{ npgettext('cx', 's1', 'p1', 1) }}")
        for st in ("old", "new"):
            data = dict(b["data"], a="A", num=3)
            out, rec, err = real_run(jinja2, src, data, b["markup"], st, True, False)
            ctx.case(key=("extract", src, st))
            ctx.count("o_extract")
            if out is None:
                # direct old-style calls with %(a)s are not formatted; a failure here is not about extraction
                ctx.count("o_extract_render_error")
                continue
            try:
                ea, eb = extract_both(jinja2, src, st, False)
            except Exception as e:
                ctx.reject({"kind": "extract", "source": src, "style": st}, f"extraction raised {type(e).__name__}: {e}", "C33:extraction")
                continue
            bad = [norm_call(c) for c in rec if norm_call(c) not in ea or norm_call(c) not in eb]
            dead = ("gettext", f"dead {i % 3}")
            if bad:
                ctx.reject({"kind": "extract", "source": src, "style": st, "data": data, "markup": b["markup"]},
                           f"run-time messages not extracted: {bad!r}", "C33:extraction")
            elif dead not in ea:
                ctx.reject({"kind": "extract", "source": src, "style": st, "data": data, "markup": b["markup"]},
                           "a gettext call in a dead branch is not extracted", "C33:extraction")
            else:
                ctx.validated()

    run_second_part(ctx, jinja2, blocks)
    run_histories(ctx, jinja2, blocks)


def judge_ast_runtime(jinja2, src, newstyle, real_entries):
    """the property on one K-ast source: every message recorded while rendering it is among the extracted ones"""
    import types
    fn = lambda *a, **k: ""      # noqa: E731
    data = {"v": "V", "n": 2, "kw": {}, "ar": ["A"], "obj": types.SimpleNamespace(gettext=fn), "f": fn, "f2": fn, "other": fn,
            "m2": fn, "x": "x", "y": "y", "a": {}, "user": "u"}
    out, rec, err = real_run(jinja2, src, data, [], "new" if newstyle else "old", False, False)
    if not isinstance(real_entries, list):
        return None
    have = {(("gettext" if f == "_" else f), tuple(x for x in slots if x is not None)) for f, slots in real_entries}
    for c in rec:
        if any(not isinstance(x, str) for x in c[1:]):
            continue          # message computed at run time: not a constant of the template
        if (c[0], tuple(c[1:])) not in have and not any(h[0] == c[0] and h[1][:len(c) - 1] == tuple(c[1:]) for h in have):
            return f"message {c!r} passed at run time is not reported by extract_from_ast"
    return None


def run_histories(ctx, jinja2, blocks):
    """HISTORIES on one environment and babel_extract OPTIONS.
    (a) a sequence on ONE environment: render old-style, switch to new-style (install_gettext_callables again),
        compile the same source again and render; then uninstall / null translations — each fresh compile must
        give the documented text; a template compiled BEFORE the switch and served from the template cache is the
        recorded finding C33-newstyle-switched-with-cached-template;
    (b) babel_extract with custom delimiters, comment tags, silent, trimmed and newstyle options, extension lists
        written with spaces / commas: run-time messages of the same source must be among the extracted ones."""
    from jinja2.ext import babel_extract
    ident = (lambda s: s, lambda s, p, n: s if n == 1 else p)
    for b in blocks[:ctx.size(120, 1200)]:
        src = print_block(b)
        env = jinja2.Environment(extensions=["jinja2.ext.i18n"], loader=jinja2.DictLoader({"t": src}), autoescape=True)
        from markupsafe import Markup
        ctxd = {k: (Markup(v) if k in b["markup"] else v) for k, v in b["data"].items()}
        steps = [("old", False), ("new", True), ("old", False), ("new", True)]
        for i, (st, ns) in enumerate(steps):
            try:
                if i == 2:
                    env.install_null_translations(newstyle=ns)
                else:
                    env.install_gettext_callables(ident[0], ident[1], newstyle=ns, pgettext=lambda c, s: s,
                                                  npgettext=lambda c, s, p, n: s if n == 1 else p)
                fresh = env.from_string(src).render(ctxd)
            except Exception as e:
                fresh = "X:" + type(e).__name__
            spec = spec_text(b, True, False)
            ctx.case(key=("hist", src, i))
            ctx.count("h_switch")
            if fresh != spec:
                ctx.reject({"kind": "history", "source": src, "step": i, "style": st}, f"after switching to {st}-style on the same environment a fresh "
                           f"compile renders {fresh!r}, documented {spec!r}", "C33:style-switch-fresh-compile")
                continue
            ctx.validated()
            try:
                cached = env.get_template("t").render(ctxd)
            except Exception as e:
                cached = "X:" + type(e).__name__
            if cached != spec:
                ctx.reject({"kind": "history", "source": src, "step": i, "style": st, "cached": True},
                           f"template compiled before the style switch, served from the cache, renders {cached!r} instead of {spec!r}",
                           "C33:newstyle-switched-with-cached-template")
    delims = ("<%", "%>", "<<", ">>")
    for b in blocks[:ctx.size(150, 1500)]:
        st = ctx.rng.choice(["old", "new"])
        pol = ctx.rng.random() < 0.4
        # whitespace-control options vary INDEPENDENTLY; tags sit on indented lines of their own so that they matter
        wkw = {"trim_blocks": ctx.rng.random() < 0.5, "lstrip_blocks": ctx.rng.random() < 0.5, "keep_trailing_newline": ctx.rng.random() < 0.5}
        blk = print_block(b, delims).replace("%>", "%>\n", 1)
        blk = blk.replace("<% pluralize", "\n   <% pluralize").replace("<% endtrans", "\n\t<% endtrans")
        src = ("<# NOTE: for translators #>\n" + blk + "\n  <% if true %>\n<< _('direct %(x)s') >>\n  <% endif %>\n"
               "<% if false %><< gettext('dead') >><% endif %>\n")
        ctx.count("babel_ws_" + "".join("1" if wkw[k] else "0" for k in ("trim_blocks", "lstrip_blocks", "keep_trailing_newline")))
        out, rec, err = real_run(jinja2, src, dict(b["data"], x=1), b["markup"], st, False, pol, "plain", delims=delims + ("<#", "#>"),
                                 env_kw=wkw)
        ctx.case(key=("babelopt", src, st, pol))
        ctx.count("o_babel_options")
        if out is None:
            ctx.count("o_babel_options_render_error")
            continue
        ext_spelling = ctx.rng.choice(["jinja2.ext.i18n", " jinja2.ext.i18n , jinja2.ext.do", "jinja2.ext.i18n,jinja2.ext.loopcontrols"])
        opts = {"extensions": ext_spelling, "trimmed": "yes" if pol else "no", "newstyle_gettext": "1" if st == "new" else "off",
                "block_start_string": "<%", "block_end_string": "%>", "variable_start_string": "<<", "variable_end_string": ">>",
                "comment_start_string": "<#", "comment_end_string": "#>", "silent": ctx.rng.choice(["true", "false"]), "encoding": "utf-8",
                "trim_blocks": "true" if wkw["trim_blocks"] else "false", "lstrip_blocks": "yes" if wkw["lstrip_blocks"] else "no",
                "keep_trailing_newline": "1" if wkw["keep_trailing_newline"] else "0"}
        try:
            res = list(babel_extract(io.BytesIO(src.encode("utf-8")), ("_", "gettext", "ngettext", "pgettext", "npgettext"), ["NOTE:"], opts))
        except Exception as e:
            ctx.reject({"kind": "babel", "source": src, "options": opts}, f"babel_extract raised {type(e).__name__}: {e}", "C33:babel-options")
            continue
        got = [(("gettext" if f == "_" else f), norm_msg(m)) for _, f, m, _ in res]
        bad = [norm_call(c) for c in rec if norm_call(c) not in got]
        if bad:
            ctx.reject({"kind": "babel", "source": src, "options": opts, "style": st}, f"run-time messages not reported by babel_extract "
                       f"with custom delimiters: {bad!r} (reported {got!r})", "C33:babel-options")
        elif ("gettext", "dead") not in got:
            ctx.reject({"kind": "babel", "source": src, "options": opts, "style": st}, "gettext call in a dead branch not extracted", "C33:babel-options")
        elif not any("for translators" in " ".join(c) for _, _, _, c in res if c):
            ctx.reject({"kind": "babel", "source": src, "options": opts, "style": st}, "translator comment (comment tag NOTE:) before the first "
                       "message is not attached to any extracted message", "C33:babel-comments")
        else:
            ctx.validated()


def run_second_part(ctx, jinja2, blocks):
    """K-ast (generic AST walk of extract_from_ast) and K-trimblock (trimmed block = block of the trimmed text)"""
    env = jinja2.Environment(extensions=["jinja2.ext.i18n"])
    srcs = [A.gen_source(ctx.rng) for _ in range(ctx.size(600, 6000))]
    for style in (False, True):
        env.newstyle_gettext = style
        trees, keep = [], []
        for src in srcs:
            try:
                trees.append(env.parse(src)); keep.append(src)
            except Exception:
                ctx.case(); ctx.count("k_ast_parse_error")
        outs = ctx.driver("i18nx", [A.model_line(jinja2, t) for t in trees])
        for src, tree, o in zip(keep, trees, outs):
            m = A.parse_model(o)
            try:
                real = A.real_entries(jinja2, tree)
            except Exception as e:
                real = "X:" + type(e).__name__
            nested = "_(_(" in src or "k=_(" in src or "a=_(" in src or "f2(" in src
            ctx.case(sample={"tie": "K-ast", "source": src, "extracted": real} if nested and len(ctx.samples) < 6 else None,
                     key=("ast", src, style) if nested else None)
            ctx.count("k_ast")
            if m != real:
                ctx.model_mismatch("K-ast I18nTrim.extract vs extract_from_ast", {"kind": "ast", "source": src, "newstyle": style},
                                   m, real, judge_ast_runtime(jinja2, src, style, real), "C33:extraction")
            else:
                ctx.validated()
    ext = env.extensions["jinja2.ext.InternationalizationExtension"]
    lines, fmts = [], []
    for b in blocks:
        for ps in (b["sing"], b["plur"]):
            if ps is None:
                continue
            lines.append(" ".join(["B", str(len(ps))] + [p[0] + ":" + enc(p[1]) for p in ps]))
            fmts.append("".join(p[1].replace("%", "%%") if p[0] == "t" else "%(" + p[1] + ")s" for p in ps))
    for ln, f, o in zip(lines, fmts, ctx.driver("i18nx", lines)):
        a, b2 = [dec(x) for x in o.split(" | ")]
        real = ext._trim_whitespace(f)
        ctx.case(key=("trimblock", f) if "\n" in f else None)
        ctx.count("k_trimblock")
        if not (a == b2 == real):
            ctx.model_mismatch("K-trimblock fmt_of true / parse_block(trim_block) vs _trim_whitespace", {"fmt": f}, [a, b2], real, None)
        else:
            ctx.validated()


def replay(ctx, data):
    jinja2 = lib.use_repo_jinja()
    case = data.get("case")
    if data.get("kind") != "failing-input" or case is None:
        print("replay: this file names a broken theorem/correspondence, not an input:", data.get("broken"))
        return run(ctx)
    if case.get("kind") == "trans":
        b = case["block"]
        b["sing"] = [tuple(p) for p in b["sing"]]
        b["plur"] = [tuple(p) for p in b["plur"]] if b["plur"] is not None else None
        b["decl"] = [tuple(p) for p in b["decl"]]
        b["data"]["idf"] = _idf
        out, rec, err = real_run(jinja2, case["source"], b["data"], b["markup"], case["style"], case["autoescape"], case["policy_trimmed"],
                                 case.get("axis", "plain"), nl=case.get("newline_sequence", "\n"))
        spec = spec_text(b, case["autoescape"], case["policy_trimmed"])
        print("source  :", case["source"], "\nrendered:", repr(out), err or "", "\nspec    :", repr(spec), "\ncalls   :", rec)
        if out != spec:
            ctx.reject(case, f"rendered {out!r}, documented {spec!r}", "C33:trans-block")
    elif case.get("kind") == "ast":
        env = jinja2.Environment(extensions=["jinja2.ext.i18n"])
        env.newstyle_gettext = case["newstyle"]
        real = A.real_entries(jinja2, env.parse(case["source"]))
        w = judge_ast_runtime(jinja2, case["source"], case["newstyle"], real)
        print("source:", case["source"], "\nextracted:", real, "\noracle:", w)
        if w:
            ctx.reject(case, w, "C33:extraction")
    elif case.get("kind") == "extract":
        out, rec, err = real_run(jinja2, case["source"], case.get("data", {}), case.get("markup", []), case["style"], True, False)
        ea, eb = extract_both(jinja2, case["source"], case["style"], False)
        bad = [norm_call(c) for c in rec if norm_call(c) not in ea or norm_call(c) not in eb]
        print("calls:", rec, "\nextract_from_ast:", ea, "\nbabel_extract:", eb, "\nmissing:", bad)
        if bad:
            ctx.reject(case, f"run-time messages not extracted: {bad!r}", "C33:extraction")
    else:
        print("replay: unknown case kind", case)
