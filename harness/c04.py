"""C04 — template inheritance renders the most-derived block overrides.

proof : Properties/C04.v  (stack_order, inherit_correct, no_child_output, required_enforced, fuel lemmas)
tie   : T5    gen/inh_translate.py: source of Context.super / BlockReference.super / __call__ = Model/InhRt
        K-rt  extracted Model.Inh.render == Environment(DictLoader).get_template(child).render on
        generated hierarchies (exhaustive skeleton grammar + random), and the model's context.blocks
        == the real Context.blocks after the render (function -> defining template);
oracle: extracted Spec.InhSpec.spec_render (written from templates.rst) vs the real render.
probe : hypothesis chain_wf (block names distinct per template): the engine rejects a template that
        violates it with TemplateSyntaxError.
"""
import itertools

from . import lib
from . import inh_gen as G

FUEL = 64
RULE = ("skeleton: every chain of 1..D templates, each template one of V variants over two block names "
        "(absent / text / text+super() / super.super() / self.other() / required / nested definition / scoped "
        "block in a loop), each preceded by a block set / with / filter / call / include statement or nothing, parents "
        "selected by dynamic extends; random: depth 1-4, 1-5 block names, nesting <= 3, "
        "super / super.super / self calls, loops with scoped and unscoped blocks, required blocks, include / call block / "
        "filter block / with / block set statements at every level (also at the top level of children),  constant / "
        "dynamic (name or template object) / conditional extends, content before extends, second extends, "
        "missing parent. distinct = the driver line (chain structure + data); non-trivial = at least two "
        "templates in the chain and at least one block defined in two of them.")


# ---------------------------------------------------------------- skeleton grammar
def variants(full):
    A = [0, 1, 2, 3, 4]
    Bv = [0, 1, 2, 3]
    vs = [("ab", a, b) for a in A for b in Bv]
    vs += [("nest",), ("loop",), ("loopu",)]
    if not full:
        keep = {("ab", 0, 0), ("ab", 1, 0), ("ab", 2, 1), ("ab", 3, 2), ("ab", 4, 1), ("ab", 0, 3), ("ab", 2, 2),
                ("nest",), ("loop",)}
        vs = [v for v in vs if v in keep]
    return vs


STRAY_KINDS = [None, "set", "with", "filter", "call", "inc", "filterb", "incw"]


def skeleton_template(name, lvl, v, child, vi=0):
    L = "pqrs"[lvl]
    t = {"name": name, "tops": [], "blocks": {}}
    if child:
        t["tops"].append(("x", None, None, "dynname"))
    # a statement other than text / block in front of the template's own top-level text: in a child it and
    # everything after it must stay unrendered (a block set / with / filter / call / include must not
    # switch the suppression off for what follows), in a root it renders where it stands
    kind = STRAY_KINDS[(vi + lvl) % len(STRAY_KINDS)]
    if kind:
        t["tops"].append(("i", ("e", kind, "z" + L)))
    t["tops"].append(("i", ("s", L + "[")))
    if v[0] == "ab":
        a, b = v[1], v[2]
        if a:
            body = {1: [("s", "A" + L)], 2: [("s", "A" + L), ("u", 0)], 3: [], 4: [("f", "b2"), ("s", "A" + L)]}[a]
            t["blocks"]["b1"] = (False, a == 3, body)
            t["tops"].append(("i", ("b", "b1")))
        t["tops"].append(("i", ("s", "|")))
        if b:
            # overrides read the loop variable and loop.index of a loop that only the ancestor's template contains
            body = {1: [("s", "B" + L), ("v", "loop.index"), ("v", "lazy")], 2: [("u", 0), ("s", "B" + L), ("v", "i")],
                    3: [("s", "B" + L), ("u", 1)]}[b]
            t["blocks"]["b2"] = (False, False, body)
            t["tops"].append(("i", ("b", "b2")))
    elif v[0] == "nest":
        t["blocks"]["b1"] = (False, False, [("s", "N" + L), ("b", "b2"), ("u", 0)])
        t["blocks"]["b2"] = (False, False, [("s", "n" + L), ("u", 0)])
        t["tops"].append(("i", ("b", "b1")))
    else:
        t["blocks"]["b2"] = (v[0] == "loop", False, [("v", "i"), ("v", "lazy")] + ([("v", "loop.index")] if lvl % 2 else []) + [("s", "l" + L)]
                             + ([("u", 0)] if child else []))
        # the block site sits directly in the loop body or below an if / with statement
        ws = [None] + G.WRAPS + ([] if child else ["setblock"])
        w = ws[(3 * lvl + vi) % len(ws)]
        if w:
            t["wraps"] = {"b2": w}
        t["tops"].append(("i", ("l", "i", ["1", "2"], [("b", "b2"), ("s", ",")])))
    t["tops"].append(("i", ("s", "]")))
    return t


# ---------------------------------------------------------------- judging one hierarchy
def parse_model(line):
    parts = dict(p.split(" ", 1) if " " in p else (p, "") for p in line.split(" | "))
    return parts["M"], parts["S"], parts["W"], parts["P"], parts.get("B", "")


def signature(h, spec, real):
    f = G.features(h)
    if spec == "E Required" and real.startswith("O "):
        rp = G.required_positions(h)
        if any(rq and idx < len(h["chain"]) - 1 for idx, rq in rp.values()):
            return "C04:required-block-below-root-rendered"
        return "C04:required-block-rendered"
    for kind, sig in (("inc", "include"), ("incw", "include"), ("call", "call-block"), ("filter", "filter-block"),
                      ("filterb", "filter-block")):
        if "child-post-stmt-" + kind in f and real != spec:
            return "C04:child-toplevel-" + sig + "-rendered"
    if spec.startswith("O ") and real.startswith("O ") and "child-post-loop-block" in f:
        return "C04:block-in-loop-of-child-rendered-in-place"
    return None


def judge(ctx, h, mline, real, rblocks, srcs, line):
    m, s, w, p, b = parse_model(mline)
    feats = G.features(h)
    by = {t["name"]: t for t in h["templates"]}
    defined = {}
    for n in h["chain"]:
        for bn in by[n]["blocks"]:
            defined[bn] = defined.get(bn, 0) + 1
    nontriv = len(h["chain"]) >= 2 and any(c >= 2 for c in defined.values())
    case = {"sources": srcs, "main": h["chain"][0], "chain": h["chain"], "data": h["data"],
            "extends_data": G.extends_data(h), "model_line": line}
    if "_rel" in h:
        case.update(main=h["_rel"][0], extends_data=h["_rel"][1], env_kind="relpath")
    ctx.case(sample={"sources": srcs, "chain": h["chain"], "data": h["data"], "render": real}
             if nontriv and len(feats) >= 5 else None, key=line if nontriv else None)
    for f in feats:
        ctx.count(f)
    ctx.count("result:" + (real.split(" ")[1] if real.startswith("E ") else "ok" if real.startswith("O ") else "other"))
    if w != "1":
        raise RuntimeError("generator produced an ill-formed chain: " + line)
    if m != s and m != "E Fuel" and "C04 theorem inherit_correct contradicted by extracted code" not in ctx.broken:
        ctx.broken.append("C04 theorem inherit_correct contradicted by extracted code")
    if p != m and "C04 theorem no_child_output contradicted by extracted code" not in ctx.broken:
        ctx.broken.append("C04 theorem no_child_output contradicted by extracted code")
    if real != s:
        what = (f"the engine renders {show(real)} but the documented inheritance semantics gives {show(s)} "
                f"(model: {show(m)})")
        if real != m:
            ctx.model_mismatch("K-rt inheritance render", case, m, real, what, signature(h, s, real))
        else:
            ctx.reject(case, what, signature(h, s, real))
        return
    if real != m:
        ctx.model_mismatch("K-rt inheritance render", case, m, real, None)
        return
    if rblocks is not None:
        # the model's context.blocks against the real one: name -> [defining template ...]
        want = {}
        for ent in filter(None, b.split(";")):
            n, js = ent.split(":")
            bn = "b" + n
            want[G.UNI_IDENT.get(bn, bn) if h.get("unicode") else bn] = [h["chain"][int(j)] for j in js.split(",")]
        if want != rblocks:
            ctx.model_mismatch("K-rt context.blocks (stack_order)", case, want, rblocks,
                               None)
            return
    ctx.validated()


def show(r):
    if r.startswith("O "):
        return repr(G.dec_str(r[2:]))
    return r


def env_kind(idx, env):
    if isinstance(env, dict):
        # skeleton: one shared environment per configuration; every 9th chain goes through another axis
        return G.ENV_KINDS[(idx // 9) % len(G.ENV_KINDS)] if idx % 9 == 4 else "plain"
    if env is None and idx % 4 == 1:
        return G.ENV_KINDS[(idx // 4) % len(G.ENV_KINDS)]
    if env is None and idx % 4 == 3:
        return "relpath"        # join_path relative to the referring template, templates in nested directories
    return "plain"


def run_batch(ctx, jinja2, hs, env=None, blocks_every=3):
    lines = [G.model_line(h, FUEL, G.CUSTOM_EXTRA if env_kind(i, env) == "custom" else None) for i, h in enumerate(hs)]
    out = ctx.driver("inh", lines)
    for idx, (h, line, ml) in enumerate(zip(hs, lines, out)):
        srcs = G.sources(h) if env is None else dict({n: env["plain"].loader.mapping[n] for n in h["chain"]},
                                                     **G.aux_templates(h))
        full = len(h["chain"]) == len([1 for n in h["chain"]])  # chain handed to the model is the effective one
        kind = env_kind(idx, env)
        e = env[kind] if isinstance(env, dict) else env
        wb = (idx % blocks_every == 0) and kind == "plain"
        if kind == "relpath":
            rsrcs, rmain, rx = G.relativize(h, srcs)
            real, rb = G.real_render_src(jinja2, rsrcs, rmain, h["data"], rx, False, None, "relpath", idx % 3 == 2)
            srcs = rsrcs
            h = dict(h, _rel=(rmain, rx))
        else:
            real, rb = G.real_render(jinja2, h, want_blocks=wb, srcs=srcs if e is None else None, env=e, kind=kind,
                                     history=(e is None and idx % 3 == 2))
        ctx.count("env:" + kind)
        if rb is not None:
            # blocks_of_chain assumes every template of the chain registered its parent
            m = parse_model(ml)[0]
            if not m.startswith("O "):
                rb = None
        judge(ctx, h, ml, real, rb, srcs, line)


def translator_tie(ctx, module, name, n):
    """regenerate the source = model equations from the current source and compile them"""
    import importlib
    import os
    import sys
    sys.path.insert(0, os.path.join(lib.ROOT, "gen"))
    tr = importlib.import_module(module)
    try:
        vtext = tr.emit(lib.SRC)
    except tr.Untranslatable as e:
        ctx.broken.append(f"translator gen/{module}.py: the source left the translatable vocabulary: {e}")
        return
    ok, out = ctx.coq_obligation(name, vtext, n_obligations=n)
    if ok:
        ctx.trusted.append(f"{name} (source = model equations): " + " ".join(out.split()))


def run(ctx):
    jinja2 = lib.use_repo_jinja()
    ctx.extra["rule"] = RULE
    ctx.assumptions += [
        "block names are distinct per template (chain_wf); probed: the engine rejects a violating template with "
        "TemplateSyntaxError",
        "fuel = bound on nested block-function calls (CPython: recursion limit); hierarchies whose model run ends "
        "in EFuel must end in RecursionError on the engine",
        "the chain handed to the model is the one the harness computes from the extends statements it generated "
        "(constant / dynamic name / template object / conditional)",
        "block bodies restricted to text, variables, block sites, super chains, self calls, for loops and opaque "
        "output statements; configurations sampled: sync / async rendering, autoescape on / off, sandboxed environment "
        "(the model is configuration independent: all must give the same text)",
    ]
    ctx.proof("C04")
    # translator tie: the current source of Context.super, BlockReference.super and BlockReference.__call__, as terms
    # of Lib/PyInh, equals Model/InhRt's functions (which C04_super_is_runtime shows are what exec_item computes)
    translator_tie(ctx, "inh_translate", "Gen_inh", 3)

    # ---------------- exhaustive skeleton
    D = 3
    vs = variants(full=True)
    vs_deep = variants(full=ctx.tier == "thorough")
    if ctx.tier == "thorough":
        # depth 4 over 19 of the 23 variants (130 321 chains) keeps the thorough tier inside its time budget
        vs_deep = [v for v in vs_deep if v not in {("ab", 1, 1), ("ab", 4, 3), ("ab", 2, 0), ("ab", 0, 2)}]
    srcs = {}
    tmpl = {}
    for lvl in range(4):
        for vi, v in enumerate(vs):
            for child in (True, False):
                name = f"{'c' if child else 'r'}{lvl}v{vi}"
                t = skeleton_template(name, lvl, v, child, vi)
                tmpl[(lvl, vi, child)] = t
                srcs[name] = G.source(t, lvl)
                srcs.update(G.aux_templates({"templates": [t]}))
    env = {k: G.make_env(jinja2, jinja2.DictLoader(srcs), k, cache_size=-1) for k in G.ENV_KINDS}
    hs = []

    def emit(combo):
        ts = []
        for lvl, vi in enumerate(combo):
            t = tmpl[(lvl, vi, lvl < len(combo) - 1)]
            ts.append(t)
        # dynamic extends: the parent's name travels in the data
        ts2 = []
        for lvl, t in enumerate(ts):
            if lvl < len(ts) - 1:
                t = dict(t, tops=[("x", None, ts[lvl + 1]["name"], "dynname")] + t["tops"][1:])
            ts2.append(t)
        hs.append({"templates": ts2, "chain": [t["name"] for t in ts2], "data": {"x": "X"}})

    idx_all = list(range(len(vs)))
    idx_deep = [i for i, v in enumerate(vs) if v in vs_deep]
    for d in range(1, 5):
        pool = idx_all if d <= D else idx_deep
        for combo in itertools.product(pool, repeat=d):
            emit(combo)
    ctx.extra["exhaustive"] = True
    ctx.extra["skeleton_hierarchies"] = len(hs)
    B = 20000
    for i in range(0, len(hs), B):
        run_batch(ctx, jinja2, hs[i:i + B], env=env, blocks_every=7)

    # ---------------- random hierarchies
    g = G.HGen(ctx.rng, max_depth=ctx.size(4, 6))
    hs = [g.hierarchy() for _ in range(ctx.size(1800, 40000))]
    run_batch(ctx, jinja2, hs, blocks_every=3)

    self_attribute_probe(ctx, jinja2)

    # ---------------- hypothesis probe: duplicate block names
    for n in range(ctx.size(20, 200)):
        h = g.hierarchy()
        t = ctx.rng.choice(h["templates"])
        if not t["blocks"]:
            continue
        b = ctx.rng.choice(list(t["blocks"]))
        # the same name again, or a different spelling with the same NFKC normal form (Python would make both one
        # function): either way the two blocks cannot both be rendered and the compiler has to refuse
        b2 = b if n % 2 else "ｂ" + b[1:]
        src = G.source(t, 0) + "{% block " + b2 + " %}dup{% endblock %}"
        ctx.case()
        ctx.count("probe-duplicate-block")
        try:
            jinja2.Environment().from_string(src)
            ctx.reject({"source": src}, f"a template defining block {b!r} and block {b2!r} (same function name after "
                                        f"identifier normalisation) was accepted", "C04:block-names-same-normal-form"
                       if b2 != b else None)
        except jinja2.TemplateSyntaxError:
            ctx.validated()
        except Exception as e:  # noqa
            ctx.reject({"source": src}, f"duplicate block raised {type(e).__name__} instead of TemplateSyntaxError", None)


def self_attribute_probe(ctx, jinja2):
    """hypothesis of the model's `self.b()`: the block name is not an attribute of the TemplateReference object.  The
    recorded finding C04-self-block-name-is-object-attribute is re-observed here on every run; ordinary names that
    merely look unusual must work"""
    for name, known in (("__repr__", True), ("_TemplateReference__context", True), ("__init__", True), ("__class__", True),
                        ("_x", False), ("__x", False), ("x__", False), ("__getitem", False)):
        src = "{%% block %s %%}X{%% endblock %%}|{{ self.%s() }}" % (name, name)
        ctx.case()
        ctx.count("probe-self-attribute-name")
        try:
            got = jinja2.Environment().from_string(src).render()
        except Exception as e:  # noqa
            got = "X:" + type(e).__name__
        if got != "X|X":
            ctx.reject({"source": src, "block": name}, f"self.{name}() gives {got!r}, the most-derived definition renders 'X'",
                       "C04:self-block-name-is-attribute-of-TemplateReference" if known else None)
        else:
            ctx.validated()


def replay(ctx, data):
    jinja2 = lib.use_repo_jinja()
    case = data.get("case")
    if data.get("kind") != "failing-input" or case is None:
        print("replay: this file names a broken theorem/correspondence, not an input:", data.get("broken"))
        return run(ctx)
    if "block" in case:
        try:
            got = jinja2.Environment().from_string(case["source"]).render()
        except Exception as e:  # noqa
            got = "X:" + type(e).__name__
        print("renders:", got)
        if got != "X|X":
            ctx.reject(case, f"self.{case['block']}() gives {got!r}", data.get("signature"))
        return
    if "model_line" not in case:
        try:
            jinja2.Environment().from_string(case["source"])
            print("accepted")
            ctx.reject(case, "a template defining a block twice was accepted")
        except jinja2.TemplateSyntaxError as e:
            print("rejected:", e)
        return
    ml = ctx.driver("inh", [case["model_line"]])[0]
    m, s, w, p, b = parse_model(ml)
    real, _ = G.real_render_src(jinja2, case["sources"], case["main"], case["data"], case["extends_data"],
                                kind=case.get("env_kind", "plain"))
    for n, src in case["sources"].items():
        print(f"  {n}: {src}")
    print("engine:", show(real), "\nspec  :", show(s), "\nmodel :", show(m))
    if real != s:
        ctx.reject(case, f"the engine renders {show(real)} but the documented inheritance semantics gives {show(s)}",
                   data.get("signature"))
