"""Shared by C17 / C18: generated Jinja expressions and templates, the routing skeleton of the REAL
generated Python (to be compared with Model/SbxGen.show (gen m e)), and the structural scan of
real generated code for raw attribute access / raw subscripts / ungated calls on template values.
"""
from __future__ import annotations

import ast
import re

TVAR = re.compile(r"^l_\d+_(.*)$")

NAMES = ["x", "y", "o", "f", "d"]
ATTRS = ["foo", "pub", "_priv", "__class__", "__globals__", "mro", "gi_frame", "format", "items", "unsafe"]
FILTERS0 = ["upper", "first", "length", "list", "string", "safe"]
TESTS = [("defined", 0), ("none", 0), ("divisibleby", 1), ("sameas", 1), ("eq", 1)]
KWNAMES = ["a", "b", "k", "default_value"]


# ------------------------------------------------------------------ expression generator
class EGen:
    """random expression trees: returns (jinja source, prefix-term tokens for the sbx driver)"""

    def __init__(self, rng, attrs=None):
        self.r = rng
        self.attrs = attrs or ATTRS

    def const(self):
        r = self.r
        if r.random() < 0.5:
            v = r.randint(0, 3)
            return str(v), ["C", repr(v).encode().hex()]
        s = r.choice(["a", "_priv", "k", "__class__"])
        return repr(s), ["C", repr(s).encode().hex()]

    def opt(self, d):
        if self.r.random() < 0.5:
            return "", ["_"]
        return self.expr(d)

    def args(self, d, maxn=2):
        n = self.r.randint(0, maxn)
        srcs, toks = [], [str(n)]
        for _ in range(n):
            s, t = self.expr(d)
            srcs.append(s)
            toks += t
        return srcs, toks

    def kwargs(self, d, maxn=2):
        n = self.r.randint(0, maxn)
        names = self.r.sample(KWNAMES, n)
        srcs, toks = [], [str(n)]
        for k in names:
            s, t = self.expr(d)
            srcs.append(f"{k}={s}")
            toks += [k] + t
        return srcs, toks

    def expr(self, d):
        r = self.r
        if d <= 0 or r.random() < 0.15:
            if r.random() < 0.7:
                n = r.choice(NAMES)
                return n, ["N", n]
            return self.const()
        k = r.random()
        if k < 0.22:
            s, t = self.expr(d - 1)
            a = r.choice(self.attrs)
            return f"({s}).{a}", ["GA"] + t + [a]
        if k < 0.38:
            s, t = self.expr(d - 1)
            i, ti = self.expr(d - 1) if r.random() < 0.5 else self.const()
            return f"({s})[{i}]", ["GI"] + t + ti
        if k < 0.45:
            s, t = self.expr(d - 1)
            lo, tlo = self.opt(d - 2)
            hi, thi = self.opt(d - 2)
            if r.random() < 0.3:
                st, tst = self.expr(d - 2)
                return f"({s})[{lo}:{hi}:{st}]", ["SL"] + t + tlo + thi + tst
            return f"({s})[{lo}:{hi}]", ["SL"] + t + tlo + thi + ["_"]
        if k < 0.68:
            s, t = self.expr(d - 1)
            a, ta = self.args(d - 1)
            kw, tkw = self.kwargs(d - 1)
            parts = a + kw
            tdyn, tdynkw = ["_"], ["_"]
            if r.random() < 0.2:
                ds, tdyn = self.expr(d - 2)
                parts.append("*" + ds)
            if r.random() < 0.2:
                ds, tdynkw = self.expr(d - 2)
                parts.append("**" + ds)
            return f"({s})({', '.join(parts)})", ["CALL"] + t + ta + tkw + tdyn + tdynkw
        if k < 0.80:
            s, t = self.expr(d - 1)
            kind = r.random()
            if kind < 0.5:
                n = r.choice(FILTERS0)
                return f"(({s})|{n})", ["F", n] + t + ["0", "0"]
            if kind < 0.7:
                a, ta = self.expr(d - 1)
                return f"(({s})|attr({a}))", ["F", "attr"] + t + ["1"] + ta + ["0"]
            if kind < 0.85:
                a, ta = self.expr(d - 1)
                return f"(({s})|default({a}, boolean={a}))", ["F", "default"] + t + ["1"] + ta + ["1", "boolean"] + ta
            a, ta = self.expr(d - 1)
            return f"(({s})|map(attribute={a}))", ["F", "map"] + t + ["0", "1", "attribute"] + ta
        if k < 0.86:
            s, t = self.expr(d - 1)
            n, na = r.choice(TESTS)
            if na == 0:
                return f"(({s}) is {n})", ["T", n] + t + ["0"]
            a, ta = self.expr(d - 1)
            return f"(({s}) is {n}({a}))", ["T", n] + t + ["1"] + ta
        # plain operators / displays
        op = r.choice(["add", "not", "and", "or", "cmp", "cond", "list", "tuple", "dict", "concat"])
        if op == "not":
            s, t = self.expr(d - 1)
            return f"(not {s})", ["OP", "not", "1"] + t
        if op in ("add", "and", "or", "cmp", "concat"):
            a, ta = self.expr(d - 1)
            b, tb = self.expr(d - 1)
            sym = {"add": "+", "and": "and", "or": "or", "cmp": "==", "concat": "~"}[op]
            return f"({a} {sym} {b})", ["OP", op, "2"] + ta + tb
        if op == "cond":
            a, ta = self.expr(d - 1)
            c, tc = self.expr(d - 1)
            b, tb = self.expr(d - 1)
            return f"({a} if {c} else {b})", ["OP", "cond", "3"] + ta + tc + tb
        if op in ("list", "tuple"):
            n = r.randint(2, 3)
            ss, ts = [], []
            for _ in range(n):
                s, t = self.expr(d - 1)
                ss.append(s)
                ts += t
            body = ", ".join(ss)
            return (f"[{body}]" if op == "list" else f"({body})"), ["OP", op, str(n)] + ts
        k1, tk1 = self.const()
        v1, tv1 = self.expr(d - 1)
        return "{" + f"{k1}: {v1}" + "}", ["OP", "dict", "2"] + tk1 + tv1


# ------------------------------------------------------------------ real generated code -> skeleton
ENGINE_EXTRA_KW = {"_loop_vars", "_block_vars", "caller"}


class Skel:
    """maps the Python expression the real compiler emitted to the text Model/SbxGen.show prints"""

    def __init__(self, filt_names):
        self.filt = filt_names      # t_<n> -> ("F"|"T", name)

    def opt(self, n):
        return "_" if n is None else self.sk(n)

    def is_env(self, f, attr):
        return isinstance(f, ast.Attribute) and isinstance(f.value, ast.Name) and f.value.id == "environment" and f.attr == attr

    def call_parts(self, c, skip):
        args, star = [], None
        for a in c.args[skip:]:
            if isinstance(a, ast.Starred):
                star = a.value
            else:
                args.append(a)
        kw, dstar = [], None
        for k in c.keywords:
            if k.arg is None:
                dstar = k.value
            elif k.arg in ENGINE_EXTRA_KW and isinstance(k.value, ast.Name) and k.value.id == k.arg:
                continue
            else:
                kw.append(k)
        return (",".join(self.sk(a) for a in args), ",".join(f"{k.arg}={self.sk(k.value)}" for k in kw),
                self.opt(star), self.opt(dstar))

    def sk(self, n):
        if isinstance(n, ast.Name):
            m = TVAR.match(n.id)
            return f"V({m.group(1)})" if m else f"ENGINE({n.id})"
        if isinstance(n, ast.Constant):
            return f"C({n.value!r})"
        if isinstance(n, ast.IfExp):
            # (undefined(name='x') if l_0_x is missing else l_0_x)
            t = n.test
            if (isinstance(t, ast.Compare) and isinstance(t.left, ast.Name) and TVAR.match(t.left.id)
                    and len(t.ops) == 1 and isinstance(t.ops[0], ast.Is) and isinstance(t.comparators[0], ast.Name)
                    and t.comparators[0].id == "missing" and isinstance(n.orelse, ast.Name) and n.orelse.id == t.left.id):
                return f"V({TVAR.match(t.left.id).group(1)})"
            return f"O(cond;{self.sk(n.body)},{self.sk(n.test)},{self.sk(n.orelse)})"
        if isinstance(n, ast.Await):
            v = n.value
            if isinstance(v, ast.Call) and isinstance(v.func, ast.Name) and v.func.id == "auto_await" and len(v.args) == 1:
                return f"AW({self.sk(v.args[0])})"
            return f"RAWAWAIT({ast.dump(v)[:40]})"
        if isinstance(n, ast.Call):
            f = n.func
            if self.is_env(f, "getattr") and len(n.args) == 2 and isinstance(n.args[1], ast.Constant) and not n.keywords:
                return f"GA({self.sk(n.args[0])},{n.args[1].value})"
            if self.is_env(f, "getitem") and len(n.args) == 2 and not n.keywords:
                return f"GI({self.sk(n.args[0])},{self.sk(n.args[1])})"
            if self.is_env(f, "call") and n.args and isinstance(n.args[0], ast.Name) and n.args[0].id == "context":
                a, kw, st, ds = self.call_parts(n, 2)
                return f"ENVCALL({self.sk(n.args[1])};{a};{kw};{st};{ds})"
            if isinstance(f, ast.Attribute) and isinstance(f.value, ast.Name) and f.value.id == "context" and f.attr == "call":
                a, kw, st, ds = self.call_parts(n, 1)
                return f"CTXCALL({self.sk(n.args[0])};{a};{kw};{st};{ds})"
            if isinstance(f, ast.Name) and f.id in self.filt:
                kind, name = self.filt[f.id]
                skip = 0
                if n.args:
                    a0 = n.args[0]
                    if (isinstance(a0, ast.Name) and a0.id in ("context", "environment")) or \
                            (isinstance(a0, ast.Attribute) and isinstance(a0.value, ast.Name) and a0.value.id == "context"
                             and a0.attr == "eval_ctx"):
                        skip = 1
                a, kw, st, ds = self.call_parts(n, skip + 1)
                if kind == "F":
                    return f"F({name};{self.sk(n.args[skip])};{a};{kw})"
                return f"T({name};{self.sk(n.args[skip])};{a})"
            if isinstance(f, ast.Name) and f.id in ("str_join", "markup_join") and len(n.args) == 1 and isinstance(n.args[0], ast.Tuple):
                return "O(concat;" + ",".join(self.sk(e) for e in n.args[0].elts) + ")"
            if isinstance(f, ast.Name) and not TVAR.match(f.id):
                return f"ENGINECALL({f.id};" + ",".join(self.sk(a) for a in n.args) + ")"
            return f"DIRECTCALL({self.sk(f)};" + ",".join(self.sk(a) for a in n.args) + ")"
        if isinstance(n, ast.Subscript):
            if isinstance(n.slice, ast.Slice):
                s = n.slice
                return f"SL({self.sk(n.value)},{self.opt(s.lower)},{self.opt(s.upper)},{self.opt(s.step)})"
            return f"RAWSUB({self.sk(n.value)},{self.sk(n.slice)})"
        if isinstance(n, ast.Attribute):
            return f"RAWATTR({self.sk(n.value)},{n.attr})"
        if isinstance(n, ast.BinOp) and isinstance(n.op, ast.Add):
            return f"O(add;{self.sk(n.left)},{self.sk(n.right)})"
        if isinstance(n, ast.UnaryOp) and isinstance(n.op, ast.Not):
            return f"O(not;{self.sk(n.operand)})"
        if isinstance(n, ast.BoolOp):
            return f"O({'and' if isinstance(n.op, ast.And) else 'or'};" + ",".join(self.sk(v) for v in n.values) + ")"
        if isinstance(n, ast.Compare) and len(n.ops) == 1 and isinstance(n.ops[0], ast.Eq):
            return f"O(cmp;{self.sk(n.left)},{self.sk(n.comparators[0])})"
        if isinstance(n, ast.List):
            return "O(list;" + ",".join(self.sk(e) for e in n.elts) + ")"
        if isinstance(n, ast.Tuple):
            return "O(tuple;" + ",".join(self.sk(e) for e in n.elts) + ")"
        if isinstance(n, ast.Dict):
            return "O(dict;" + ",".join(f"{self.sk(k)},{self.sk(v)}" for k, v in zip(n.keys, n.values)) + ")"
        return f"UNKNOWN({type(n).__name__})"


def filter_names(tree):
    """t_<n> = environment.filters['name'] / environment.tests['name'] assignments of the prologue"""
    out = {}
    for n in ast.walk(tree):
        if isinstance(n, ast.Assign) and len(n.targets) == 1 and isinstance(n.targets[0], ast.Name) \
                and isinstance(n.value, ast.Subscript) and isinstance(n.value.value, ast.Attribute) \
                and isinstance(n.value.value.value, ast.Name) and n.value.value.value.id == "environment" \
                and n.value.value.attr in ("filters", "tests") and isinstance(n.value.slice, ast.Constant):
            out[n.targets[0].id] = ("F" if n.value.value.attr == "filters" else "T", n.value.slice.value)
    return out


def real_skeleton(env, expr_src):
    """compile {% set r = EXPR %} with the real compiler and return the skeleton of EXPR"""
    code = env.compile("{% set r = " + expr_src + " %}", raw=True)
    tree = ast.parse(code)
    sk = Skel(filter_names(tree))
    for n in ast.walk(tree):
        if isinstance(n, ast.Assign) and len(n.targets) == 1 and isinstance(n.targets[0], ast.Name) \
                and n.targets[0].id == "l_0_r" and not (isinstance(n.value, ast.Name) and n.value.id == "missing"):
            return sk.sk(n.value), code
    return "NO-ASSIGNMENT", code


# ------------------------------------------------------------------ structural scan of generated code
# calls whose result is an engine object (a Template / module / context), not a template value
ENGINE_RESULT_CALLS = {
    ("environment", "get_template"), ("environment", "select_template"), ("environment", "get_or_select_template"),
    ("template", "new_context"), ("context", "get_all"), ("context", "derived"), ("context", "super"),
    ("context", "get_exported"),
}


def engine_rooted(n):
    if isinstance(n, ast.Name):
        return not TVAR.match(n.id)
    if isinstance(n, (ast.Attribute, ast.Subscript)):
        return engine_rooted(n.value)
    if isinstance(n, ast.Call) and isinstance(n.func, ast.Attribute) and isinstance(n.func.value, ast.Name) \
            and (n.func.value.id, n.func.attr) in ENGINE_RESULT_CALLS:
        return True
    if isinstance(n, ast.Await):
        return engine_rooted(n.value)
    if isinstance(n, ast.IfExp):      # (Markup if context.eval_ctx.autoescape else identity)(...)
        return engine_rooted(n.body) and engine_rooted(n.orelse)
    if isinstance(n, ast.Lambda):
        # an immediately applied lambda written by the compiler, e.g. (lambda rv: escape(rv) if ... else rv)(<value>)
        # (a9b4b34): engine code as long as its body does not look into, subscript or call its own parameters
        # (the walk of scan_generated still visits the body and the arguments)
        params = {a.arg for a in n.args.posonlyargs + n.args.args + n.args.kwonlyargs}
        for sub in ast.walk(n.body):
            if isinstance(sub, (ast.Attribute, ast.Subscript)) and isinstance(sub.value, ast.Name) and sub.value.id in params:
                return False
            if isinstance(sub, ast.Call) and isinstance(sub.func, ast.Name) and sub.func.id in params:
                return False
        return True
    return False


def scan_generated(code, sandboxed=True):
    """returns (problems, counts): problems = raw attribute / non-slice subscript loads whose base is a
    template value, calls whose callee is a template value, context.call in sandboxed code;
    counts = number of environment.getattr / getitem / call gates"""
    tree = ast.parse(code)
    problems = []
    counts = {"getattr": 0, "getitem": 0, "call": 0, "ctxcall": 0}
    for n in ast.walk(tree):
        if isinstance(n, ast.Attribute) and isinstance(n.ctx, ast.Load) and not engine_rooted(n.value):
            problems.append(("raw-attribute", n.lineno, ast.unparse(n)[:80]))
        elif isinstance(n, ast.Subscript) and isinstance(n.ctx, ast.Load) and not isinstance(n.slice, ast.Slice) \
                and not engine_rooted(n.value):
            problems.append(("raw-subscript", n.lineno, ast.unparse(n)[:80]))
        elif isinstance(n, ast.Call):
            f = n.func
            if isinstance(f, ast.Attribute) and isinstance(f.value, ast.Name) and f.value.id == "environment" \
                    and f.attr in ("getattr", "getitem", "call"):
                counts[f.attr] += 1
                if f.attr == "call" and not (n.args and isinstance(n.args[0], ast.Name) and n.args[0].id == "context"):
                    problems.append(("env-call-without-context", n.lineno, ast.unparse(n)[:80]))
            elif isinstance(f, ast.Attribute) and isinstance(f.value, ast.Name) and f.value.id == "context" and f.attr == "call":
                counts["ctxcall"] += 1
                if sandboxed:
                    problems.append(("context.call-in-sandboxed-code", n.lineno, ast.unparse(n)[:80]))
            elif not engine_rooted(f):
                problems.append(("direct-call-of-template-value", n.lineno, ast.unparse(n)[:80]))
            elif isinstance(f, ast.Name) and f.id == "getattr" and n.args and not engine_rooted(n.args[0]):
                problems.append(("builtin-getattr-on-template-value", n.lineno, ast.unparse(n)[:80]))
            elif isinstance(f, ast.Name) and f.id == "getattr" and len(n.args) >= 2 and isinstance(n.args[1], ast.Constant) \
                    and isinstance(n.args[1].value, str) and n.args[1].value.startswith("_"):
                # from-import reads module attributes with the builtin getattr: never an underscore name
                problems.append(("builtin-getattr-of-underscore-name", n.lineno, ast.unparse(n)[:80]))
    problems += unguarded_stores(code)
    return problems, counts


def unguarded_stores(code):
    """subscript stores `l_N_x[...] = ...` on a template value that are not preceded, in the same function, by
    `if not isinstance(l_N_x, Namespace): raise ...` (the guard visit_Assign emits for attribute-style targets)"""
    tree = ast.parse(code)
    problems = []
    for fn in ast.walk(tree):
        if not isinstance(fn, (ast.FunctionDef, ast.AsyncFunctionDef)):
            continue
        guarded_at = {}      # name -> first line of a guard
        stores = []
        for n in ast.walk(fn):
            if isinstance(n, ast.If) and isinstance(n.test, ast.UnaryOp) and isinstance(n.test.op, ast.Not) \
                    and isinstance(n.test.operand, ast.Call) and isinstance(n.test.operand.func, ast.Name) \
                    and n.test.operand.func.id == "isinstance" and len(n.test.operand.args) == 2 \
                    and isinstance(n.test.operand.args[0], ast.Name) and isinstance(n.test.operand.args[1], ast.Name) \
                    and n.test.operand.args[1].id == "Namespace" and n.body and isinstance(n.body[0], ast.Raise):
                name = n.test.operand.args[0].id
                guarded_at[name] = min(guarded_at.get(name, n.lineno), n.lineno)
            if isinstance(n, ast.Subscript) and isinstance(n.ctx, (ast.Store, ast.Del)) and isinstance(n.value, ast.Name) \
                    and TVAR.match(n.value.id):
                stores.append((n.value.id, n.lineno, ast.unparse(n)[:60]))
        for name, line, text in stores:
            if name not in guarded_at or guarded_at[name] > line:
                problems.append(("unguarded-subscript-store", line, text))
    return problems


# ------------------------------------------------------------------ template generator (statement positions)
class SGen:
    """templates that put generated expressions in every statement position the compiler visits"""

    def __init__(self, rng, depth=3, attrs=None):
        self.r = rng
        self.e = EGen(rng, attrs)
        self.depth = depth
        self.n = 0

    def ex(self):
        return self.e.expr(self.r.randint(1, self.depth))[0]

    def stmt(self, d):
        r = self.r
        k = r.randint(0, 13) if d > 0 else r.randint(0, 2)
        self.n += 1
        i = self.n
        if k == 0:
            return "{{ " + self.ex() + " }}"
        if k == 1:
            if r.random() < 0.3:
                tgt = r.choice(NAMES) + "." + r.choice(["a", "_p", "foo"])
                return ("{% set " + tgt + " = " + self.ex() + " %}") if r.random() < 0.5 else ("{% set " + tgt + " %}" + "{{ " + self.ex() + " }}{% endset %}")
            return "{% set v" + str(i) + " = " + self.ex() + " %}"
        if k == 2:
            return "text{{ " + self.ex() + " }}{{ " + self.ex() + " }}"
        body = "".join(self.stmt(d - 1) for _ in range(r.randint(1, 2)))
        if k == 3:
            return "{% for i" + str(i) + " in " + self.ex() + " %}" + body + "{% else %}" + self.stmt(d - 1) + "{% endfor %}"
        if k == 4:
            return "{% for i" + str(i) + " in " + self.ex() + " if " + self.ex() + " %}" + body + "{{ loop.index }}{% endfor %}"
        if k == 5:
            return "{% if " + self.ex() + " %}" + body + "{% elif " + self.ex() + " %}" + self.stmt(d - 1) + "{% else %}x{% endif %}"
        if k == 6:
            return ("{% macro m" + str(i) + "(p, q=" + self.ex() + ", r=" + self.ex() + ") %}" + body + "{{ p }}{{ caller() if caller else '' }}"
                    "{% endmacro %}{{ m" + str(i) + "(" + self.ex() + ") }}")
        if k == 7:
            return ("{% macro c" + str(i) + "() %}{{ caller(" + self.ex() + ") }}{% endmacro %}{% call(u=" + self.ex() + ") c" + str(i) + "() %}"
                    + body + "{{ u }}{% endcall %}")
        if k == 8:
            return "{% filter upper %}" + body + "{% endfilter %}"
        if k == 9:
            return "{% with w" + str(i) + " = " + self.ex() + ", z" + str(i) + " = " + self.ex() + " %}" + body + "{% endwith %}"
        if k == 10:
            # a name inside the filter arguments of a set block trips an assertion of the compiler
            # ("Tried to resolve a name to a reference that was unknown to the frame"): constants only
            return "{% set b" + str(i) + " | replace('a', 'b') %}" + body + "{% endset %}"
        if k == 11:
            return "{% for i" + str(i) + " in " + self.ex() + " recursive %}" + body + "{{ loop(" + self.ex() + ") }}{% endfor %}"
        if k == 12:
            return "{% block blk" + str(i) + " %}" + body + "{% endblock %}"
        if k == 13 and r.random() < 0.5:
            n = r.choice(["pub", "hello", "_priv", "__class__", "__dict__", "_body_stream", "__module__"])
            return ("{% from " + self.ex() + " import " + n + " as im" + str(i) + (", pub" if r.random() < 0.5 else "")
                    + (" with context" if r.random() < 0.5 else "") + " %}{{ im" + str(i) + " }}")
        return "{% include " + self.ex() + " ignore missing %}"

    def template(self):
        return "".join(self.stmt(2) for _ in range(self.r.randint(1, 4)))
