"""Configurations and histories for the C03 / C32 streams (round 7).

The scoping rules do not depend on how the environment is configured, and a render leaves nothing behind
that a later render can see.  `Configs.render(name, src, mk)` renders a template source under one named
configuration and returns an observation comparable with the default configuration's
(scope_ref.real_render2); `history(...)` renders ONE Template object several times with other data in
between and compares with a fresh environment.
"""
from __future__ import annotations

import asyncio
import html
import re

from . import scope_ref as R

EXTS = ["jinja2.ext.loopcontrols"]

# every axis of the Environment that leaves the template language's meaning alone
NAMES = ["async", "sandbox", "immutable", "async_sandbox", "unoptimized", "autoescape", "autoescape_select",
         "delims", "linestmt", "template_ctor", "overlay", "loader_bccache", "trim_lstrip", "keep_nl", "cache0"]
EXCLUDED = {
    "native": "NativeEnvironment replaces the text concatenation by literal evaluation: the observable of C03 "
              "(rendered text) is a different function there",
    "undefined classes": "StrictUndefined / ChainableUndefined change what reading an unbound name does by design; "
                         "the statement is about the default Undefined",
}


def _ns_class():
    from jinja2.utils import Namespace

    class NS(Namespace):
        def __repr__(self):
            return "<Namespace>"
    return NS


def prep(env):
    env.globals.clear()
    env.globals["namespace"] = _ns_class()
    return env


def delims_src(src):
    return src.replace("{%", "<%").replace("%}", "%>").replace("{{", "${").replace("}}", "}$")


def linestmt_src(src):
    """every block tag becomes a line statement.  No text may be added: a block set would capture it and a loop
    could walk over it.  A line statement swallows its own newline; the newline needed before one that follows an
    expression is removed by that expression's `-}}`."""
    out = ""
    for tok in re.split(r"(\{% .*? %\})", src):
        if tok.startswith("{% "):
            if out and not out.endswith("\n"):
                out += "\n"
            out += "# " + tok[3:-3] + "\n"
        else:
            out += tok.replace(" }}", " -}}")
    return out


class _DictBC:
    """a bytecode cache kept in a dict (BytecodeCache subclass created lazily)"""


class Configs:
    def __init__(self, jinja2):
        self.j = jinja2
        self.envs = {}
        self.n = 0

    def env(self, name):
        if name in self.envs:
            return self.envs[name]
        j = self.j
        from jinja2.sandbox import SandboxedEnvironment, ImmutableSandboxedEnvironment
        kw = dict(extensions=EXTS)
        if name == "async":
            e = j.Environment(enable_async=True, **kw)
        elif name == "sandbox":
            e = SandboxedEnvironment(**kw)
        elif name == "immutable":
            e = ImmutableSandboxedEnvironment(**kw)
        elif name == "async_sandbox":
            e = SandboxedEnvironment(enable_async=True, **kw)
        elif name == "unoptimized":
            e = j.Environment(optimized=False, **kw)
        elif name == "autoescape":
            e = j.Environment(autoescape=True, **kw)
        elif name == "autoescape_select":
            e = j.Environment(autoescape=j.select_autoescape(default_for_string=True), **kw)
        elif name == "delims":
            e = j.Environment(block_start_string="<%", block_end_string="%>", variable_start_string="${",
                              variable_end_string="}$", comment_start_string="<#", comment_end_string="#>", **kw)
        elif name == "linestmt":
            e = j.Environment(line_statement_prefix="#", **kw)
        elif name == "trim_lstrip":
            e = j.Environment(trim_blocks=True, lstrip_blocks=True, **kw)
        elif name == "keep_nl":
            e = j.Environment(keep_trailing_newline=True, newline_sequence="\n", **kw)
        elif name == "cache0":
            e = j.Environment(cache_size=0, auto_reload=False, **kw)
        elif name == "overlay":
            base = prep(j.Environment(**kw))
            e = base.overlay(optimized=False, cache_size=5)
            self.envs[name] = e
            return e
        elif name == "loader_bccache":
            from jinja2.bccache import BytecodeCache

            class DictBC(BytecodeCache):
                def __init__(self):
                    self.store = {}

                def load_bytecode(self, bucket):
                    if bucket.key in self.store:
                        bucket.bytecode_from_string(self.store[bucket.key])

                def dump_bytecode(self, bucket):
                    self.store[bucket.key] = bucket.bytecode_to_string()

            self.templates = {}
            e = j.Environment(loader=j.DictLoader(self.templates), bytecode_cache=DictBC(), cache_size=3, **kw)
        else:
            raise ValueError(name)
        self.envs[name] = prep(e)
        return e

    def template(self, name, src):
        j = self.j
        if name == "template_ctor":
            t = j.Template(src, extensions=EXTS)
            t.globals = dict(t.globals)
            t.globals["namespace"] = _ns_class()
            return t
        e = self.env(name)
        if name == "delims":
            return e.from_string(delims_src(src))
        if name == "linestmt":
            return e.from_string(linestmt_src(src))
        if name == "loader_bccache":
            self.n += 1
            key = f"t{self.n}"
            self.templates[key] = src
            e.get_template(key)             # compiles and stores the bytecode
            e.cache.clear()
            return e.get_template(key)      # loads the stored bytecode
        return e.from_string(src)

    def render(self, name, src, mk):
        """observation under configuration `name`, mapped back to the default configuration's terms"""
        is_async = name.startswith("async")
        try:
            t = self.template(name, src)
        except RecursionError:
            return ("compile", "RecursionError")
        except Exception as e:  # noqa
            return ("compile", type(e).__name__ + ": " + str(e)[:80])
        try:
            text = asyncio.run(t.render_async(**mk())) if is_async else t.render(**mk())
        except Exception as e:  # noqa
            n = type(e).__name__
            if n == "SecurityError":
                return ("skip", "SecurityError")
            return ("err", "Fuel" if n == "RecursionError" else n)
        try:
            mod = asyncio.run(t.make_module_async(mk())) if is_async else t.make_module(mk())
            ex = tuple(sorted((k, v) for k, v in mod.__dict__.items() if not k.startswith("_")))
        except Exception as e:  # noqa
            return ("err", "module:" + type(e).__name__)
        return self.back(name, text, ex)

    @staticmethod
    def back(name, text, ex):
        if name.startswith("autoescape"):
            text = html.unescape(text)
            plain = lambda v: type(v) is str or type(v).__name__ == "Markup"      # noqa
            return ("ok", text, tuple((k, "'" + html.unescape(str(v)) + "'" if plain(v) else R.canon2(v)) for k, v in ex))
        if name == "linestmt":
            text = text.replace("\n", "")
            ex = tuple((k, type(v)(str(v).replace("\n", "")) if type(v) is str else v) for k, v in ex)
        return ("ok", text, tuple((k, R.canon2(v)) for k, v in ex))


def comparable(name, base, src=""):
    """the default configuration's observation in the terms `Configs.back` uses for `name` (None: this
    configuration cannot be compared on this observation)"""
    if base[0] != "ok":
        return base
    if name.startswith("autoescape"):
        blob = base[1] + "".join(v for _, v in base[2])
        inner = "".join(v[1:-1] for _, v in base[2] if v[:1] == "'")
        if any(c in blob for c in "<>&\"") or "Markup(" in blob or "'" in base[1] + inner or "replace(''" in src:
            return None       # values whose text needs escaping: escaping is C15 / C16's subject
        return base
    if name == "linestmt" and ("\n" in base[1] or "replace(''" in src):
        return None       # the added newlines would be spread by replace('', ..)
    if name == "template_ctor" and "<Namespace" in base[1] + "".join(v for _, v in base[2]):
        return None
    return base


def history(jinja2, env, rng, items, fresh_env):
    """ONE environment, a sequence of operations on a few of its templates (render, make_module, the cached
    .module, other templates and other data in between); every observation must be the one a fresh
    environment gives for the same (template, data).  items: [(src, [mk, ...])].
    yields (description, got, want)"""
    ts = []
    for src, mks in items:
        try:
            ts.append((env.from_string(src), src, mks))
        except Exception:  # noqa
            continue
    if not ts:
        return
    for step in range(rng.randint(4, 9)):
        t, src, mks = rng.choice(ts)
        mk = rng.choice(mks)
        op = rng.choice(["render", "render", "module", "cached_module", "generate"])
        f = fresh_env()
        try:
            ft = f.from_string(src)
        except Exception:  # noqa
            continue
        yield (op, src, _op(op, t, mk), _op(op, ft, mk))


def _op(op, t, mk):
    try:
        if op == "render":
            return ("ok", t.render(**mk()))
        if op == "generate":
            return ("ok", "".join(t.generate(**mk())))
        if op == "module":
            m = t.make_module(mk())
            return ("ok", str(m), tuple(sorted((k, R.canon2(v)) for k, v in m.__dict__.items() if not k.startswith("_"))))
        m = t.module
        return ("ok", str(m), tuple(sorted((k, R.canon2(v)) for k, v in m.__dict__.items() if not k.startswith("_"))))
    except Exception as e:  # noqa
        n = type(e).__name__
        return ("err", "Fuel" if n == "RecursionError" else n)
