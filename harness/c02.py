"""C02 — compiled expressions evaluate as the documented expression semantics.

proof : Properties/C02.v  (compile_expr_correct, getattr_prefers_attr, getitem_prefers_item,
        missing_is_undefined, parse_unparse_partial, compile_expression_correct)
ties  : K-parse  model parser over the real token stream == Environment.parse (canonical tuple dump),
                 on exhaustive operator pairs / triples and on the model's own minimal-parenthesis
                 printer applied to generated trees
        K-gen    printed gen_opt(e) == the expression in Environment.compile('{{ e }}', raw=True)
                 (python ast dump after normalisation), default / async / sandboxed / optimized=False
        K-eval   extracted py_eval(gen_opt e) and ExprSpec.eval == compile_expression(src)(**data)
                 and == the text of '{{ e }}', same four environments, incl. call logs
oracle: real value == ExprSpec.eval (error classes mapped to a small enum)
"""
import random

from . import lib
from . import expr_common as X
from . import expr_parse as XP
from . import expr_ref as XR
from . import expr_filters as XF

RULE = ("type-directed random expression trees (depth <= 4 quick / 6 thorough) over a value pool with ints, strings, "
        "Markup, lists, tuples, dicts, None, undefined names, opaque callables and probe objects having an attribute AND "
        "an item of the same name; each evaluated under default / async / sandboxed (all 9 operators intercepted, default "
        "hooks) / optimized=False environments; plus exhaustive operator pairs and triples for precedence. distinct = "
        "(source text, data) ; non-trivial = the model gives a value or a modelled error class (not 'opaque') and the "
        "expression has >= 3 nodes kinds or an attribute/subscript access. History stream (oracle only): pairs and random "
        "sequences of filter expressions whose arguments are ==-equal but differently typed (0/false/0.0, 1/true/1.0, ''/Markup ...) "
        "evaluated in ONE Environment, each compared with its value in a fresh environment. Reference stream (oracle only): random expressions "
        "(incl. *args/**kwargs calls, float constants) over real Python values (float / bool / int of equal value, a str subclass overriding "
        "__str__/__eq__/__hash__, tuple vs list, Mapping / MappingProxy / OrderedDict / defaultdict vs dict, generator, iterator, range, __iter__-only, "
        "__getitem__-only, objects whose attribute or item protocol raises caught and uncaught classes, raising properties, objects falsy by "
        "__bool__ / __len__) compared with an independent Python interpreter of the documented semantics, under 9 environment kinds (plain, "
        "overlay, sandboxed, immutable sandboxed, optimized=False, async, native, Template(...) constructor, autoescape) x 5 undefined classes "
        "(Undefined, Strict, Chainable, Debug, a user subclass) x entry points compile_expression(undefined_to_none False / default), module "
        "variable of {% set %}, render / render_async, generate / generate_async, and one compiled expression called three times with different data. "
        "Filter-environment stream (oracle only): ~130 invocation shapes of the builtin filters and tests (every filter with an async implementation, keyword and positional "
        "arguments, generators as input) x ==-equal differently typed argument values, each evaluated in plain / async / sandboxed / async sandboxed / immutable / "
        "optimized=False / async unoptimized / overlay / native environments: all nine must agree. Axis stream: EVERY name of the reference data pool "
        "(incl. an object whose __getattr__ answers every name, a dot-dict record) x 60 consumers (iterating filters, attribute, subscript, slice, call, "
        "argument, * and ** argument, tests, containment, truth, string conversion, arithmetic, comparison, collection member) under the async "
        "environment and one more kind in rotation, against the reference evaluator. Filter-reference stream: 24 builtin filters with optional arguments "
        "against independent statements of their documented behaviour, every optional argument absent / None / every falsy-but-not-None value / truthy, "
        "keyword and positional, literal (foldable) and in a variable, in plain / async / sandboxed / optimized=False / async sandboxed environments.")

MODES = ["default", "async", "sandbox", "noopt"]


def judge_case(ctx, e, data_seed, where, quick_modes=MODES):
    """run one expression under the environments; returns nothing, reports through ctx"""
    import random
    src = X.to_src(e)
    tsrc = "{{ " + src + " }}"
    sx = X.enc_expr(e)
    lines = []
    datas = {}
    for mode in quick_modes:
        log = []
        data = X.make_data(random.Random(data_seed), log)
        datas[mode] = (data, log)
        cfg = X.model_cfg(mode)
        lines.append(f"eval {cfg} {sx} {X.enc_env(data)}")
        lines.append(f"gen {cfg} {sx}")
        lines.append(f"fold {cfg} {sx}")
    return src, tsrc, lines, datas


def compare_case(ctx, e, src, tsrc, outs, datas, data_seed, modes=MODES):
    kinds = X.kinds(e)
    for i, mode in enumerate(modes):
        ev, gen, fold = outs[3 * i], outs[3 * i + 1], outs[3 * i + 2]
        if ev.startswith("BAD") or gen.startswith("BAD"):
            raise RuntimeError("driver rejected case: " + ev + " / " + gen + " :: " + src)
        f = X.split_fields(ev)
        spec, py = X.canon_res(f["S"]), X.canon_res(f["P"])
        case = {"kind": "eval", "expr": src, "mode": mode, "data_seed": data_seed, "tree": repr(e)}
        env = X.real_env(mode)
        data, log = datas[mode]
        opaque = spec == ("err", "opaque")
        nontriv = (not opaque) and (len(kinds) >= 3 or bool(kinds & {".", "[]"}))
        ctx.case(sample={"expr": src, "mode": mode, "spec": f["S"], "render": f["ST"]} if nontriv and len(src) > 30 else None,
                 key=(src, data_seed) if nontriv else None)
        ctx.count("eval_" + mode + ("_opaque" if opaque else "_" + spec[0]))
        if spec != py or f["SL"] != f["PL"]:
            # the extracted code contradicts compile_expr_correct: the proof file and the model are out of sync
            ctx.model_mismatch("theorem compile_expr_correct vs extracted model", case, f["S"] + " / " + f["SL"], f["P"] + " / " + f["PL"], None)
            continue
        if opaque:
            continue
        ok = True
        # ---- value through compile_expression (every environment; in async mode the sync call drives the async render function)
        if True:
            del log[:]
            real = X.real_value(env, src, data)
            rlog = X.canon_real_log(log)
            if real != spec:
                ok = False
                ctx.reject(dict(case, spec=f["S"], real=repr(real)),
                           f"compile_expression value differs from the documented semantics: spec {spec!r} real {real!r}",
                           "C02:value:" + src)
            elif rlog != [ev for ev in X.canon_log(f["SL"]) if ev[0] == "call"]:
                ok = False
                ctx.reject(dict(case, spec_log=f["SL"], real_log=repr(rlog)), "calls made differ from the documented evaluation order",
                           "C02:calls:" + src)
        # ---- rendered text of {{ e }}
        st = X.canon_text(f["ST"])
        if st != ("err", "opaque"):
            del log[:]
            rr = X.real_render(env, tsrc, data)
            if rr != st:
                ok = False
                ctx.reject(dict(case, spec_text=repr(st), real_text=repr(rr)),
                           f"rendered text of {{{{ e }}}} differs: spec {st!r} real {rr!r}", "C02:render:" + src)
        # ---- K-gen: emitted python
        if fold.endswith("O 0") and "(F " not in fold:
            real_code = X.real_output_code(env, tsrc)
            if gen.startswith("C "):
                m = ("C", X.canon_text("ok " + gen[2:])[1])
            else:
                try:
                    m = ("X", X.norm_py(gen[2:]))
                except SyntaxError as ex:
                    m = ("E", "model text does not parse: " + str(ex))
            if real_code != m:
                if real_code[0] == "E" and real_code[1].startswith("nofilter"):
                    pass
                elif X.constant_text_agrees(fold, gen, real_code):
                    ctx.count("constant_text_by_display")      # the model cannot print this constant; same text through its display
                else:
                    ok = False
                    ctx.model_mismatch("K-gen emitted expression (" + mode + ")", dict(case, kind="gen"), repr(m)[:600], repr(real_code)[:600], None)
        if ok:
            ctx.validated()


# ---------------------------------------------------------------- histories inside one Environment
# (oracle only, outside the Coq model: the value of an expression must not depend on what the same
#  Environment evaluated before; arguments that are ==-equal but of different type are the sharp case)
EQ_CLASSES = {"zero": ["0", "false", "0.0"], "one": ["1", "true", "1.0"], "two": ["2", "2.0"], "empty": ['""', '""|safe'],
              "neg": ["-1", "-1.0"], "none": ["none", "u0"]}
HIST_TEMPLATES = [
    'rows|map(attribute="a", default=@)|list', 'rows|map(attribute="c", default=@)|list', 'rows|map(attribute="a", default=@)|first',
    'rows|sum(attribute="a", start=@)', 'rows|groupby("a", default=@)|map(attribute="grouper")|list', 'rows|groupby("c", default=@)|first|first',
    'objs|map(attribute="v", default=@)|list', 'lol|map(attribute=@)|list', 'lol|sum(attribute=@)', 'lol|max(attribute=@)', 'lol|sort(attribute=@)|first',
    'lol|unique(attribute=@)|list|length', 'lol|join(",", attribute=@)', 'lol|selectattr(@)|list|length', 'u0|default(@)', 'n0|default(@, true)',
    '[1, 2, 3]|batch(2, @)|list', '[1, 2, 3]|slice(2, @)|list', '[@, 5]|first', '[5, @]|sum', '[@]|sum(start=@)', '@|string', '[@, @]|unique|list',
    '{"k": @}|dictsort', '(@, 1)|max', '3.14159|round(@)', '"abcdef"|truncate(5, @)', '[3, 1]|sort(reverse=@)', '"a b"|wordcount + @', '@ is sameas false',
    '@ is number', '@ is boolean', '@ in [0, 1]', '{@: "x"}[@]', '[10, 20, 30][@]',
]


def hist_data():
    return {"rows": [{"a": 1, "b": "x"}, {"b": "y"}, {"a": 0}], "objs": [X.Obj(7, {"v": 1}, []), X.Obj(8, {}, [])],
            "lol": [[0, 5], [1, 4], [0, 3]], "n0": None}


def run_history(ctx):
    import jinja2
    from jinja2.sandbox import SandboxedEnvironment

    def fresh(kind):
        env = {"default": jinja2.Environment, "sandbox": SandboxedEnvironment, "noopt": lambda: jinja2.Environment(optimized=False)}[kind]()
        return env

    def ev(env, src):
        return X.real_value(env, src, hist_data())

    plans = []
    for cname, vals in EQ_CLASSES.items():
        for t in HIST_TEMPLATES:
            for d1 in vals:
                for d2 in vals:
                    if d1 != d2:
                        plans.append([t.replace("@", d1), t.replace("@", d2)])
    allv = [v for vals in EQ_CLASSES.values() for v in vals]
    for _ in range(ctx.size(150, 3000)):
        plans.append([ctx.rng.choice(HIST_TEMPLATES).replace("@", ctx.rng.choice(allv)) for _ in range(ctx.rng.randint(3, 7))])
    for i, plan in enumerate(plans):
        kind = ("default", "sandbox", "noopt")[i % 3]
        shared = fresh(kind)
        got = [ev(shared, src) for src in plan]
        ok = True
        for j, src in enumerate(plan):
            if j == 0:
                continue
            alone = ev(fresh(kind), src)
            if alone != got[j]:
                ok = False
                ctx.reject({"kind": "history", "env": kind, "history": plan[:j + 1], "alone": repr(alone), "after_history": repr(got[j])},
                           f"{src!r} evaluates to {alone!r} in a fresh environment but to {got[j]!r} after {plan[:j]!r} in the same environment",
                           "C02:history:" + plan[j - 1] + " -> " + src)
                break
        ctx.case(sample={"history": plan, "values": [repr(g)[:60] for g in got]} if i % 97 == 0 else None, key=("history", tuple(plan)))
        ctx.count("history_" + kind)
        if ok:
            ctx.validated()


# ---------------------------------------------------------------- one semantics in every environment kind (oracle only)
# (builtin filters and tests beyond the modelled table: the documented value does not depend on the environment kind --
#  several filters have a second, async implementation, the sandbox wraps calls, the optimizer may evaluate them early)
FILTER_POOL = HIST_TEMPLATES + [
    'rows|groupby("a")|list', 'rows|groupby("b")|map(attribute="list")|list', 'rows|groupby("c", default=@)|list', 'rows|groupby("a", @)|list', 'rows|groupby("b", case_sensitive=@)|list',
    'rows|groupby("b", default=@, case_sensitive=true)|list', 'words|groupby(0)|list', 'words|groupby(0, case_sensitive=@)|map("first")|list', 'lol|map("first")|list', 'lol|map("sum")|list',
    'lol|map("join", @)|list', 'rows|map(attribute="b")|join(@)', 'rows|selectattr("a")|list', 'rows|rejectattr("a")|list', 'rows|selectattr("a", "eq", @)|list', 'rows|rejectattr("b", "in", ["x", @])|list',
    '[0, 1, 2]|select("odd")|list', '[0, 1, 2]|reject("eq", @)|list', '[0, 1, 2]|select|list', 'lol|sum(start=[])', 'rows|sum(attribute="a", start=@)|string', '[1, 2, 3]|slice(2)|map("list")|list',
    '[1, 2, 3]|slice(2, @)|map("list")|list', '[1, 2, 3]|batch(2, @)|map("list")|list', 'rows|first', 'rows|last', 'gen|first', 'gen|list', 'gen|join(@)', 'gen|map("string")|list', 'gen|select("odd")|list',
    'gen|sum(start=@)', 'gen|slice(2)|map("list")|list', 'gen|groupby(0)|list|length', 'words|unique(case_sensitive=@)|list', 'words|sort(case_sensitive=@)', 'words|min(case_sensitive=@)', 'words|max(case_sensitive=@)',
    'rows|sort(attribute="b", reverse=@)|map(attribute="b")|list', 'd|dictsort(case_sensitive=@)', 'd|dictsort(by="value", reverse=@)', 'd|items|list', 'words|join(@)|upper', 'words|reverse|list', 'words|random is string',
    'words|length + @|int', '@|int(5)', '@|float(2.5)', '@|abs', '@|string|length', '@|list', '@|default("d", true)', '@ is divisibleby(2)', '@ is in([0, 1, ""])', '@ is sameas(0)', '@|tojson', '@|e', '"%s"|format(@)',
    '"a b c"|replace("b", @|string)', '"abc"|center(@|int + 7)', '"a,b"|indent(@|int, true)', '3.7|round(@|int, "floor")', '[@, 1, 2]|min', '[@, 1, 2]|max', '[@, "x"]|join("-")', '"x"|truncate(9, @, "..")',
    '"hello world"|wordwrap(@|int + 5)', '"<a>"|striptags ~ @', '"a"|filesizeformat if false else @', '12345|filesizeformat(@)', 'rows|attr("b") is defined', 'rows|tojson(indent=@|int)', 'words|xmlattr if false else @',
    '{"a": @}|xmlattr', '{"a": @}|urlencode', '"a b"|urlencode ~ @', '"http://x.y a"|urlize(@|int + 3)', '"a"|title ~ @', '"a b"|capitalize ~ @', '" a "|trim(@|string)', '[1, [2, @]]|pprint', 'range(@|int + 3)|list',
]


def run_filter_envs(ctx):
    import jinja2
    from jinja2.nativetypes import NativeEnvironment
    from jinja2.sandbox import ImmutableSandboxedEnvironment, SandboxedEnvironment
    kinds = {"plain": lambda: jinja2.Environment(), "async": lambda: jinja2.Environment(enable_async=True), "sandbox": lambda: SandboxedEnvironment(),
             "async-sandbox": lambda: SandboxedEnvironment(enable_async=True), "immutable": lambda: ImmutableSandboxedEnvironment(), "noopt": lambda: jinja2.Environment(optimized=False),
             "overlay": lambda: jinja2.Environment().overlay(), "native": lambda: NativeEnvironment(), "async-noopt": lambda: jinja2.Environment(enable_async=True, optimized=False)}
    envs = {k: f() for k, f in kinds.items()}

    def data():
        return {"rows": [{"a": 1, "b": "x"}, {"b": "Y"}, {"a": 0, "b": "y"}], "objs": [X.Obj(7, {"v": 1}, []), X.Obj(8, {}, [])], "lol": [[0, 5], [1, 4], [0, 3]], "n0": None,
                "words": ["b", "a", "B", "a"], "d": {"b": 1, "A": 2, "a": 0}, "gen": (x for x in [3, 1, 2, 1])}

    def value(kind, src):
        env = envs[kind]
        try:
            t = env.from_string("{% set r = " + src + " %}")
            m = X.run_async(t.make_module_async(data())) if env.is_async else t.make_module(data())
            return ("ok", XR.canon(m.r))
        except Exception as ex:
            return ("err", type(ex).__name__)

    allv = [v for vals in EQ_CLASSES.values() for v in vals] + ['"a"', '"B"', "[1]", "2.5"]
    todo = [(t, v) for t in FILTER_POOL for v in (allv if "@" in t else [None])]
    if ctx.tier == "quick":
        todo = [tv for i, tv in enumerate(todo) if tv[0] not in HIST_TEMPLATES or i % 3 == 0]
    shown = {}
    for t, v in todo:
        src = t if v is None else t.replace("@", v)
        if "random" in src:
            random.seed(0)
        base = value("plain", src)
        ok = True
        for kind in kinds:
            if kind == "plain":
                continue
            if "random" in src:
                random.seed(0)
            got = value(kind, src)
            if got != base:
                ok = False
                if shown.get(kind, 0) < 3:
                    shown[kind] = shown.get(kind, 0) + 1
                    ctx.reject({"kind": "filter-envs", "expr": src, "env": kind, "plain": repr(base)[:300], "other": repr(got)[:300]},
                               f"{src} is {base!r:.250} in a plain environment but {got!r:.250} in the {kind} environment", "C02:filter-envs:" + kind + ":" + t)
        ctx.case(sample={"expr": src, "value": repr(base)[:80]} if base[0] == "ok" and len(ctx.samples) < 40 and hash(src) % 29 == 0 else None, key=("filter-envs", src) if base[0] == "ok" else None)
        ctx.count("filter_envs_" + base[0])
        if ok:
            ctx.validated()


def run(ctx):
    X.use_jinja()
    ctx.extra["rule"] = RULE
    ctx.assumptions += [
        "floats are an opaque carrier: results of true division are compared as nearest doubles, further float arithmetic is outside the model (counted as *_opaque)",
        "attributes of non-probe values (methods of str/list/dict ...) enter through the oracle builtin_attr; the generators use names that are not such attributes",
        "opaque callables are pure functions of their arguments (oracle call_fun); the harness uses recording probes",
        "printf-style %, sequence repetition beyond 4096 elements, ** beyond exponent 64, ordering of lists/tuples are outside the model (opaque)",
        "*args/**kwargs, keyword arguments of filters/tests, tuples of slices are outside the modelled syntax (K-parse reports them as unsupported, never generated)",
    ]
    ctx.proof("C02")

    # ---------------- K-parse
    XP.run_kparse(ctx)

    # ---------------- histories in one environment (oracle only)
    run_history(ctx)
    run_filter_envs(ctx)
    XF.run_filter_ref(ctx)

    # ---------------- reference evaluator over real Python values x environment kinds x undefined classes x entry points (oracle only)
    XR.run_ref_stream(ctx)
    XR.run_axis_stream(ctx)

    # ---------------- K-eval / K-gen / oracle
    depth = ctx.size(4, 6)
    n = ctx.size(1500, 32000)
    g = X.EGen(ctx.rng)
    cases = []
    for i in range(n):
        e = g.gen(ctx.rng.randint(1, depth))
        cases.append((e, ctx.rng.randrange(1 << 30)))
    for e, ds in XP.fixed_eval_cases():
        cases.append((e, ds))
    all_lines = []
    metas = []
    for e, ds in cases:
        src, tsrc, lines, datas = judge_case(ctx, e, ds, "gen")
        metas.append((e, src, tsrc, datas, ds, len(all_lines)))
        all_lines += lines
    outs = ctx.driver("expr", all_lines)
    for e, src, tsrc, datas, ds, off in metas:
        X.guarded(ctx, compare_case, ctx, e, src, tsrc, outs[off:off + 3 * len(MODES)], datas, ds)


def replay(ctx, data):
    X.use_jinja()
    case = data.get("case")
    if data.get("kind") != "failing-input" or case is None:
        print("replay: names a broken theorem/correspondence:", data.get("broken"))
        return run(ctx)
    if case.get("kind") == "parse":
        return XP.replay(ctx, case)
    if case.get("kind") == "ref":
        return XR.replay(ctx, case)
    e = eval(case["tree"], {"Markup": X._markup()})
    ds = case["data_seed"]
    modes = [case["mode"]]
    src, tsrc, lines, datas = judge_case(ctx, e, ds, "replay", modes)
    outs = ctx.driver("expr", lines)
    for ln in outs:
        print("model:", ln)
    compare_case(ctx, e, src, tsrc, outs, datas, ds, modes)
