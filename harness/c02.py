"""C02 — compiled expressions evaluate as the documented expression semantics.

proof : Properties/C02.v  (compile_expr_correct, getattr_prefers_attr, getitem_prefers_item,
        missing_is_undefined, parse_unparse_partial, compile_expression_correct)
ties  : K-parse  model parser over the real token stream == Environment.parse (canonical tuple dump),
                 on exhaustive operator pairs / triples and on the model's own minimal-parenthesis
                 printer applied to generated trees
        K-gen    printed gen_opt(e) == the expression in Environment.compile('{{ e }}', raw=True)
                 (python ast dump after normalisation), default / async / sandboxed / optimized=False
        K-eval   extracted py_eval(gen_opt e) and ExprSpec.eval == compile_expression(src)(**data)
                 and == the text of '{{ e }}', same four environments, incl. call logs
oracle: real value == ExprSpec.eval (error classes mapped to a small enum)
"""
from . import lib
from . import expr_common as X
from . import expr_parse as XP

RULE = ("type-directed random expression trees (depth <= 4 quick / 6 thorough) over a value pool with ints, strings, "
        "Markup, lists, tuples, dicts, None, undefined names, opaque callables and probe objects having an attribute AND "
        "an item of the same name; each evaluated under default / async / sandboxed (all 9 operators intercepted, default "
        "hooks) / optimized=False environments; plus exhaustive operator pairs and triples for precedence. distinct = "
        "(source text, data) ; non-trivial = the model gives a value or a modelled error class (not 'opaque') and the "
        "expression has >= 3 nodes kinds or an attribute/subscript access. History stream (oracle only): pairs and random "
        "sequences of filter expressions whose arguments are ==-equal but differently typed (0/false/0.0, 1/true/1.0, ''/Markup ...) "
        "evaluated in ONE Environment, each compared with its value in a fresh environment.")

MODES = ["default", "async", "sandbox", "noopt"]


def judge_case(ctx, e, data_seed, where, quick_modes=MODES):
    """run one expression under the environments; returns nothing, reports through ctx"""
    import random
    src = X.to_src(e)
    tsrc = "{{ " + src + " }}"
    sx = X.enc_expr(e)
    lines = []
    datas = {}
    for mode in quick_modes:
        log = []
        data = X.make_data(random.Random(data_seed), log)
        datas[mode] = (data, log)
        cfg = X.model_cfg(mode)
        lines.append(f"eval {cfg} {sx} {X.enc_env(data)}")
        lines.append(f"gen {cfg} {sx}")
        lines.append(f"fold {cfg} {sx}")
    return src, tsrc, lines, datas


def compare_case(ctx, e, src, tsrc, outs, datas, data_seed, modes=MODES):
    kinds = X.kinds(e)
    for i, mode in enumerate(modes):
        ev, gen, fold = outs[3 * i], outs[3 * i + 1], outs[3 * i + 2]
        if ev.startswith("BAD") or gen.startswith("BAD"):
            raise RuntimeError("driver rejected case: " + ev + " / " + gen + " :: " + src)
        f = X.split_fields(ev)
        spec, py = X.canon_res(f["S"]), X.canon_res(f["P"])
        case = {"kind": "eval", "expr": src, "mode": mode, "data_seed": data_seed, "tree": repr(e)}
        env = X.real_env(mode)
        data, log = datas[mode]
        opaque = spec == ("err", "opaque")
        nontriv = (not opaque) and (len(kinds) >= 3 or bool(kinds & {".", "[]"}))
        ctx.case(sample={"expr": src, "mode": mode, "spec": f["S"], "render": f["ST"]} if nontriv and len(src) > 30 else None,
                 key=(src, data_seed) if nontriv else None)
        ctx.count("eval_" + mode + ("_opaque" if opaque else "_" + spec[0]))
        if spec != py or f["SL"] != f["PL"]:
            # the extracted code contradicts compile_expr_correct: the proof file and the model are out of sync
            ctx.model_mismatch("theorem compile_expr_correct vs extracted model", case, f["S"] + " / " + f["SL"], f["P"] + " / " + f["PL"], None)
            continue
        if opaque:
            continue
        ok = True
        # ---- value through compile_expression (sync environments)
        if mode != "async":
            del log[:]
            real = X.real_value(env, src, data)
            rlog = X.canon_real_log(log)
            if real != spec:
                ok = False
                ctx.reject(dict(case, spec=f["S"], real=repr(real)),
                           f"compile_expression value differs from the documented semantics: spec {spec!r} real {real!r}",
                           "C02:value:" + src)
            elif rlog != [ev for ev in X.canon_log(f["SL"]) if ev[0] == "call"]:
                ok = False
                ctx.reject(dict(case, spec_log=f["SL"], real_log=repr(rlog)), "calls made differ from the documented evaluation order",
                           "C02:calls:" + src)
        # ---- rendered text of {{ e }}
        st = X.canon_text(f["ST"])
        if st != ("err", "opaque"):
            del log[:]
            rr = X.real_render(env, tsrc, data)
            if rr != st:
                ok = False
                ctx.reject(dict(case, spec_text=repr(st), real_text=repr(rr)),
                           f"rendered text of {{{{ e }}}} differs: spec {st!r} real {rr!r}", "C02:render:" + src)
        # ---- K-gen: emitted python
        if fold.endswith("O 0") and "(F " not in fold:
            real_code = X.real_output_code(env, tsrc)
            if gen.startswith("C "):
                m = ("C", X.canon_text("ok " + gen[2:])[1])
            else:
                try:
                    m = ("X", X.norm_py(gen[2:]))
                except SyntaxError as ex:
                    m = ("E", "model text does not parse: " + str(ex))
            if real_code != m:
                if real_code[0] == "E" and real_code[1].startswith("nofilter"):
                    pass
                else:
                    ok = False
                    ctx.model_mismatch("K-gen emitted expression (" + mode + ")", dict(case, kind="gen"), repr(m)[:600], repr(real_code)[:600], None)
        if ok:
            ctx.validated()


# ---------------------------------------------------------------- histories inside one Environment
# (oracle only, outside the Coq model: the value of an expression must not depend on what the same
#  Environment evaluated before; arguments that are ==-equal but of different type are the sharp case)
EQ_CLASSES = {"zero": ["0", "false", "0.0"], "one": ["1", "true", "1.0"], "two": ["2", "2.0"], "empty": ['""', '""|safe'],
              "neg": ["-1", "-1.0"], "none": ["none", "u0"]}
HIST_TEMPLATES = [
    'rows|map(attribute="a", default=@)|list', 'rows|map(attribute="c", default=@)|list', 'rows|map(attribute="a", default=@)|first',
    'rows|sum(attribute="a", start=@)', 'rows|groupby("a", default=@)|map(attribute="grouper")|list', 'rows|groupby("c", default=@)|first|first',
    'objs|map(attribute="v", default=@)|list', 'lol|map(attribute=@)|list', 'lol|sum(attribute=@)', 'lol|max(attribute=@)', 'lol|sort(attribute=@)|first',
    'lol|unique(attribute=@)|list|length', 'lol|join(",", attribute=@)', 'lol|selectattr(@)|list|length', 'u0|default(@)', 'n0|default(@, true)',
    '[1, 2, 3]|batch(2, @)|list', '[1, 2, 3]|slice(2, @)|list', '[@, 5]|first', '[5, @]|sum', '[@]|sum(start=@)', '@|string', '[@, @]|unique|list',
    '{"k": @}|dictsort', '(@, 1)|max', '3.14159|round(@)', '"abcdef"|truncate(5, @)', '[3, 1]|sort(reverse=@)', '"a b"|wordcount + @', '@ is sameas false',
    '@ is number', '@ is boolean', '@ in [0, 1]', '{@: "x"}[@]', '[10, 20, 30][@]',
]


def hist_data():
    return {"rows": [{"a": 1, "b": "x"}, {"b": "y"}, {"a": 0}], "objs": [X.Obj(7, {"v": 1}, []), X.Obj(8, {}, [])],
            "lol": [[0, 5], [1, 4], [0, 3]], "n0": None}


def run_history(ctx):
    import jinja2
    from jinja2.sandbox import SandboxedEnvironment

    def fresh(kind):
        env = {"default": jinja2.Environment, "sandbox": SandboxedEnvironment, "noopt": lambda: jinja2.Environment(optimized=False)}[kind]()
        return env

    def ev(env, src):
        return X.real_value(env, src, hist_data())

    plans = []
    for cname, vals in EQ_CLASSES.items():
        for t in HIST_TEMPLATES:
            for d1 in vals:
                for d2 in vals:
                    if d1 != d2:
                        plans.append([t.replace("@", d1), t.replace("@", d2)])
    allv = [v for vals in EQ_CLASSES.values() for v in vals]
    for _ in range(ctx.size(150, 3000)):
        plans.append([ctx.rng.choice(HIST_TEMPLATES).replace("@", ctx.rng.choice(allv)) for _ in range(ctx.rng.randint(3, 7))])
    for i, plan in enumerate(plans):
        kind = ("default", "sandbox", "noopt")[i % 3]
        shared = fresh(kind)
        got = [ev(shared, src) for src in plan]
        ok = True
        for j, src in enumerate(plan):
            if j == 0:
                continue
            alone = ev(fresh(kind), src)
            if alone != got[j]:
                ok = False
                ctx.reject({"kind": "history", "env": kind, "history": plan[:j + 1], "alone": repr(alone), "after_history": repr(got[j])},
                           f"{src!r} evaluates to {alone!r} in a fresh environment but to {got[j]!r} after {plan[:j]!r} in the same environment",
                           "C02:history:" + plan[j - 1] + " -> " + src)
                break
        ctx.case(sample={"history": plan, "values": [repr(g)[:60] for g in got]} if i % 97 == 0 else None, key=("history", tuple(plan)))
        ctx.count("history_" + kind)
        if ok:
            ctx.validated()


def run(ctx):
    X.use_jinja()
    ctx.extra["rule"] = RULE
    ctx.assumptions += [
        "floats are an opaque carrier: results of true division are compared as nearest doubles, further float arithmetic is outside the model (counted as *_opaque)",
        "attributes of non-probe values (methods of str/list/dict ...) enter through the oracle builtin_attr; the generators use names that are not such attributes",
        "opaque callables are pure functions of their arguments (oracle call_fun); the harness uses recording probes",
        "printf-style %, sequence repetition beyond 4096 elements, ** beyond exponent 64, ordering of lists/tuples are outside the model (opaque)",
        "*args/**kwargs, keyword arguments of filters/tests, tuples of slices are outside the modelled syntax (K-parse reports them as unsupported, never generated)",
    ]
    ctx.proof("C02")

    # ---------------- K-parse
    XP.run_kparse(ctx)

    # ---------------- histories in one environment (oracle only)
    run_history(ctx)

    # ---------------- K-eval / K-gen / oracle
    depth = ctx.size(4, 6)
    n = ctx.size(1500, 40000)
    g = X.EGen(ctx.rng)
    cases = []
    for i in range(n):
        e = g.gen(ctx.rng.randint(1, depth))
        cases.append((e, ctx.rng.randrange(1 << 30)))
    for e, ds in XP.fixed_eval_cases():
        cases.append((e, ds))
    all_lines = []
    metas = []
    for e, ds in cases:
        src, tsrc, lines, datas = judge_case(ctx, e, ds, "gen")
        metas.append((e, src, tsrc, datas, ds, len(all_lines)))
        all_lines += lines
    outs = ctx.driver("expr", all_lines)
    for e, src, tsrc, datas, ds, off in metas:
        compare_case(ctx, e, src, tsrc, outs[off:off + 3 * len(MODES)], datas, ds)


def replay(ctx, data):
    X.use_jinja()
    case = data.get("case")
    if data.get("kind") != "failing-input" or case is None:
        print("replay: names a broken theorem/correspondence:", data.get("broken"))
        return run(ctx)
    if case.get("kind") == "parse":
        return XP.replay(ctx, case)
    e = eval(case["tree"], {"Markup": X._markup()})
    ds = case["data_seed"]
    modes = [case["mode"]]
    src, tsrc, lines, datas = judge_case(ctx, e, ds, "replay", modes)
    outs = ctx.driver("expr", lines)
    for ln in outs:
        print("model:", ln)
    compare_case(ctx, e, src, tsrc, outs, datas, ds, modes)
