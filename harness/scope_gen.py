"""Statement-tree generator, printers and real-engine runners shared by C03 / C32 / C30.

A program is a list of statements, each a tuple mirroring coq/theories/Model/ScopeAst.v:
  expr : ('n', x) ('i', k) ('s', text) ('cat', a, b) ('add', a, b) ('attr', x, a)
  stmt : ('out', [e..]) ('if', t, body, elifs, els)   elifs = [('if', t, body, [], [])..]
         ('for', x, it, test|None, body, els) ('set', x, e) ('seta', x, a, e)
         ('nsnew', x, [(a, e)..]) ('setb', x, body) ('with', [(x, e)..], body)
         ('filt', 'u'|'l', body) ('macro', m, params, body) ('callo', f, args)
         ('callb', params, f, args, body)
Names are identifier strings; the Coq side uses numbers (Names table below).
"""
from __future__ import annotations

import os
import re
import subprocess
import unicodedata

RESERVED = ["loop", "caller", "namespace", "kwargs", "varargs", "self"]
ATTRS = ["index", "v", "w"]
NAME_BASE, UPPER_BASE, LOWER_BASE = 2000000, 3000000, 4000000


class Names:
    def __init__(self):
        self.ids = {n: i for i, n in enumerate(RESERVED)}
        self.rev = {i: n for n, i in self.ids.items()}
        self.next = 10
        self.attrs = {a: i for i, a in enumerate(ATTRS)}

    def id(self, n):
        if n not in self.ids:
            self.ids[n] = self.next
            self.rev[self.next] = n
            self.next += 1
        return self.ids[n]

    def attr(self, a):
        if a not in self.attrs:
            self.attrs[a] = len(self.attrs)
        return self.attrs[a]

    def pynorm_table(self):
        """pairs (id, id of NFKC(name)) for names whose NFKC form differs"""
        out = []
        for n in list(self.ids):
            m = unicodedata.normalize("NFKC", n)
            if m != n:
                out.append((self.ids[n], self.id(m)))
        return out

    def priv(self):
        return [i for n, i in self.ids.items() if n.startswith("_")]


# ------------------------------------------------------------------ printers
def e_src(e):
    k = e[0]
    if k == "n":
        return e[1]
    if k == "i":
        return str(e[1])
    if k == "s":
        return "'" + e[1] + "'"
    if k == "cat":
        return f"({e_src(e[1])} ~ {e_src(e[2])})"
    if k == "add":
        return f"({e_src(e[1])} + {e_src(e[2])})"
    if k == "attr":
        return f"{e[1]}.{e[2]}"
    raise ValueError(e)


def p_src(p):
    return "".join(s_src(s) for s in p)


def s_src(s):
    k = s[0]
    if k == "out":
        return "".join("{{ " + e_src(e) + " }}" for e in s[1])
    if k == "if":
        r = "{% if " + e_src(s[1]) + " %}" + p_src(s[2])
        for ei in s[3]:
            r += "{% elif " + e_src(ei[1]) + " %}" + p_src(ei[2])
        if s[4]:
            r += "{% else %}" + p_src(s[4])
        return r + "{% endif %}"
    if k == "for":
        r = "{% for " + s[1] + " in " + e_src(s[2])
        if s[3] is not None:
            r += " if " + e_src(s[3])
        r += " %}" + p_src(s[4])
        if s[5]:
            r += "{% else %}" + p_src(s[5])
        return r + "{% endfor %}"
    if k == "set":
        return "{% set " + s[1] + " = " + e_src(s[2]) + " %}"
    if k == "seta":
        return "{% set " + s[1] + "." + s[2] + " = " + e_src(s[3]) + " %}"
    if k == "nsnew":
        return "{% set " + s[1] + " = namespace(" + ", ".join(f"{a}={e_src(e)}" for a, e in s[2]) + ") %}"
    if k == "setb":
        return "{% set " + s[1] + " %}" + p_src(s[2]) + "{% endset %}"
    if k == "with":
        return "{% with " + ", ".join(f"{x} = {e_src(e)}" for x, e in s[1]) + " %}" + p_src(s[2]) + "{% endwith %}"
    if k == "filt":
        return "{% filter " + ("upper" if s[1] == "u" else "lower") + " %}" + p_src(s[2]) + "{% endfilter %}"
    if k == "macro":
        return "{% macro " + s[1] + "(" + ", ".join(s[2]) + ") %}" + p_src(s[3]) + "{% endmacro %}"
    if k == "callo":
        return "{{ " + s[1] + "(" + ", ".join(e_src(e) for e in s[2]) + ") }}"
    if k == "callb":
        hd = "{% call" + ("(" + ", ".join(s[1]) + ")" if s[1] else "") + " "
        return hd + s[2] + "(" + ", ".join(e_src(e) for e in s[3]) + ") %}" + p_src(s[4]) + "{% endcall %}"
    raise ValueError(s)


def e_sx(e, N):
    k = e[0]
    if k == "n":
        return f"(n {N.id(e[1])})"
    if k == "i":
        return f"(i {e[1]})"
    if k == "s":
        return "(s" + "".join(f" {ord(c)}" for c in e[1]) + ")"
    if k in ("cat", "add"):
        return f"({k} {e_sx(e[1], N)} {e_sx(e[2], N)})"
    if k == "attr":
        return f"(attr {N.id(e[1])} {N.attr(e[2])})"
    raise ValueError(e)


def p_sx(p, N):
    return "(" + " ".join(s_sx(s, N) for s in p) + ")"


def s_sx(s, N):
    k = s[0]
    if k == "out":
        return "(out " + " ".join(e_sx(e, N) for e in s[1]) + ")"
    if k == "if":
        return f"(if {e_sx(s[1], N)} {p_sx(s[2], N)} {p_sx(s[3], N)} {p_sx(s[4], N)})"
    if k == "for":
        te = "()" if s[3] is None else "(" + e_sx(s[3], N) + ")"
        return f"(for {N.id(s[1])} {e_sx(s[2], N)} {te} {p_sx(s[4], N)} {p_sx(s[5], N)})"
    if k == "set":
        return f"(set {N.id(s[1])} {e_sx(s[2], N)})"
    if k == "seta":
        return f"(seta {N.id(s[1])} {N.attr(s[2])} {e_sx(s[3], N)})"
    if k == "nsnew":
        return f"(nsnew {N.id(s[1])}" + "".join(f" ({N.attr(a)} {e_sx(e, N)})" for a, e in s[2]) + ")"
    if k == "setb":
        return f"(setb {N.id(s[1])} {p_sx(s[2], N)})"
    if k == "with":
        return "(with (" + " ".join(f"({N.id(x)} {e_sx(e, N)})" for x, e in s[1]) + f") {p_sx(s[2], N)})"
    if k == "filt":
        return f"(filt {s[1]} {p_sx(s[2], N)})"
    if k == "macro":
        return f"(macro {N.id(s[1])} (" + " ".join(str(N.id(x)) for x in s[2]) + f") {p_sx(s[3], N)})"
    if k == "callo":
        return f"(callo {N.id(s[1])}" + "".join(" " + e_sx(e, N) for e in s[2]) + ")"
    if k == "callb":
        return ("(callb (" + " ".join(str(N.id(x)) for x in s[1]) + f") {N.id(s[2])} ("
                + " ".join(e_sx(e, N) for e in s[3]) + f") {p_sx(s[4], N)})")
    raise ValueError(s)


def v_sx(v):
    if isinstance(v, bool):
        raise ValueError(v)
    if isinstance(v, int):
        return f"(i {v})"
    if isinstance(v, str):
        return "(s" + "".join(f" {ord(c)}" for c in v) + ")"
    if isinstance(v, list):
        return "(l" + "".join(" " + v_sx(x) for x in v) + ")"
    raise ValueError(v)


def run_line(p, data, N, fuel=300):
    prog = " ".join(s_sx(s, N) for s in p)      # registers every name first
    dd = " ".join(f"({N.id(x)} {v_sx(v)})" for x, v in data.items())
    pn = " ".join(f"({a} {b})" for a, b in N.pynorm_table())
    pv = " ".join(str(i) for i in N.priv())
    return f"(run {fuel} (pynorm {pn}) (priv {pv}) (data {dd}) (prog {prog}))"


def sym_line(p, N):
    return "(sym (prog " + " ".join(s_sx(s, N) for s in p) + "))"


DRIVER = os.path.join(os.path.dirname(os.path.dirname(os.path.abspath(__file__))), "build", "bin", "scope")


def _big_stack():
    import resource
    try:
        resource.setrlimit(resource.RLIMIT_STACK, (resource.RLIM_INFINITY, resource.RLIM_INFINITY))
    except (ValueError, OSError):
        pass


def _run(lines, timeout):
    p = subprocess.run([DRIVER], input="\n".join(lines) + "\n", capture_output=True, text=True, timeout=timeout,
                       preexec_fn=_big_stack)
    if p.returncode != 0:
        raise RuntimeError("driver scope failed: " + p.stderr[-300:])
    out = p.stdout.split("\n")
    if out and out[-1] == "":
        out.pop()
    if len(out) != len(lines):
        raise RuntimeError(f"driver scope: {len(lines)} cases in, {len(out)} lines out")
    return out


def run_driver(lines, batch=200, batch_timeout=60, line_timeout=4, stats=None):
    """Run the extracted model on `lines` in batches.  A batch that does not finish in time (a rare
    program family: a macro that calls itself with a doubled argument builds a text of size 2^fuel) is
    re-run line by line; a line that still does not finish yields None and the case is skipped (the real
    engine is not run on it either)."""
    out = []
    for i in range(0, len(lines), batch):
        chunk = lines[i:i + batch]
        try:
            out += _run(chunk, batch_timeout)
            continue
        except (subprocess.TimeoutExpired, RuntimeError):
            pass
        for ln in chunk:
            try:
                out += _run([ln], line_timeout)
            except (subprocess.TimeoutExpired, RuntimeError):
                out.append(None)
                if stats is not None:
                    stats["skipped"] = stats.get("skipped", 0) + 1
    return out


def expand_text(codes, N):
    out = []
    for c in codes.split(",") if codes else []:
        c = int(c)
        if c >= LOWER_BASE:
            out.append(N.rev[c - LOWER_BASE].lower())
        elif c >= UPPER_BASE:
            out.append(N.rev[c - UPPER_BASE].upper())
        elif c >= NAME_BASE:
            out.append(N.rev[c - NAME_BASE])
        else:
            out.append(chr(c))
    return "".join(out)


def parse_obs(s, N):
    """driver observable -> canonical python value: ('ok', text, ((name, repr)..)) | ('err', kind)"""
    s = s.strip()
    if s.startswith("err "):
        return ("err", s[4:])
    assert s.startswith("ok "), s
    parts = s[3:].split(";")
    text = expand_text(parts[0], N)
    ex = []
    for it in parts[1:]:
        if not it:
            continue
        k, _, v = it.partition("=")
        ex.append((N.rev[int(k)], expand_text(v, N)))
    return ("ok", text, tuple(sorted(ex)))


def parse_run(line, N):
    f, s, r, g = line.split(" | ")
    assert f.startswith("F ") and s.startswith("S ") and r.startswith("R") and g.startswith("G ")
    rs = sorted(N.rev[int(x)] for x in r[1:].strip().split(",") if x)
    g = g[2:].strip()
    guards = {"core": g[0] == "1", "wf": g[1] == "1", "noalias": g[2] == "1", "rbw": g[3] == "1",
              "core2": len(g) > 4 and g[4] == "1", "core3": len(g) > 5 and g[5] == "1"}
    return parse_obs(f[2:], N), parse_obs(s[2:], N), rs, guards


# ------------------------------------------------------------------ the real engine
_ENV = {}


def make_env(jinja2, record=None, resolves=None):
    from jinja2.utils import Namespace
    from jinja2.runtime import Context

    class NS(Namespace):
        def __repr__(self):
            return "<Namespace>"

    env = jinja2.Environment()
    env.globals.clear()
    env.globals["namespace"] = NS
    if record is not None:
        from jinja2.compiler import CodeGenerator

        class Rec(CodeGenerator):
            def enter_frame(self, frame):
                sy = frame.symbols
                record.append((sy.level, list(sy.refs.items()), list(sy.loads.items()), sorted(sy.stores)))
                super().enter_frame(frame)
        env.code_generator_class = Rec
    if resolves is not None:
        class RecContext(Context):
            def resolve_or_missing(self, key):
                resolves.append(key)
                return super().resolve_or_missing(key)
        env.context_class = RecContext
    return env


def classify_exc(e):
    n = type(e).__name__
    if n == "RecursionError":
        return ("err", "Fuel")
    if n in ("TypeError", "UndefinedError", "TemplateRuntimeError"):
        return ("err", n)
    if n in ("NameError", "UnboundLocalError", "AssertionError"):
        return ("err", "Internal")
    return ("err", "X:" + n)


def canon_repr(v):
    # the model quotes exported strings naively (python's repr switches quote style)
    return "'" + v + "'" if isinstance(v, str) else repr(v)


def real_render(env, src, data):
    """('ok', text, exported) | ('err', kind) | ('compile', kind)"""
    try:
        t = env.from_string(src)
    except RecursionError as e:
        return ("compile", "RecursionError")
    except Exception as e:  # noqa
        return ("compile", type(e).__name__ + ": " + str(e)[:80])
    try:
        text = t.render(**data)
    except Exception as e:  # noqa
        return classify_exc(e)
    try:
        mod = t.make_module(dict(data))
        ex = tuple(sorted((k, canon_repr(v)) for k, v in mod.__dict__.items() if not k.startswith("_")))
    except Exception as e:  # noqa
        return ("err", "module:" + type(e).__name__)
    return ("ok", text, ex)


_ident_re = re.compile(r"^l_(\d+)_(.*)$", re.S)


def fmt_ident(s, N):
    m = _ident_re.match(s)
    return f"{m.group(1)}.{N.id(m.group(2))}"


def fmt_symbols(snap, N):
    level, refs, loads, stores = snap
    def ld(l):
        k, p = l
        if k == "param":
            return "p"
        if k == "resolve":
            return "r" + str(N.id(p))
        if k == "alias":
            return "a" + fmt_ident(p, N)
        if k == "undefined":
            return "u"
        return "?" + str(k)
    return (f"L{level} R " + ",".join(f"{N.id(x)}:{fmt_ident(i, N)}" for x, i in refs)
            + " D " + ",".join(f"{fmt_ident(i, N)}:{ld(l)}" for i, l in loads)
            + " S " + ",".join(str(i) for i in sorted(N.id(x) for x in stores)))


def real_symbols(jinja2, src, N):
    """every frame's Symbols in enter_frame order, formatted like the driver, via a recording
    CodeGenerator subclass; plus the root frame via idtracking.symbols_for_node"""
    rec = []
    env = make_env(jinja2, record=rec)
    try:
        env.compile(src, raw=True)
    except Exception as e:  # noqa
        return "compile:" + type(e).__name__, None
    from jinja2 import idtracking
    ast = env.parse(src)
    root = idtracking.symbols_for_node(ast)
    root_s = fmt_symbols((root.level, list(root.refs.items()), list(root.loads.items()), sorted(root.stores)), N)
    return " / ".join(fmt_symbols(s, N) for s in rec), root_s


# ------------------------------------------------------------------ generator
POOL = ["a", "b", "c", "n"]


class SGen:
    """Random statement trees over a small shared name pool (shadowing, conditional stores,
    read-before-write and closure capture are frequent)."""

    def __init__(self, rng, features=None, pool=None, size=12):
        self.r = rng
        self.pool = pool or POOL
        self.f = set(features or ["if", "for", "set", "setb", "with", "filt", "macro", "call", "callb", "ns"])
        self.size = size
        self.mpool = ["m", "k"]
        self.ns_made = False

    def name(self):
        if self.r.random() < 0.06:
            return self.r.choice(self.mpool)
        return self.r.choice(self.pool)

    def mname(self):
        return self.r.choice(self.mpool) if self.r.random() < 0.7 else self.r.choice(self.pool)

    def expr(self, d=2, in_loop=False):
        r = self.r
        k = r.random()
        if d <= 0 or k < 0.5:
            k2 = r.random()
            if k2 < 0.7:
                return ("n", self.name())
            if k2 < 0.8:
                return ("i", r.randint(0, 9))
            if k2 < 0.9:
                return ("s", r.choice(["x", "yz", "", "Q"]))
            if in_loop and k2 < 0.97:
                return ("attr", "loop", "index")
            if "ns" in self.f and "n" in self.pool and (self.ns_made or r.random() < 0.1):
                return ("attr", "n" if r.random() < 0.85 else self.name(), r.choice(["v", "w"]))
            return ("n", self.name())
        if k < 0.8:
            return ("cat", self.expr(d - 1, in_loop), self.expr(d - 1, in_loop))
        if k < 0.84:
            return ("add", self.expr(d - 1, in_loop), self.expr(d - 1, in_loop))
        if in_loop and k < 0.93:
            return ("attr", "loop", "index")
        return ("n", self.name())

    def iterable(self, in_loop):
        r = self.r
        if r.random() < 0.85:
            return ("n", self.name())
        return r.choice([("s", "pq"), ("s", ""), ("i", 3), ("cat", ("n", self.name()), ("s", "k"))])

    def block(self, budget, depth, in_loop, macros):
        out = []
        n = self.r.randint(1, 3) if budget > 1 else 1
        for _ in range(n):
            if budget <= 0:
                break
            s, used = self.stmt(budget, depth, in_loop, macros)
            out.append(s)
            budget -= used
        return out, budget

    def stmt(self, budget, depth, in_loop, macros):
        """returns (stmt, size used)"""
        r = self.r
        kinds = ["out", "out", "set", "set"]
        if depth > 0 and budget > 1:
            for k, w in (("if", 2), ("for", 3), ("setb", 1), ("with", 2), ("filt", 1), ("macro", 2), ("callb", 1)):
                if k in self.f and (k != "callb" or macros or r.random() < 0.2):
                    kinds += [k] * w
        if "call" in self.f and (macros or r.random() < 0.15):
            kinds += ["callo"] * 3
        if "ns" in self.f:
            kinds += ["nsnew"] + (["seta", "seta"] if self.ns_made or r.random() < 0.1 else [])
        k = r.choice(kinds)
        if k == "out":
            return ("out", [self.expr(2, in_loop) for _ in range(r.randint(1, 2))]), 1
        if k == "set":
            return ("set", self.name(), self.expr(2, in_loop)), 1
        if k == "seta":
            x = "n" if r.random() < 0.8 and "n" in self.pool else self.name()
            return ("seta", x, r.choice(["v", "w"]), self.expr(1, in_loop)), 1
        if k == "nsnew":
            x = "n" if r.random() < 0.8 and "n" in self.pool else self.name()
            self.ns_made = True
            attrs = r.sample(["v", "w"], r.randint(0, 2))
            return ("nsnew", x, [(a, self.expr(1, in_loop)) for a in attrs]), 1
        if k == "callo":
            plain = [m for m in macros if not m[2]] or macros
            if plain and r.random() < 0.92:
                f, npar, _ = r.choice(plain)
                nargs = r.randint(0, npar) if r.random() < 0.9 else npar + 1
            else:
                f, nargs = self.name(), r.randint(0, 1)
            return ("callo", f, [self.expr(1, in_loop) for _ in range(nargs)]), 1
        b = budget - 1
        if k == "if":
            body, b = self.block(b, depth - 1, in_loop, list(macros))
            elifs = []
            while b > 0 and r.random() < 0.25:
                eb, b = self.block(b, depth - 1, in_loop, list(macros))
                elifs.append(("if", self.expr(1, in_loop), eb, [], []))
            els = []
            if b > 0 and r.random() < 0.4:
                els, b = self.block(b, depth - 1, in_loop, list(macros))
            return ("if", self.expr(1, in_loop), body, elifs, els), budget - b
        if k == "for":
            tg = self.name()
            # (inside a loop the filter of a nested loop often reads the OUTER loop's `loop`: the inner one does not
            #  exist yet when the filter runs)
            test = self.expr(1, in_loop and r.random() < 0.5) if r.random() < 0.25 else None
            if test is not None and in_loop and r.random() < 0.3:
                test = ("attr", "loop", "index")
            body, b = self.block(b, depth - 1, True, list(macros))
            els = []
            if b > 0 and r.random() < 0.3:
                els, b = self.block(b, depth - 1, in_loop and r.random() < 0.1, list(macros))
            return ("for", tg, self.iterable(in_loop), test, body, els), budget - b
        if k == "setb":
            body, b = self.block(b, depth - 1, in_loop, list(macros))
            return ("setb", self.name(), body), budget - b
        if k == "with":
            binds = [(self.name(), self.expr(1, in_loop)) for _ in range(r.randint(0, 2))]
            body, b = self.block(b, depth - 1, in_loop, list(macros))
            return ("with", binds, body), budget - b
        if k == "filt":
            body, b = self.block(b, depth - 1, in_loop, list(macros))
            return ("filt", r.choice("ul"), body), budget - b
        if k == "macro":
            m = self.mname()
            ps = r.sample(self.pool, r.randint(0, 2))
            uc = r.random() < 0.3
            inner = list(macros) + [(m, len(ps), uc)]
            body, b = self.block(b, depth - 1, in_loop and r.random() < 0.3, inner)
            if uc:
                body.insert(r.randint(0, len(body)), ("callo", "caller", [self.expr(1) for _ in range(r.randint(0, 1))]))
            macros.append((m, len(ps), uc))
            return ("macro", m, ps, body), budget - b
        if k == "callb":
            cm = [m for m in macros if m[2]] or macros
            if cm and r.random() < 0.9:
                f, npar, _ = r.choice(cm)
            else:
                f, npar = self.name(), 1
            ps = r.sample(self.pool, r.randint(0, 1))
            body, b = self.block(b, depth - 1, in_loop, list(macros))
            return ("callb", ps, f, [self.expr(1, in_loop) for _ in range(r.randint(0, npar))], body), budget - b
        raise AssertionError(k)

    def program(self):
        macros = []
        out = []
        budget = self.size
        while budget > 0:
            s, used = self.stmt(budget, 3, False, macros)
            out.append(s)
            budget -= used
            if self.r.random() < 0.15:
                break
        return out

    def data(self):
        r = self.r
        d = {}
        for x in self.pool:
            k = r.random()
            if k < 0.3:
                continue
            if k < 0.42:
                d[x] = r.randint(-2, 7)
            elif k < 0.7:
                d[x] = r.choice(["s", "tu", "", "Hi"])
            elif k < 0.9:
                d[x] = [r.randint(0, 5) for _ in range(r.randint(0, 3))]
            else:
                d[x] = [r.choice(["p", "q", "rs"]) for _ in range(r.randint(1, 2))]
        return d


class NGen(SGen):
    """Deep nesting with pass-through scopes: a chain of 3-5 scoping constructs (for / with / filter /
    block set / macro + call), where the statements each level adds on its own use a random 1-2 name
    subset of the pool, so that a variable owned by an outer non-root scope (loop target, with target,
    macro parameter) is often not mentioned by the scopes in between and is conditionally assigned and
    read further inside."""

    def small(self, pool, in_loop):
        r = self.r
        old, self.pool = self.pool, pool
        try:
            k = r.random()
            x = self.name()
            if k < 0.3:
                return [("out", [self.expr(1, in_loop)])]
            if k < 0.5:
                return [("set", x, self.expr(1, in_loop))]
            if k < 0.8:
                body = [("set", x, self.expr(1, in_loop))]
                els = [("set", self.name(), self.expr(0, in_loop))] if r.random() < 0.3 else []
                return [("if", self.expr(1, in_loop), body, [], els), ("out", [("n", x)])]
            return [("out", [("n", x)]), ("if", self.expr(1, in_loop), [("set", x, self.expr(1, in_loop))], [], [])]
        finally:
            self.pool = old

    def sub(self):
        return self.r.sample(POOL, self.r.randint(1, 2))

    def nest(self, level, in_loop, macros):
        r = self.r
        if level == 0:
            out = []
            for _ in range(r.randint(1, 2)):
                out += self.small(self.sub(), in_loop)
            return out
        kind = r.choice(["for", "for", "with", "with", "filt", "setb", "macro"])
        own_pool = self.sub()
        pre = self.small(own_pool, in_loop) if r.random() < 0.35 else []
        post = self.small(own_pool, in_loop) if r.random() < 0.35 else []
        if kind == "for":
            inner = self.nest(level - 1, True, macros)
            it = r.choice([("n", r.choice(POOL)), ("s", "pq"), ("s", "k")])
            return [("for", r.choice(POOL), it, None, pre + inner + post, [])]
        inner = self.nest(level - 1, in_loop, macros)
        if kind == "with":
            old, self.pool = self.pool, own_pool + [r.choice(POOL)]
            binds = [(r.choice(POOL), self.expr(1, in_loop)) for _ in range(r.randint(0, 2))]
            self.pool = old
            return [("with", binds, pre + inner + post)]
        if kind == "filt":
            return [("filt", r.choice("ul"), pre + inner + post)]
        if kind == "setb":
            x = r.choice(POOL)
            return [("setb", x, pre + inner + post), ("out", [("n", x)])]
        m = r.choice(self.mpool)
        ps = r.sample(POOL, r.randint(0, 2))
        old, self.pool = self.pool, own_pool + [r.choice(POOL)]
        args = [self.expr(1, in_loop) for _ in range(len(ps))]
        self.pool = old
        return [("macro", m, ps, pre + inner + post), ("callo", m, args)]

    def program(self):
        r = self.r
        out = []
        if r.random() < 0.4:
            out += self.small(self.sub(), False)
        out += self.nest(r.randint(3, 5), False, [])
        if r.random() < 0.4:
            out += self.small(self.sub(), False)
        return out

    def data(self):
        d = super().data()
        for x in POOL:
            if x not in d and self.r.random() < 0.5:
                d[x] = self.r.choice([[1, 0], "uv", 3, ["p", "q"]])
        return d


def prog_size(p):
    n = 0
    for s in p:
        n += 1
        for part in s[1:]:
            if isinstance(part, list) and part and isinstance(part[0], tuple) and part[0] and isinstance(part[0][0], str) \
                    and part[0][0] in ("out", "if", "for", "set", "seta", "nsnew", "setb", "with", "filt", "macro", "callo", "callb"):
                n += prog_size(part)
    return n


def kinds_of(p, acc=None):
    acc = acc if acc is not None else set()
    for s in p:
        acc.add(s[0])
        for part in s[1:]:
            if isinstance(part, list) and part and isinstance(part[0], tuple) and part[0] and isinstance(part[0][0], str) \
                    and part[0][0] in ("out", "if", "for", "set", "seta", "nsnew", "setb", "with", "filt", "macro", "callo", "callb"):
                kinds_of(part, acc)
    return acc


def rename_expr(e, m):
    k = e[0]
    if k == "n":
        return ("n", m.get(e[1], e[1]))
    if k in ("cat", "add"):
        return (k, rename_expr(e[1], m), rename_expr(e[2], m))
    if k == "attr":
        return ("attr", m.get(e[1], e[1]), e[2])
    return e


def rename_prog(p, m):
    out = []
    for s in p:
        k = s[0]
        R = lambda x: m.get(x, x)
        E = lambda e: rename_expr(e, m)
        P = lambda q: rename_prog(q, m)
        if k == "out":
            out.append(("out", [E(e) for e in s[1]]))
        elif k == "if":
            out.append(("if", E(s[1]), P(s[2]), P(s[3]), P(s[4])))
        elif k == "for":
            out.append(("for", R(s[1]), E(s[2]), None if s[3] is None else E(s[3]), P(s[4]), P(s[5])))
        elif k == "set":
            out.append(("set", R(s[1]), E(s[2])))
        elif k == "seta":
            out.append(("seta", R(s[1]), s[2], E(s[3])))
        elif k == "nsnew":
            out.append(("nsnew", R(s[1]), [(a, E(e)) for a, e in s[2]]))
        elif k == "setb":
            out.append(("setb", R(s[1]), P(s[2])))
        elif k == "with":
            out.append(("with", [(R(x), E(e)) for x, e in s[1]], P(s[2])))
        elif k == "filt":
            out.append(("filt", s[1], P(s[2])))
        elif k == "macro":
            out.append(("macro", R(s[1]), [R(x) for x in s[2]], P(s[3])))
        elif k == "callo":
            out.append(("callo", R(s[1]), [E(e) for e in s[2]]))
        elif k == "callb":
            out.append(("callb", [R(x) for x in s[1]], R(s[2]), [E(e) for e in s[3]], P(s[4])))
        else:
            raise ValueError(s)
    return out
