"""C20 — sandbox operator interception sees every intercepted operator application.

proof : Properties/C20.v (intercept_complete, intercept_exact, compiled_exact, result_is_hook_result,
        constants_not_folded)
tie   : K-gen  printed gen_opt == emitted code of a SandboxedEnvironment subclass with the given
               intercepted_binops / intercepted_unops (call_binop / call_unop routing, no folding)
oracle: a recording-and-perturbing SandboxedEnvironment subclass: the hook log of the real engine
        equals the log of the documented evaluation (complete, exact, same operands, same order) and
        the rendered text is the text computed from the hooks' (perturbed) results — for {{ e }},
        filter arguments, macro defaults, {% set %}, {% if %} and loop filters.
"""
import random

from . import lib
from . import expr_common as X
from . import expr_ref as XR

RULE = ("arithmetic-heavy type-directed expression trees (constants, variables, nested and foldable subexpressions; depth "
        "<= 4 quick / 5 thorough) under every one of the 512 subsets of the 7 binary and 2 unary interceptable operators "
        "(each subset at least once, the rest random), placed as {{ e }}, as a filter argument, a macro default, a {% set %} "
        "value, an {% if %} test, a loop filter, a with value, a call block body, an imported macro, an included template and an "
        "overriding block of a child template; environment kinds: intercepted sets on the class / on the instance, "
        "ImmutableSandboxedEnvironment, async, overlay, hooks through binop_table / unop_table; hooks record (operator, operands) and add 1000 to integer results. "
        "distinct = (subset, position, source); non-trivial = at least one hook application predicted.")

BIN = list(X.BINOPS)      # add sub mul div floordiv mod pow
UN = list(X.UNOPS)        # neg pos
POSITIONS = ["print", "filter-arg", "macro-default", "set", "if", "loop-filter", "with", "callblock", "import", "include", "extends", "trans", "trans-count", "trans-old", "do", "do-loop", "set-discard"]


ENV_KINDS = ["class", "instance", "immutable", "async", "overlay", "table"]


def make_env(ib, iu, log, kind="class", newstyle=True):
    """a recording-and-perturbing sandbox of one of the environment kinds: intercepted sets on the class / on the
    instance, ImmutableSandboxedEnvironment, async, an overlay of a configured environment, hooks installed through
    binop_table / unop_table instead of overriding call_binop / call_unop"""
    import jinja2
    from jinja2.sandbox import ImmutableSandboxedEnvironment, SandboxedEnvironment
    bset = frozenset(X.BINOPS[o] for o in ib)
    uset = frozenset(X.UNOPS[o] for o in iu)
    base = ImmutableSandboxedEnvironment if kind == "immutable" else SandboxedEnvironment
    loader = jinja2.DictLoader({})

    def pert(r):
        return r + 1000 if type(r) is int else r

    if kind == "table":
        class Rec(base):
            intercepted_binops = bset
            intercepted_unops = uset
        env = Rec(loader=loader, extensions=["jinja2.ext.i18n", "jinja2.ext.do"])
        for sym in list(env.binop_table):
            env.binop_table[sym] = (lambda f, sym: lambda l, r: (log.append(("bin", sym, l, r)), pert(f(l, r)))[1])(env.binop_table[sym], sym)
        for sym in list(env.unop_table):
            env.unop_table[sym] = (lambda f, sym: lambda a: (log.append(("un", sym, a)), pert(f(a)))[1])(env.unop_table[sym], sym)
    else:
        class Rec(base):
            if kind != "instance":
                intercepted_binops = bset
                intercepted_unops = uset

            def call_binop(self, context, operator, left, right):
                log.append(("bin", operator, left, right))
                return pert(super().call_binop(context, operator, left, right))

            def call_unop(self, context, operator, arg):
                log.append(("un", operator, arg))
                return pert(super().call_unop(context, operator, arg))
        env = Rec(loader=loader, enable_async=(kind == "async"), extensions=["jinja2.ext.i18n", "jinja2.ext.do"])
        if kind == "instance":
            env.intercepted_binops = bset
            env.intercepted_unops = uset
    env.globals.clear()
    # the i18n extension: trans blocks place expressions into generated calls.  Installed BEFORE the overlay is made: the
    # install_* callables of an overlay still configure the environment the extension was created for.
    env.install_null_translations(newstyle=newstyle)
    if kind == "overlay":
        env = env.overlay(trim_blocks=True)
    return env


TRANS_MSG = "v %(xx)s"
LOADER_POSITIONS = {"import", "include", "extends"}


def template_for(pos, src):
    src = "(" + src + ")"
    if pos == "print":
        return "{{ " + src + " }}"
    if pos == "filter-arg":
        return "{{ u0|default(" + src + ") }}"
    if pos == "macro-default":
        return "{% macro mm(pp=" + src + ") %}{{ pp }}{% endmacro %}{{ mm() }}"
    if pos == "set":
        return "{% set vv = " + src + " %}{{ vv }}"
    if pos == "if":
        return "{% if " + src + " %}T{% else %}F{% endif %}"
    if pos == "loop-filter":
        return "{% for it in [1] if " + src + " %}T{% else %}F{% endfor %}"
    if pos == "with":
        return "{% with ww = " + src + " %}{{ ww }}{% endwith %}"
    if pos == "callblock":
        return "{% macro mc() %}{{ caller() }}{% endmacro %}{% call mc() %}{{ " + src + " }}{% endcall %}"
    if pos == "import":
        return "{% from 'lib' import ml with context %}{{ ml() }}"
    if pos == "include":
        return "{% include 'lib' %}"
    if pos == "extends":
        return "{% extends 'base' %}{% block bb %}{{ " + src + " }}{% endblock %}"
    if pos in ("trans", "trans-old"):
        return "{% trans xx=" + src + " %}v {{ xx }}{% endtrans %}"
    # positions whose value is DISCARDED: the application must reach the hook all the same
    if pos == "do":
        return "{% do " + src + " %}"
    if pos == "do-loop":
        return "{% for it in [1] %}{% do " + src + " %}{% endfor %}{% if false %}{% do " + src + " %}{% endif %}"
    if pos == "set-discard":
        return "{% set _dd = " + src + " %}{% set _dd = none %}"
    if pos == "trans-count":
        return "{% trans count=" + src + " %}{{ count }} item{% pluralize %}{{ count }} items{% endtrans %}"
    raise ValueError(pos)


def install_templates(env, pos, src):
    """the other templates a loader position needs"""
    src = "(" + src + ")"
    m = env.loader.mapping if hasattr(env.loader, "mapping") else None
    if m is None:
        return
    m.clear()
    if pos == "import":
        m["lib"] = "{% macro ml() %}{{ " + src + " }}{% endmacro %}"
    elif pos == "include":
        m["lib"] = "{{ " + src + " }}"
    elif pos == "extends":
        m["base"] = "[{% block bb %}{% endblock %}]"
    env.cache.clear() if env.cache is not None else None


def render_pos(env, pos, src, data):
    install_templates(env, pos, src)
    r = X.real_render(env, template_for(pos, src), data)
    if pos == "extends" and r[0] == "ok" and r[1].startswith("[") and r[1].endswith("]"):
        r = ("ok", r[1][1:-1])
    if pos in ("trans", "trans-old") and r[0] == "ok" and r[1].startswith("v "):
        r = ("ok", r[1][2:])
    if pos == "trans-count" and r[0] == "ok" and r[1].endswith((" item", " items")):
        r = ("ok", r[1].rsplit(" item", 1)[0])
    return r


def one_case(ctx, e, ds, ib, iu, pos, ev_line, gen_line, fold_line):
    src = X.to_src(e)
    case = {"kind": "sandbox", "expr": src, "ib": ib, "iu": iu, "position": pos, "data_seed": ds, "tree": repr(e)}
    f = X.split_fields(ev_line)
    spec = X.canon_res(f["S"])
    if "BIG" in f["SL"] or "(F " in f["SL"]:
        ctx.case()
        ctx.count("opaque")
        return
    if spec == ("err", "opaque"):
        # the model stops at an operation it cannot compute (printf-style %, floats ...), the engine goes on: the
        # hook applications the model predicts UP TO that point must be a prefix of what the hooks saw
        want_prefix = [ev for ev in X.canon_log(f["SL"]) if ev[0] != "call"]
        log = []
        kind = ENV_KINDS[ds % len(ENV_KINDS)]
        env = make_env(ib, iu, log, kind)
        data = X.make_data(random.Random(ds), [])
        tsrc = template_for(pos, src)
        rr = render_pos(env, pos, src, data)
        got = X.canon_real_log(log)
        ctx.case(key=(tuple(ib), tuple(iu), pos, src) if want_prefix else None)
        ctx.count("opaque_prefix_checked")
        if not (rr[0] == "err" and rr[1].startswith("compile:")) and got[:len(want_prefix)] != want_prefix:
            ctx.reject(dict(case, want_prefix=repr(want_prefix)[:500], got=repr(got)[:500]),
                       f"an intercepted operator application did not reach the hook: predicted first {len(want_prefix)} applications, observed {len(got)}",
                       "C20:" + pos + ":" + ",".join(ib + iu) + ":" + src)
        else:
            ctx.validated()
        return
    want_log = [ev for ev in X.canon_log(f["SL"]) if ev[0] != "call"]
    st = X.canon_text(f["ST"])
    log = []
    kind = ENV_KINDS[ds % len(ENV_KINDS)]
    env = make_env(ib, iu, log, kind, newstyle=pos != "trans-old")
    data = X.make_data(random.Random(ds), [])
    tsrc = template_for(pos, src)
    rr = render_pos(env, pos, src, data)
    if pos == "trans-old":
        # old-style gettext: the extension itself formats the message with a synthesised `message % {variables}` node, which is
        # routed like a written one when % is intercepted (the conservative choice: it is the operator a sandbox intercepts
        # to control formatting).  Exactly one such application, after the written ones, iff % is intercepted and no error.
        fmt = [ev for ev in log if ev[0] == "bin" and ev[1] == "%" and ev[2] == TRANS_MSG]
        log[:] = [ev for ev in log if not (ev[0] == "bin" and ev[1] == "%" and ev[2] == TRANS_MSG)]
        if len(fmt) != (1 if "mod" in ib and rr[0] == "ok" else 0) and not (rr[0] == "err" and len(fmt) <= 1):
            ctx.reject(dict(case, formatting=repr(fmt)[:300]), f"old-style trans block: {len(fmt)} formatting applications routed, % intercepted: {'mod' in ib}",
                       "C20:trans-old-format:" + ",".join(ib + iu) + ":" + src)
    got = [ev for ev in X.canon_real_log(log)]
    ctx.case(sample={"template": tsrc, "intercepted": ib + iu, "hook_log": f["SL"][:200], "text": repr(rr)} if want_log and len(src) > 20 else None,
             key=(tuple(ib), tuple(iu), pos, src) if want_log else None)
    ctx.count("pos_" + pos)
    ctx.count("env_" + kind)
    ctx.count("subset_size_%d" % (len(ib) + len(iu)))
    ok = True
    sig = "C20:" + pos + ":" + ",".join(ib + iu) + ":" + src
    if rr[0] == "err" and rr[1].startswith("compile:"):
        ctx.reject(dict(case, real=repr(rr)), "template does not compile: " + rr[1], sig)
        return
    if got != want_log:
        ok = False
        missing = [x for x in want_log if x not in got]
        extra = [x for x in got if x not in want_log]
        what = ("an intercepted operator application did not reach the hook" if missing else
                "the hook saw an application that the documented evaluation does not make" if extra else
                "hook applications in a different order")
        ctx.reject(dict(case, want=repr(want_log)[:600], got=repr(got)[:600]), what + f": predicted {len(want_log)} applications, observed {len(got)}", sig)
    if pos in ("print", "set", "macro-default", "filter-arg", "with", "callblock", "import", "include", "extends", "trans", "trans-count", "trans-old"):
        exp = st
        if pos == "filter-arg" and spec[0] == "ok" and spec[1][0] == "u":
            exp = ("ok", "")
        if exp != ("err", "opaque") and rr != exp and not (exp[0] == "err" and rr[0] == "err"):
            ok = False
            ctx.reject(dict(case, want=repr(exp), got=repr(rr)), f"rendered result {rr!r} is not the hooks' result {exp!r}", sig)
    # ---- K-gen (print position)
    if pos == "print" and kind in ("class", "instance", "immutable", "table") and fold_line.endswith("O 0") and "(F " not in fold_line:
        real_code = X.real_output_code(env, tsrc)
        if gen_line.startswith("C "):
            m = ("C", X.canon_text("ok " + gen_line[2:])[1])
        else:
            m = ("X", X.norm_py(gen_line[2:]))
        if real_code != m and not X.constant_text_agrees(fold_line, gen_line, real_code):
            ok = False
            ctx.model_mismatch("K-gen sandbox routing", dict(case, kind="gen"), repr(m)[:500], repr(real_code)[:500], None)
    if ok:
        ctx.validated()


def lines_for(e, ds, ib, iu):
    cfg = X.model_cfg("sandbox", ib=ib, iu=iu, pert=True)
    sx = X.enc_expr(e)
    data = X.make_data(random.Random(ds), [])
    return [f"eval {cfg} {sx} {X.enc_env(data)}", f"gen {cfg} {sx}", f"fold {cfg} {sx}"]


# ---------------------------------------------------------------- operands of every kind, long-lived environments (oracle only)
class CanonLog(list):
    """hook log that records the operands in canonical form at the moment of the call"""

    def append(self, ev):
        list.append(self, tuple(ev[:2]) + tuple(XR.canon(x) for x in ev[2:]))


def hook_ref(ib, iu, log, is_async=False):
    """the reference evaluator of expr_ref with the documented interception rule: an intercepted operator application
    goes to the hook with its two (one) operand values, its value is the hook's value; nothing else goes to the hook"""
    import jinja2

    class HookRef(XR.Ref):
        def ev(self, e, data):
            if e[0] == "B" and e[1] in ib:
                a = self.ev(e[2], data)
                b = self.ev(e[3], data)
                log.append(("bin", X.BINOPS[e[1]], a, b))
                r = XR.BIN[e[1]](a, b)
                return r + 1000 if type(r) is int else r
            if e[0] == "U" and e[1] in iu:
                a = self.ev(e[2], data)
                log.append(("un", X.UNOPS[e[1]], a))
                r = -a if e[1] == "neg" else +a
                return r + 1000 if type(r) is int else r
            return XR.Ref.ev(self, e, data)

    return HookRef(jinja2.Undefined, sandboxed=True, is_async=is_async)


def run_wild(ctx):
    """one long-lived environment per (kind, intercepted sets), many expressions each: the hook log and the value of the
    n-th expression equal those of the reference (which has no memory); operands are real Python values of every kind"""
    import warnings
    warnings.simplefilter("ignore", SyntaxWarning)
    g = XR.RGen(ctx.rng, pert=True)
    envs = {}
    n = ctx.size(1500, 30000)
    shown = 0
    for i in range(n):
        m = ctx.rng.choice([511, 0, ctx.rng.randrange(512), ctx.rng.randrange(512)])
        ib = [BIN[j] for j in range(7) if m >> j & 1]
        iu = [UN[j] for j in range(2) if m >> (7 + j) & 1]
        kind = ENV_KINDS[i % len(ENV_KINDS)]
        if (kind, m) not in envs:
            log = CanonLog()
            envs[(kind, m)] = (make_env(ib, iu, log, kind), log)
        env, log = envs[(kind, m)]
        e = g.num(ctx.rng.randint(1, 3)) if ctx.rng.random() < 0.7 else g.any(ctx.rng.randint(1, 3))
        src = X.to_src(e)
        seed = ctx.rng.randrange(1 << 30)
        del log[:]
        try:
            if kind == "async":
                t = env.from_string("{% set r = " + src + " %}")
                real = ("ok", XR.canon(X.run_async(t.make_module_async(XR.wild_data(seed, [])) ).r))
            else:
                real = ("ok", XR.canon(env.compile_expression(src, undefined_to_none=False)(**XR.wild_data(seed, []))))
        except RecursionError:
            real = ("err", "RecursionError")
        except Exception as ex:
            real = ("err", type(ex).__name__)
        rlog = list(log)
        elog = CanonLog()
        try:
            exp = ("ok", XR.canon(hook_ref(ib, iu, elog, kind == "async").ev(e, XR.wild_data(seed, []))))
        except XR.Unspecified:
            exp, elog = real, rlog                 # the documented semantics leaves this result open
        except RecursionError:
            exp = ("err", "RecursionError")
        except Exception as ex:
            exp = ("err", type(ex).__name__)
        ok = real == exp and rlog == list(elog)
        if not ok and shown < 4:
            shown += 1
            ctx.reject({"kind": "wild", "expr": src, "tree": repr(e), "ib": ib, "iu": iu, "env": kind, "seed": seed, "real": repr((real, rlog))[:500], "expected": repr((exp, list(elog)))[:500]},
                       f"{kind} sandbox intercepting {ib + iu}: {src} -> value {real!r:.200} hook log {rlog!r:.300}; expected value {exp!r:.200} hook log {list(elog)!r:.300}",
                       "C20:wild:" + kind + ":" + src)
        ctx.case(sample={"expr": src, "env": kind, "intercepted": ib + iu, "hook_calls": len(rlog)} if i % 173 == 0 else None,
                 key=("wild", src, seed, m) if rlog else None)
        ctx.count("wild_env_" + kind)
        ctx.count("wild_hook_calls_" + ("0" if not rlog else "1" if len(rlog) == 1 else "2+"))
        if ok:
            ctx.validated()
    ctx.extra["long_lived_environments"] = len(envs)


# ---------------------------------------------------------------- histories (oracle only)
def run_histories(ctx):
    """state that survives a render: the environment's template cache, a loader shared by two environments with different
    intercepted sets, a bytecode cache shared by them.  Every render in a history must give the value and the hook log
    that a fresh environment of the same configuration gives for that template alone."""
    import jinja2
    g = X.EGen(ctx.rng, const_rich=True, arith=True, filters=False)
    g.pert = True
    sync_kinds = [k for k in ENV_KINDS if k != "async"]

    class MemCache(jinja2.BytecodeCache):
        def __init__(self):
            self.d = {}

        def load_bytecode(self, b):
            if b.key in self.d:
                b.bytecode_from_string(self.d[b.key])

        def dump_bytecode(self, b):
            self.d[b.key] = b.bytecode_to_string()

    def render(env, log, name, data):
        del log[:]
        try:
            out = ("ok", env.get_template(name).render(**data))
        except Exception as ex:
            out = ("err", X.err_class(ex))
        return out, X.canon_real_log(log) if not isinstance(log, CanonLog) else list(log)

    # ---- probe of a known finding: one parsed AST compiled by two environments (the optimizer rewrites the AST in place)
    src = "{{ (1 + 2) * x }}"
    la, lb = [], []
    plain, inter = make_env([], [], la, "class"), make_env(["add", "mul"], [], lb, "class")
    ast = inter.parse(src)
    plain.from_string(ast)                      # folds 1 + 2 inside the shared AST
    got = (inter.from_string(ast).render(x=2), X.canon_real_log(lb))
    lc = []
    alone = make_env(["add", "mul"], [], lc, "class")
    want = (alone.from_string(src).render(x=2), X.canon_real_log(lc))
    ctx.case(key=("history", "shared-ast", src))
    ctx.count("history_shared-ast")
    if got != want:
        ctx.reject({"kind": "history", "mode": "shared-ast", "src": src, "after_history": repr(got), "alone": repr(want)},
                   f"an AST compiled first by a non-intercepting environment and then by an intercepting one: {got!r} instead of {want!r}", "C20:shared-ast")
    ctx.validated()
    known_shown = False
    for j in range(ctx.size(120, 1500)):
        files = {"t%d" % k: template_for(POSITIONS[(j + k) % 8], X.to_src(g.gen(ctx.rng.randint(1, 3), "int"))) for k in range(4)}
        files["u"] = "{% include 't0' %}|{% include 't1' %}"
        ms = [ctx.rng.choice([511, ctx.rng.randrange(512)]), ctx.rng.choice([0, ctx.rng.randrange(512)])]
        sets = [([BIN[i] for i in range(7) if m >> i & 1], [UN[i] for i in range(2) if m >> (7 + i) & 1]) for m in ms]
        mode = ("one-env", "shared-loader", "shared-bytecode-cache")[j % 3]
        kind = sync_kinds[j % len(sync_kinds)]
        ds = ctx.rng.randrange(1 << 30)
        loader = jinja2.DictLoader(dict(files))
        bc = MemCache()
        actors = []
        for ib, iu in (sets[:1] if mode == "one-env" else sets):
            log = []
            env = make_env(ib, iu, log, kind)
            env.loader = loader
            if mode == "shared-bytecode-cache":
                env.bytecode_cache = bc
            actors.append((env, log, ib, iu))
        plan = [(ctx.rng.randrange(len(actors)), ctx.rng.choice(list(files))) for _ in range(ctx.rng.randint(3, 8))]
        ok = True
        for step, (a, name) in enumerate(plan):
            env, log, ib, iu = actors[a]
            got = render(env, log, name, X.make_data(random.Random(ds), []))
            flog = []
            fenv = make_env(ib, iu, flog, kind)
            fenv.loader = jinja2.DictLoader(dict(files))
            alone = render(fenv, flog, name, X.make_data(random.Random(ds), []))
            if got != alone:
                ok = False
                if mode == "shared-bytecode-cache":
                    if not known_shown:
                        known_shown = True
                        ctx.reject({"kind": "history", "mode": mode, "plan": plan[:step + 1], "files": files, "sets": sets},
                                   "two sandboxes with different intercepted sets share a bytecode cache: the second runs the first one's code "
                                   f"(template {name}: {got!r:.200} instead of {alone!r:.200})", "C20:shared-bytecode-cache")
                else:
                    ctx.reject({"kind": "history", "mode": mode, "env": kind, "plan": plan[:step + 1], "files": files, "sets": sets, "data_seed": ds,
                                "after_history": repr(got)[:400], "alone": repr(alone)[:400]},
                               f"{mode} ({kind}): template {name} gives {got!r:.250} after {plan[:step]!r} but {alone!r:.250} in a fresh environment",
                               "C20:history:" + mode + ":" + files[name] if name != "u" else "C20:history:" + mode + ":u")
                break
        ctx.case(sample={"mode": mode, "env": kind, "plan": plan} if j % 37 == 0 else None, key=("history", mode, tuple(sorted(files.items())), tuple(plan)))
        ctx.count("history_" + mode)
        if ok or mode == "shared-bytecode-cache":
            ctx.validated()


def run(ctx):
    X.use_jinja()
    ctx.extra["rule"] = RULE
    ctx.assumptions += [
        "hooks are functions of (operator, operands) (hook_bin / hook_un are arbitrary functions in the theorems; the harness uses the recording +1000 hook)",
        "statement positions (macro default, set, if, loop filter, filter argument) evaluate the expression once through the same expression code path (checked by the oracle on the real engine, not modelled as statements)",
    ]
    ctx.proof("C20")
    depth = ctx.size(4, 5)
    subsets = []
    for m in range(512):
        subsets.append(([BIN[i] for i in range(7) if m >> i & 1], [UN[i] for i in range(2) if m >> (7 + i) & 1]))
    extra = ctx.size(900, 20000)
    g1 = X.EGen(ctx.rng, arith=True, filters=False)
    g2 = X.EGen(ctx.rng, const_rich=True, arith=True, filters=False)
    g1.pert = g2.pert = True            # hook results are value + 1000: exponents and repetition counts grow with them
    fixed = [("B", "add", ("C", 1), ("B", "mul", ("C", 2), ("C", 3))), ("U", "neg", ("C", 5)), ("U", "neg", ("U", "pos", ("N", "i0"))),
             ("B", "pow", ("B", "pow", ("C", 2), ("C", 3)), ("C", 2)), ("B", "sub", ("B", "floordiv", ("C", 7), ("C", 2)), ("B", "mod", ("C", 7), ("C", 2))),
             ("B", "add", ("C", "a"), ("C", "b")), ("B", "mul", ("C", "ab"), ("C", 2)), ("?", ("C", True), ("B", "add", ("C", 1), ("C", 1)), ("B", "sub", ("C", 1), ("C", 1))),
             ("&", ("C", 0), ("B", "add", ("C", 1), ("C", 1))), ("cmp", ("B", "add", ("C", 1), ("C", 1)), [("lt", ("B", "mul", ("C", 2), ("C", 2)))]),
             ("B", "div", ("C", 1), ("C", 0)), ("B", "add", ("N", "u0"), ("C", 1)),
             # every operand type an operator accepts, constant on both sides
             ("B", "mod", ("C", "%s-%s"), ("T", [("C", 1), ("C", 2)])), ("B", "mod", ("C", "%05d"), ("C", 42)), ("B", "mod", ("C", "a%sb"), ("C", "x")),
             ("B", "mod", ("F", ("C", "<%s>"), "safe", []), ("C", "<")), ("B", "mod", ("C", "%s"), ("N", "i0")), ("B", "mod", ("N", "s0"), ("C", 1)),
             ("B", "add", ("L", [("C", 1)]), ("L", [("C", 2)])), ("B", "add", ("T", [("C", 1)]), ("T", [("C", 2)])), ("B", "add", ("F", ("C", "<"), "safe", []), ("C", ">")),
             ("B", "mul", ("C", 2), ("C", "ab")), ("B", "mul", ("L", [("C", 1)]), ("C", 2)), ("B", "mul", ("F", ("C", "<"), "safe", []), ("C", 2)),
             ("B", "sub", ("C", "a"), ("C", 1)), ("B", "pow", ("C", 2), ("C", "a")), ("B", "floordiv", ("C", 7), ("C", 0)), ("U", "neg", ("C", "a")), ("U", "pos", ("C", True)),
             ("F", ("N", "u0"), "default", [("B", "mod", ("C", "%s!"), ("C", 1))]), ("~", [("B", "mod", ("C", "%d"), ("C", 3)), ("B", "mul", ("C", "-"), ("C", 3))])]
    cases = []
    k = 0
    for ib, iu in subsets:
        e = (g1 if k % 2 else g2).gen(ctx.rng.randint(2, depth), "int")
        cases.append((e, ctx.rng.randrange(1 << 30), ib, iu, POSITIONS[k % len(POSITIONS)]))
        k += 1
    for _ in range(extra):
        ib, iu = subsets[ctx.rng.randrange(512)]
        e = (g1 if k % 2 else g2).gen(ctx.rng.randint(1, depth), ctx.rng.choice(["int", "int", "str", "bool", "any"]))
        cases.append((e, ctx.rng.randrange(1 << 30), ib, iu, POSITIONS[k % len(POSITIONS)]))
        k += 1
    for e in fixed:
        for ib, iu in (subsets[511], subsets[0], subsets[1], subsets[0b100000100]):
            for pos in POSITIONS:
                cases.append((e, 77, ib, iu, pos))
    lines = []
    for e, ds, ib, iu, pos in cases:
        lines += lines_for(e, ds, ib, iu)
    outs = ctx.driver("expr", lines)
    for i, (e, ds, ib, iu, pos) in enumerate(cases):
        o = outs[3 * i:3 * i + 3]
        if any(x.startswith("BAD") for x in o):
            raise RuntimeError("driver rejected: " + repr(o))
        X.guarded(ctx, one_case, ctx, e, ds, ib, iu, pos, *o)
    run_wild(ctx)
    run_histories(ctx)
    ctx.extra["subsets_covered"] = len({(tuple(ib), tuple(iu)) for _, _, ib, iu, _ in cases})


def replay(ctx, data):
    X.use_jinja()
    case = data.get("case")
    if data.get("kind") != "failing-input" or case is None:
        print("replay: names a broken theorem/correspondence:", data.get("broken"))
        return run(ctx)
    e = eval(case["tree"], {"Markup": X._markup()})
    o = ctx.driver("expr", lines_for(e, case["data_seed"], case["ib"], case["iu"]))
    for ln in o:
        print("model:", ln[:400])
    one_case(ctx, e, case["data_seed"], case["ib"], case["iu"], case["position"], *o)
