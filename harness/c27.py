"""C27 — the bytecode cache never yields stale code and tolerates interrupted writes.

proof:  Properties/C27.v (load_total for every byte string, load_truncated for every truncation offset,
        atomic_replace for every crash / fault point, never_stale_partial for one option set,
        never_stale_refuted for two) + the regenerated obligation build/C27/Gen_bc_handlers.v (handler table of
        Bucket.load_bytecode re-read from bccache.py by gen/bc_handlers.py; pickle_table_ok / marshal_table_ok by
        vm_compute)
tie  :  K-rt  extracted Model.Bc == the real classes:
          Bucket.load_bytecode on every truncation offset of real entries, stale checksum, foreign magic, corrupt
            pickles (through bytecode_from_string, FileSystemBytecodeCache files, a truncating memcached client);
            the outcome of pickle.load / marshal.load on each blob is MEASURED on CPython (laws probed), the
            decision magic / checksum / handler table is the model's;
          FileSystemBytecodeCache.dump_bytecode killed (os._exit) or failed (OSError) at every point by wrapping
            tempfile.NamedTemporaryFile, the file's write and os.replace inside a child process — no source hook;
          histories of load / modify / clear across two environments sharing one cache directory.
oracle: load never raises and yields code only for a complete current entry; after any crash the entry at the
        real name is the old or the new complete entry and a fresh environment renders the current source; every
        load renders what compiling the current source with the loading environment's options renders.
"""
import io
import itertools
import json
import marshal
import os
import pickle
import shutil
import subprocess
import sys

from . import lib

RULE = ("entries: 3 real cache entries (different sources / environments); every truncation offset of each, plus stale "
        "checksum, 5 hand-made foreign magics, entries WRITTEN BY THE CODE UNDER TEST under 5 (thorough 9) simulated other interpreters (child "
        "process with sys.version_info / hexversion replaced before jinja2 is imported; control: the same under this version must "
        "hit), 12 corrupt pickles, corrupt marshal parts, bit flips, empty input; each through Bucket.bytecode_from_string and a "
        "subset through FileSystemBytecodeCache files and a truncating memcached client.  crash points: before / after "
        "temp-file creation, after each write, before / after os.replace, as kill and as OSError, with and without an "
        "older entry at the real name.  histories: all sequences up to length L over {load by env0, load by env1, modify "
        "source (2 versions), clear} for 13 pairs of option sets (equal, autoescape, trim_blocks, sandbox, async, lstrip_blocks, keep_trailing_newline, native vs regular environment).  distinct = "
        "(kind, parameters); non-trivial = truncation inside the pickled checksum or the code, a crash after at least "
        "one write, or a history in which the second environment loads after the first.")

TAGS = {"EOFError": 0, "ValueError": 1, "TypeError": 2, "UnpicklingError": 3, "AttributeError": 4, "ImportError": 5,
        "IndexError": 6, "KeyError": 7, "UnicodeDecodeError": 8, "MemoryError": 9, "OverflowError": 10}
HNAMES = {"HBaseException": "B", "HException": "X", "HLookupError": "K", "HArithmeticError": "A",
          "HClass EEOF": "0", "HClass EValue": "1", "HClass EType": "2", "HClass EUnpickling": "3", "HClass EAttribute": "4",
          "HClass EImport": "5", "HClass EIndex": "6", "HClass EKey": "7", "HClass EUnicodeDecode": "8", "HClass EMemory": "9",
          "HClass EOverflow": "10"}
SHARED_SIG = "C27:two-environments-with-different-compile-options-share-a-bytecode-cache"


def exc_tag(e):
    for cls in type(e).__mro__:
        if cls.__name__ == "UnicodeDecodeError":
            return 8
        if cls.__name__ == "ModuleNotFoundError":
            return 5
        if cls.__name__ in TAGS:
            return TAGS[cls.__name__]
    return 11 if isinstance(e, Exception) else 12


def ints(b):
    return ",".join(str(x) for x in b) if b else "-"


# ------------------------------------------------------------------------------------------- regenerated table
def regen_table(ctx):
    path = os.path.join(lib.SRC, "jinja2", "bccache.py")
    p = subprocess.run([sys.executable, os.path.join(lib.ROOT, "gen", "bc_handlers.py"), path], capture_output=True, text=True)
    if p.returncode != 0:
        ctx.broken.append("translator gen/bc_handlers.py failed: " + p.stderr.strip()[-200:])
        ctx.obligations += 2
        return None
    text = p.stdout
    last = [l for l in text.splitlines() if l.startswith("(* TABLE")][-1]
    parts = dict(x.split("=") for x in last[3:-2].split()[1:])
    tok = lambda s: "-" if s == "-" else ",".join(HNAMES[c.replace("_", " ")] for c in s.split(","))
    ok, _ = ctx.coq_obligation("Gen_bc_handlers", text, n_obligations=2)
    ctx.extra["handler_table"] = parts
    return tok(parts["pickle"]), tok(parts["marshal"])


# ------------------------------------------------------------------------------------------- load_bytecode
def measure(blob_after_magic):
    """outcome of CPython's pickle.load, then marshal.load, on the bytes after the magic (the laws' probe)"""
    f = io.BytesIO(blob_after_magic)
    try:
        ck = pickle.load(f)
    except BaseException as e:  # noqa
        return ("pexn", exc_tag(e), type(e).__name__)
    rest = f.read()
    try:
        code = marshal.loads(rest)
    except BaseException as e:  # noqa
        return ("mexn", ck, exc_tag(e), type(e).__name__)
    return ("ok", ck, code)


def toy_case(magic, blob, want):
    """translate a real blob into the toy framing, preserving the measured outcomes"""
    n = len(magic)
    head = list(blob[:n])
    if blob[:n] != magic:
        return head + [0], None
    m = measure(blob[n:])
    if m[0] == "pexn":
        return head + ([100 + m[1]] if m[1] != 0 else []), m
    ckid = 5 if m[1] == want else 6
    if m[0] == "mexn":
        tail = {0: [], 1: [121], 2: [122]}.get(m[2], [130 + m[2]])
        return head + [200, ckid, 201] + tail, m
    return head + [200, ckid, 201, 210, 9, 211], m


def real_load(Bucket, env, blob, want, via, tmpdir, bccache):
    b = Bucket(env, "k" * 8, want)
    try:
        if via == "string":
            b.bytecode_from_string(blob)
        elif via == "file":
            fc = bccache.FileSystemBytecodeCache(tmpdir)
            with open(fc._get_cache_filename(b), "wb") as f:
                f.write(blob)
            fc.load_bytecode(b)
        else:
            class Client:
                def get(self, key):
                    return blob

                def set(self, *a):
                    pass
            bccache.MemcachedBytecodeCache(Client()).load_bytecode(b)
    except BaseException as e:  # noqa
        return f"R{exc_tag(e)}", type(e).__name__, None
    return ("M", None, None) if b.code is None else ("H9", None, b.code)


def load_entries(jinja2):
    """the three real cache entries: (env, source, wanted checksum, entry bytes, marshalled code, pickled checksum)"""
    from jinja2 import bccache
    from jinja2.bccache import Bucket, bc_magic
    from jinja2.sandbox import SandboxedEnvironment
    envs = [jinja2.Environment(), jinja2.Environment(autoescape=True, trim_blocks=True), SandboxedEnvironment()]
    srcs = ["{{ x }} hello", "{% for i in range(3) %}{{ i }}{% endfor %}{{ x|upper }}", "{% macro m(a) %}[{{ a }}]{% endmacro %}{{ m(x) }}"]
    out = []
    for env, s in zip(envs, srcs):
        want = bccache.BytecodeCache().get_source_checksum(s)
        code = env.compile(s, "t", "t.html")
        b = Bucket(env, "k", want)
        b.code = code
        data = b.bytecode_to_string()
        cb = marshal.dumps(code)
        pk = pickle.dumps(want, 2)
        assert data == bc_magic + pk + cb
        out.append((env, s, want, data, cb, pk))
    return out


def flip_positions(rng, entry_len, start, n):
    return sorted({(rng.randrange(start, entry_len), rng.randrange(8)) for _ in range(n)})


def flip_child():
    """child process: load bit-flipped entries (marshal is not hardened against corrupt data; a crash of the
    interpreter must not take the check down).  argv: entry index, then pos.bit ...; one JSON line per blob."""
    jinja2 = lib.use_repo_jinja()
    from jinja2 import bccache
    from jinja2.bccache import Bucket, bc_magic
    i = int(sys.argv[1])
    env, s, want, data, cb, pk = load_entries(jinja2)[i]
    for tok in sys.argv[2:]:
        pos, bit = (int(x) for x in tok.split("."))
        blob = bytearray(data)
        blob[pos] ^= 1 << bit
        blob = bytes(blob)
        toy, m = toy_case(bc_magic, blob, want)
        impl, exname, code = real_load(Bucket, env, blob, want, "string", None, bccache)
        print(json.dumps({"pos": pos, "bit": bit, "toy": toy, "m": None if m is None else [m[0], m[-1] if m[0] != "ok" else "", m[2] if m[0] == "mexn" else (m[1] if m[0] == "pexn" else 0)],
                          "impl": impl, "exname": exname}), flush=True)


def run_flips(ctx, jinja2, table, only=None):
    """bit flips (not only truncations) in the pickled checksum and the marshalled code: exercises the ValueError /
    TypeError arms of the marshal handler and the non-EOF arms of the pickle handler"""
    from jinja2.bccache import bc_magic
    entries = load_entries(jinja2)
    for i, (env, s, want, data, cb, pk) in enumerate(entries):
        if only is not None:
            if only.get("entry") != i:
                continue
            toks = [f"{only['pos']}.{only['bit']}"]
        else:
            toks = [f"{p}.{b}" for p, b in flip_positions(ctx.rng, len(data), len(bc_magic), ctx.size(30, 250))]
        p = subprocess.run([lib.PY, "-c", "from harness import c27; c27.flip_child()", str(i)] + toks, capture_output=True, text=True,
                           env=dict(lib.IMPL_ENV, PYTHONPATH=lib.SRC + ":" + lib.ROOT), timeout=600, cwd=lib.ROOT)
        rows = [json.loads(l) for l in p.stdout.splitlines() if l.startswith("{")]
        if p.returncode != 0:
            ctx.notes.append(f"bit-flip child for entry {i} ended with rc={p.returncode} after {len(rows)} of {len(toks)} blobs "
                             f"(marshal is not hardened against corrupt data): {p.stderr[-200:]}")
        model = ctx.driver("bc", [f"L {table[0]} {table[1]} 5 {ints(bc_magic)} {ints(r['toy'])}" for r in rows]) if table and rows else [None] * len(rows)
        for r, mo in zip(rows, model):
            case = {"kind": "flip", "entry": i, "pos": r["pos"], "bit": r["bit"]}
            seg = "pickle" if r["pos"] < len(bc_magic) + len(pk) else "marshal"
            arm = (r["m"][1] if r["m"] and r["m"][0] != "ok" else "ok")
            ctx.case(sample=dict(case, outcome=arm, result=r["impl"]) if arm in ("ValueError", "TypeError") and len(ctx.samples) < 6 else None,
                     key=("flip", i, r["pos"], r["bit"]))
            ctx.count(f"flip_{seg}_{arm}")
            if only is not None:
                print("codec outcome:", r["m"], "\nmodel:", mo, "\nimpl :", r["impl"], r["exname"])
            if r["m"] and r["m"][0] == "mexn" and r["m"][2] not in (0, 1, 2):
                # arbitrary corruption is outside the property's quantifier (truncated / foreign / stale entries) and
                # outside the law marshal_raises: CPython's marshal answers some corrupt inputs with SystemError or a
                # crash of the interpreter.  Counted, named in the evidence, not judged.
                ctx.count("flip_outside_marshal_law")
                ctx.extra.setdefault("marshal_law_exceptions_on_bit_flips", {}).setdefault(r["m"][1], 0)
                ctx.extra["marshal_law_exceptions_on_bit_flips"][r["m"][1]] += 1
                continue
            if r["impl"].startswith("R"):
                ctx.reject(case, f"load_bytecode raised {r['exname']} on an entry with bit {r['bit']} of byte {r['pos']} flipped ({seg} segment)",
                           f"C27:load-raises:{seg}-segment")
            elif mo is not None and r["impl"] != mo:
                ctx.model_mismatch("K-rt Bucket.load_bytecode (bit flips)", case, mo, r["impl"], None)
            else:
                ctx.validated()


def run_load(ctx, jinja2, table, only=None):
    from jinja2 import bccache
    from jinja2.bccache import Bucket, bc_magic
    from jinja2.sandbox import SandboxedEnvironment
    tmpdir = os.path.join(ctx.bdir, "loadfiles")
    shutil.rmtree(tmpdir, ignore_errors=True)
    os.makedirs(tmpdir)
    cases = []     # (label, blob, want, is_complete_current, env, code_bytes, via, entry index)
    for ei, (env, src_text, want, data, cb, pk) in enumerate(load_entries(jinja2)):
        for k in range(len(data) + 1):
            vias = ["string"] + (["file", "memcached"] if k % 7 == 0 or k == len(data) or abs(k - len(bc_magic) - len(pk)) <= 1 else [])
            for via in vias:
                cases.append((f"trunc@{k}/{len(data)}", data[:k], want, k == len(data), env, cb, via, ei))
        cases.append(("stale-checksum", data, "0" * 40, False, env, cb, "string", ei))
        cases.append(("stale-checksum", data, "0" * 40, False, env, cb, "file", ei))
        foreign = [b"j2" + pickle.dumps(5, 2) + pickle.dumps((3 << 24) | 11, 2), b"j2" + pickle.dumps(4, 2) + bc_magic[6:],
                   b"x" * len(bc_magic), bc_magic[:-1] + b"\x00", b"J2" + bc_magic[2:]]
        for fm in foreign:
            cases.append(("foreign-magic", fm + pk + cb, want, False, env, cb, "string", ei))
        corrupt = [b"garbage", b"\x80\x02X\xff\xff\xff\x7f", b"\x80\x02.", b"cnonexistent_mod_xyz\nx\n.", b"I1x\n.", b"\x80\x02}q\x00.",
                   b"\x80\x02X\x02\x00\x00\x00\xff\xfeq\x00.", b"0.", b"\x80\x02(.", b"h\x05.", b"\x80\x02K\x01.", b"\x80\x05\x95\xff"]
        for c in corrupt:
            cases.append(("corrupt-pickle", bc_magic + c + cb, want, False, env, cb, "string", ei))
            cases.append(("corrupt-pickle", bc_magic + c + cb, want, False, env, cb, "memcached", ei))
        for cm in (b"<\x01\x00\x00\x00[\x00\x00\x00\x00", b"?", b"\xff\xff", b"(\x02\x00\x00\x00N", b"s\xff\xff\xff\x7fab"):
            cases.append(("corrupt-marshal", bc_magic + pk + cm, want, False, env, cb, "string", ei))
            cases.append(("corrupt-marshal", bc_magic + pk + cm, want, False, env, cb, "file", ei))
        cases.append(("empty", b"", want, False, env, cb, "string", ei))
    if only is not None:
        cases = [c for c in cases if (c[7], c[0], c[6]) == (only.get("entry"), only.get("label"), only.get("via"))]
    lines, metas = [], []
    for label, blob, want, complete, env, cb, via, ei in cases:
        toy, m = toy_case(bc_magic, blob, want)
        metas.append(m)
        lines.append(f"L {table[0]} {table[1]} 5 {ints(bc_magic)} {ints(toy)}" if table else "")
    model = ctx.driver("bc", lines) if table else [None] * len(cases)
    for (label, blob, want, complete, env, cb, via, ei), m, mo in zip(cases, metas, model):
        impl, exname, code = real_load(Bucket, env, blob, want, via, tmpdir, bccache)
        n = len(bc_magic)
        inside = label.startswith("trunc") and n <= len(blob) < n + 50 + len(cb)
        case = {"kind": "load", "entry": ei, "label": label, "via": via, "len": len(blob), "blob_hex": blob[:120].hex()}
        if only is not None:
            print("codec outcome:", None if m is None else (m[0], m[-1] if m[0] != "ok" else ""), "\nmodel:", mo, "\nimpl :", impl, exname)
        ctx.case(sample=dict(case, result=impl) if label == "trunc@40/" + label.split("/")[-1] else None,
                 key=("load", label, via, env.autoescape) if (inside or not label.startswith("trunc")) else None)
        ctx.count("load_" + label.split("@")[0])
        # laws of CPython assumed by the theorems
        if m and m[0] == "mexn" and m[2] not in (0, 1, 2):
            ctx.broken.append(f"law probe: marshal.loads raised {m[3]} (not EOFError/ValueError/TypeError) on {label}")
        if m and m[0] == "pexn" and m[1] == 12:
            ctx.broken.append(f"law probe: pickle.load raised a non-Exception {m[2]} on {label}")
        of = None
        if impl.startswith("R"):
            seg = "inside the pickled checksum" if (m and m[0] == "pexn") else "inside the marshalled code" if (m and m[0] == "mexn") else ""
            of = f"load_bytecode raised {exname} on {label} {seg}".strip()
            sig = f"C27:load-raises:{'pickle' if (m and m[0] == 'pexn') else 'marshal'}-segment"
        elif impl == "H9" and not complete:
            of, sig = f"load_bytecode produced code from {label}", "C27:load-hits-incomplete-entry"
        elif impl == "H9" and marshal.dumps(code) != cb:
            of, sig = "load_bytecode produced different code than was stored", "C27:load-wrong-code"
        elif impl == "M" and complete:
            of, sig = "a complete current entry was not used", "C27:complete-entry-missed"
        if of:
            ctx.reject(case, of, sig)
        elif mo is not None and impl != mo:
            ctx.model_mismatch("K-rt Bucket.load_bytecode", case, mo, impl, None)
        else:
            ctx.validated()
    shutil.rmtree(tmpdir, ignore_errors=True)


# ------------------------------------------------------------------------------------------- crash points
CHILD = r'''
import json, os, sys, tempfile
mode, point, cachedir, src = sys.argv[1], int(sys.argv[2]), sys.argv[3], sys.argv[4]
import jinja2
from jinja2.bccache import FileSystemBytecodeCache
st = {"n": 0, "labels": [], "chunks": []}
def hit(label):
    k = st["n"]; st["n"] += 1; st["labels"].append(label)
    if k == point:
        if mode == "crash":
            sys.stdout.flush(); os._exit(9)
        raise OSError("injected fault at " + label)
real_ntf, real_replace = tempfile.NamedTemporaryFile, os.replace
class W:
    def __init__(self, f): self._f = f; self.name = f.name
    def write(self, b):
        r = self._f.write(b); self._f.flush(); st["chunks"].append(len(b)); hit("after-write"); return r
    def __enter__(self): self._f.__enter__(); return self
    def __exit__(self, *a): return self._f.__exit__(*a)
    def __getattr__(self, k): return getattr(self._f, k)
def ntf(*a, **kw):
    hit("before-create")
    f = real_ntf(*a, **kw)
    if mode == "crash": hit("after-create")
    else: st["n"] += 1; st["labels"].append("after-create")
    return W(f)
def repl(a, b):
    hit("before-replace")
    real_replace(a, b)
    if mode == "crash": hit("after-replace")
    else: st["n"] += 1; st["labels"].append("after-replace")
tempfile.NamedTemporaryFile = ntf
os.replace = repl
import marshal as _marshal, types as _types, jinja2.bccache as _bcc
def _dump(code, f, *a):
    f.flush(); hit("before-marshal-dump"); return _marshal.dump(code, f, *a)
_bcc.marshal = _types.SimpleNamespace(dump=_dump, load=_marshal.load, loads=_marshal.loads, dumps=_marshal.dumps)
env = jinja2.Environment(loader=jinja2.DictLoader({"t": src}), bytecode_cache=FileSystemBytecodeCache(cachedir), cache_size=0)
try:
    out = env.get_template("t").render(x="<b>")
    print(json.dumps({"ok": out, "labels": st["labels"], "chunks": st["chunks"]}))
except OSError as e:
    print(json.dumps({"oserror": str(e), "labels": st["labels"], "chunks": st["chunks"]}))
except BaseException as e:
    print(json.dumps({"error": type(e).__name__ + ": " + str(e), "labels": st["labels"], "chunks": st["chunks"]}))
'''


def child(mode, point, cachedir, src):
    p = subprocess.run([lib.PY, "-c", CHILD, mode, str(point), cachedir, src], capture_output=True, text=True,
                       env=lib.IMPL_ENV, timeout=120)
    out = p.stdout.strip().splitlines()
    return p.returncode, (json.loads(out[-1]) if out else None), p.stderr[-300:]


def dir_state(cachedir):
    real, tmps = None, []
    for f in sorted(os.listdir(cachedir)):
        data = open(os.path.join(cachedir, f), "rb").read()
        if f.endswith(".cache"):
            real = data
        else:
            tmps.append(data)
    return real, tmps


def run_crash(ctx, jinja2, only=None):
    from jinja2.bccache import FileSystemBytecodeCache
    base = os.path.join(ctx.bdir, "crash")
    shutil.rmtree(base, ignore_errors=True)
    v1, v2 = "v1 {{ x }}", "v2 {{ x }}{% for i in range(2) %}{{ i }}{% endfor %}"
    ref = {}
    for name, s in (("v1", v1), ("v2", v2)):
        d = os.path.join(base, "ref_" + name)
        os.makedirs(d)
        rc, info, err = child("none", -1, d, s)
        if rc != 0 or not info or "ok" not in info:
            raise RuntimeError(f"reference child failed: {rc} {info} {err}")
        ref[name] = (dir_state(d)[0], info)
    new_bytes, info = ref["v2"]
    labels, chunks = info["labels"], info["chunks"]
    nwrites = len(chunks)
    protocol_ok = (sum(chunks) == len(new_bytes) and labels[:2] == ["before-create", "after-create"]
                   and labels[-2:] == ["before-replace", "after-replace"])
    if not protocol_ok:
        ctx.broken.append("K-rt dump_bytecode: the write path no longer is temp file / writes / os.replace "
                          f"(observed call points {labels})")
    bounds = list(itertools.accumulate(chunks))
    for with_old in (False, True):
        for mode in ("crash", "fault"):
            if ctx.tier == "quick" and mode == "fault" and with_old and only is None:
                continue                     # quick: faults with an older entry present only in the thorough tier
            for point, label in enumerate(labels):
                if mode == "fault" and label in ("after-create", "after-replace"):
                    continue
                if only is not None and (only.get("mode"), only.get("point"), bool(only.get("old_entry"))) != (mode, point, with_old):
                    continue
                d = os.path.join(base, f"{mode}_{int(with_old)}_{point}")
                os.makedirs(d)
                if with_old:
                    child("none", -1, d, v1)
                    old = dir_state(d)[0]
                    if old != ref["v1"][0]:
                        ctx.broken.append("entry bytes are not reproducible between processes")
                else:
                    old = None
                rc, cinfo, err = child(mode, point, d, v2)
                real, tmps = dir_state(d)
                # model: steps executed before the injection point
                # model steps done before this point: Create, one per write, Close (before os.replace), Replace
                k = sum(1 for l in labels[:point + 1] if l in ("after-create", "after-write", "before-replace", "after-replace"))
                ml = ctx.driver("bc", [f"W {'c' if mode == 'crash' else 'f'} {k} {'99' if with_old else '~'} {nwrites} " +
                                        " ".join(str(i + 1) for i in range(nwrites))])[0]
                m_real, m_tmp = ml.split(" ")
                full = ",".join(str(i + 1) for i in range(nwrites))
                r_real = "~" if real is None else "99" if real == old else full if real == new_bytes else "partial"
                if not tmps:
                    r_tmp = "~"
                elif len(tmps) == 1 and len(tmps[0]) in [0] + bounds and new_bytes.startswith(tmps[0]):
                    j = ([0] + bounds).index(len(tmps[0]))
                    r_tmp = ",".join(str(i + 1) for i in range(j)) or "-"
                else:
                    r_tmp = "?"
                case = {"kind": "crash", "mode": mode, "point": point, "label": label, "old_entry": with_old}
                ctx.case(sample=dict(case, real=r_real, tmp=r_tmp) if label == "after-write" and len(ctx.samples) < 5 else None,
                         key=("crash", mode, point, with_old) if label in ("after-write", "before-replace", "after-replace") else None)
                ctx.count(f"{mode}_{label}")
                # oracle: the entry at the real name is old / new / absent, and a fresh environment is fine
                of = None
                if r_real == "partial":
                    of = "a partial entry is at the real cache file name"
                elif real is None and with_old:
                    of = "the old entry disappeared"
                if mode == "crash" and rc != 9 and label != "none":
                    of = of or f"child did not die at the injection point (rc={rc}, {cinfo}, {err})"
                if mode == "fault":
                    if label == "before-replace":
                        if not cinfo or "ok" not in cinfo:
                            of = of or f"an OSError from os.replace was not tolerated: {cinfo}"
                    elif not cinfo or "oserror" not in cinfo:
                        of = of or f"a failed write was not reported as OSError: {cinfo} {err}"
                    if tmps and label != "before-create":
                        of = of or "the temp file was left behind after a failed write"
                try:
                    env = jinja2.Environment(loader=jinja2.DictLoader({"t": v2}), bytecode_cache=FileSystemBytecodeCache(d), cache_size=0)
                    out = env.get_template("t").render(x="<b>")
                    if out != "v2 <b>01":
                        of = of or f"after the interrupted write a fresh environment rendered {out!r}"
                except Exception as e:  # noqa
                    of = of or f"after the interrupted write get_template raised {type(e).__name__}: {e}"
                if only is not None:
                    print("model (real name, temp file):", ml, "\nimpl :", r_real, r_tmp, "\nchild:", rc, cinfo, "\noracle:", of)
                if of:
                    ctx.reject(case, of, f"C27:crash:{mode}:{label}")
                elif protocol_ok and (r_real, r_tmp) != (m_real, m_tmp):
                    ctx.model_mismatch("K-rt FileSystemBytecodeCache.dump_bytecode under fault injection", case, ml, f"{r_real} {r_tmp}", None)
                else:
                    ctx.validated()
    shutil.rmtree(base, ignore_errors=True)


# ------------------------------------------------------------------------------------------- shared cache histories
def make_env(jinja2, oid, loader, bcc):
    from jinja2.sandbox import SandboxedEnvironment
    kw = dict(loader=loader, bytecode_cache=bcc, cache_size=0)
    if oid == 1:
        return jinja2.Environment(autoescape=True, **kw)
    if oid == 2:
        return jinja2.Environment(trim_blocks=True, **kw)
    if oid == 3:
        return SandboxedEnvironment(**kw)
    if oid == 4:
        return jinja2.Environment(enable_async=True, **kw)
    if oid == 5:
        return jinja2.Environment(lstrip_blocks=True, **kw)
    if oid == 6:
        return jinja2.Environment(keep_trailing_newline=True, **kw)
    if oid == 7:
        from jinja2.nativetypes import NativeEnvironment
        return NativeEnvironment(**kw)
    return jinja2.Environment(**kw)


def unsafe():
    return "called"


unsafe.unsafe_callable = True


class Obj:
    """an object with a method marked @unsafe: a sandbox must refuse {{ o.delete() }}"""
    deleted = 0

    def delete(self):
        Obj.deleted += 1
        return "DELETED"
    delete.unsafe_callable = True           # what jinja2.sandbox.unsafe sets


CTX = {"x": "<b>", "f": unsafe, "o": Obj()}


def text_of(s):
    return f"v{s} {{{{ x }}}} {{% if true %}}\n{{% endif %}}|{{{{ f() }}}}|{{{{ o.delete() }}}}\n   {{% if true %}}L{{% endif %}}\n"


def render(t):
    try:
        out = t.render(**CTX)
        return out if isinstance(out, str) else "native:" + repr(out)
    except Exception as e:  # noqa
        return "X:" + type(e).__name__


def run_shared(ctx, jinja2, only=None):
    from jinja2.bccache import FileSystemBytecodeCache
    d = os.path.join(ctx.bdir, "shared")
    L = ctx.size(3, 4)
    ops_alpha = ["l:0:1", "l:1:1", "m:1:8", "m:1:7", "c"]
    # one pair per class of compile-relevant option (Model/BcOpt.v): autoescape, trim_blocks, sandboxed, async, lstrip_blocks,
    # keep_trailing_newline — in both directions where the direction matters
    pairs = [(0, 0), (0, 1), (1, 0), (0, 2), (0, 3), (3, 0), (1, 1), (0, 4), (4, 0), (0, 5), (0, 6), (0, 7), (7, 0)]
    hist = [list(h) for n in range(1, L + 1) for h in itertools.product(ops_alpha, repeat=n)]
    extra = [list(h) for i, h in enumerate(itertools.product(ops_alpha, repeat=L + 1)) if i % 3 == 0] if ctx.tier == "thorough" else \
        [[ctx.rng.choice(ops_alpha) for _ in range(ctx.rng.randint(4, 7))] for _ in range(60)]
    cases = [(p, h) for p in pairs for h in hist] + [(p, h) for p in (((0, 1), (0, 0), (3, 0)) if ctx.tier == "quick" else ((0, 1), (0, 0))) for h in extra]
    # the same histories on the other backends / options: memcached client with a prefix and a timeout ("clear" = the
    # client loses its entries), a FileSystemBytecodeCache with a custom pattern
    backend = ["fs"] * len(cases)
    # both caches composed: every environment also has a small template cache and auto_reload (same option set, so the
    # expected text does not depend on which cache answered)
    hist4 = [list(h) for n in range(1, 5) for h in itertools.product(ops_alpha, repeat=n)]
    tc_cases = [(p, h) for p in (((0, 0),) if ctx.tier == "quick" else ((0, 0), (1, 1))) for h in hist4 if sum(o.startswith("l:") for o in h) >= 2]
    cases += tc_cases
    backend += ["tcache"] * len(tc_cases)
    for bk in ("mem", "fspat", "overlay"):
        # "overlay": the second environment is env0.overlay(autoescape=True), which inherits env0's bytecode_cache
        extra_cases = [(p, h) for p in (((0, 0), (0, 1)) if bk != "overlay" else ((0, 1),)) for h in hist if len(h) <= 3]
        cases += extra_cases
        backend += [bk] * len(extra_cases)
    if only is not None:
        cases = [(tuple(only["options"]), list(only["ops"]))]
        backend = [only.get("backend", "fs")]
    model = ctx.driver("bc", [f"S {p[0]} {p[1]} 7 " + " ".join(h) for p, h in cases])
    refcache = {}

    def reference(s, writer, loader_oid):
        k = (s, writer, loader_oid)
        if k not in refcache:
            wenv = make_env(jinja2, writer, None, None)
            lenv = make_env(jinja2, loader_oid, None, None)
            code = wenv.compile(text_of(s), "t", None)
            refcache[k] = render(lenv.template_class.from_code(lenv, code, lenv.make_globals(None), None))
        return refcache[k]

    from jinja2.bccache import MemcachedBytecodeCache

    class MemClient:
        def __init__(self):
            self.d, self.timeouts = {}, []

        def get(self, key):
            return self.d.get(key)

        def set(self, key, value, timeout=None):
            self.timeouts.append(timeout)
            self.d[key] = value

    for ((p, h), ml), bk in zip(zip(cases, model), backend):
        shutil.rmtree(d, ignore_errors=True)
        os.makedirs(d)
        mapping = {"t": text_of(7)}
        client = MemClient()
        if bk == "mem":
            bcc = MemcachedBytecodeCache(client, prefix="px/", timeout=77)
        elif bk == "fspat":
            bcc = FileSystemBytecodeCache(d, "own-%s.bc")
        else:
            bcc = FileSystemBytecodeCache(d)
        loader = jinja2.DictLoader(mapping)
        envs = [make_env(jinja2, p[0], loader, bcc), make_env(jinja2, p[1], loader, bcc)]
        if bk == "tcache":
            for e_ in envs:
                e_.cache = jinja2.environment.create_cache(1)
                e_.auto_reload = True
        if bk == "overlay":
            envs[1] = envs[0].overlay(autoescape=True)
        cur = 7
        got, fail, expect_model = [], None, []
        for o, mo in zip(h, ml.split(";")):
            q = o.split(":")
            if q[0] == "m":
                cur = int(q[2])
                mapping["t"] = text_of(cur)
                got.append("U")
                expect_model.append("U")
                continue
            if q[0] == "c":
                bcc.clear()
                client.d.clear()
                got.append("U")
                expect_model.append("U")
                continue
            e = int(q[1])
            try:
                out = render(envs[e].get_template("t"))
            except Exception as ex:  # noqa
                out = "G:" + type(ex).__name__
            got.append(out)
            s, w = mo.split(".")
            expect_model.append(reference(int(s), int(w), p[e]))
            want = reference(cur, p[e], p[e])
            if out != want and not fail:
                fail = (f"environment {e} (options {p[e]}) rendered {out!r}; compiling the current source with its own "
                        f"options renders {want!r}")
        case = {"kind": "shared", "options": list(p), "ops": h, "backend": bk}
        if bk == "mem" and not fail:
            if any(not k.startswith("px/") or len(k) != 43 for k in client.d) or any(t != 77 for t in client.timeouts):
                fail = f"memcached keys / timeouts: {sorted(client.d)[:2]} {client.timeouts[:3]} (prefix 'px/', timeout 77 expected)"
        if bk == "fspat" and not fail:
            odd = [f for f in os.listdir(d) if not (f.startswith("own-") and f.endswith(".bc"))]
            if odd:
                fail = f"files not matching the configured pattern in the cache directory: {odd[:3]}"
        second = any(o.startswith("l:1") for o in h[1:]) and h[0].startswith("l:0")
        ctx.case(sample=dict(case, rendered=got) if second and p == (0, 1) and len(ctx.samples) < 6 else None,
                 key=("shared", bk, p, tuple(h)) if second else None)
        ctx.count(f"shared_{bk}_{'same' if p[0] == p[1] else 'different'}_options")
        if only is not None:
            print("model (as text):", expect_model, "\nimpl :", got, "\noracle:", fail)
        if fail:
            ctx.reject(dict(case, rendered=got), fail, SHARED_SIG if p[0] != p[1] else None)
            if got != expect_model:
                ctx.model_mismatch("K-rt BaseLoader.load with a shared bytecode cache", case, expect_model, got, None)
        elif got != expect_model:
            ctx.model_mismatch("K-rt BaseLoader.load with a shared bytecode cache", case, expect_model, got, None)
        else:
            ctx.validated()
    shutil.rmtree(d, ignore_errors=True)


def run_native_pair(ctx, jinja2):
    """NativeEnvironment vs Environment on one cache: native code does not stringify its output nodes"""
    from jinja2.bccache import FileSystemBytecodeCache
    from jinja2.nativetypes import NativeEnvironment
    d = os.path.join(ctx.bdir, "nativepair")
    for first in ("regular", "native"):
        shutil.rmtree(d, ignore_errors=True)
        os.makedirs(d)
        bcc = FileSystemBytecodeCache(d)
        loader = jinja2.DictLoader({"t": "{{ o }}"})
        envs = {"regular": jinja2.Environment(loader=loader, bytecode_cache=bcc, cache_size=0),
                "native": NativeEnvironment(loader=loader, bytecode_cache=bcc, cache_size=0)}
        o = Obj()
        second = "native" if first == "regular" else "regular"
        outs = []
        for k in (first, second):
            try:
                r = envs[k].get_template("t").render(o=o)
                outs.append("object" if r is o else "str" if isinstance(r, str) else type(r).__name__)
            except Exception as e:  # noqa
                outs.append("X:" + type(e).__name__)
        want = ["str", "object"] if first == "regular" else ["object", "str"]
        case = {"kind": "nativepair", "first": first, "rendered": outs}
        ctx.case(key=("nativepair", first))
        ctx.count("shared_native_regular")
        if outs != want:
            ctx.reject(case, f"{first} environment loaded '{{{{ o }}}}' first, then the {second} one through the same cache: results {outs}, each "
                             f"environment's own compilation gives {want}", SHARED_SIG)
        else:
            ctx.validated()
    shutil.rmtree(d, ignore_errors=True)


# ------------------------------------------------------------------------------------------- memcached
def run_memcached(ctx, jinja2, only=None):
    from jinja2.bccache import MemcachedBytecodeCache

    class Boom(Exception):
        pass

    class Client:
        def __init__(self, fail_get=False, fail_set=False, cut=None):
            self.d, self.fail_get, self.fail_set, self.cut = {}, fail_get, fail_set, cut

        def get(self, key):
            if self.fail_get:
                raise Boom()
            v = self.d.get(key)
            return v if v is None or self.cut is None else v[:self.cut]

        def set(self, key, value, timeout=None):
            if self.fail_set:
                raise Boom()
            self.d[key] = value

    src = "{{ x }}|{% for i in range(2) %}{{ i }}{% endfor %}"
    want = "<b>|01"
    good = Client()
    jinja2.Environment(loader=jinja2.DictLoader({"t": src}), bytecode_cache=MemcachedBytecodeCache(good), cache_size=0).get_template("t")
    total = len(next(iter(good.d.values())))
    scen = [("plain", {}, True)] + [(f"cut@{k}", {"cut": k}, True) for k in range(0, total + 1, ctx.size(5, 1))] + \
           [("get-fails", {"fail_get": True}, True), ("set-fails", {"fail_set": True}, True),
            ("get-fails-strict", {"fail_get": True}, False), ("set-fails-strict", {"fail_set": True}, False)]
    for label, kw, ignore in scen:
        if only is not None and only.get("scenario") != label:
            continue
        c = Client(**kw)
        c.d = {} if kw.get("fail_set") else dict(good.d)     # a failing set is only reached on a miss
        env = jinja2.Environment(loader=jinja2.DictLoader({"t": src}), bytecode_cache=MemcachedBytecodeCache(c, ignore_memcache_errors=ignore), cache_size=0)
        try:
            out = env.get_template("t").render(x="<b>")
        except Boom:
            out = "Boom"
        except Exception as e:  # noqa
            out = "X:" + type(e).__name__
        case = {"kind": "memcached", "scenario": label}
        ctx.case(key=("memcached", label) if label.startswith("cut") or "fails" in label else None)
        ctx.count("memcached")
        expect = "Boom" if not ignore else want
        if out != expect:
            ctx.reject(case, f"memcached client scenario {label}: got {out!r}, expected {expect!r}", f"C27:memcached:{label.split('@')[0]}")
        else:
            ctx.validated()


# ------------------------------------------------------------------------------------------- entries of another interpreter
FOREIGN_CHILD = r'''
import sys
# everything jinja2 needs from the standard library is imported under the real interpreter first
import os, re, typing, weakref, pickle, marshal, tempfile, functools, collections, itertools, json, inspect, enum, string, textwrap
import random, logging, importlib.util, zipimport, hashlib, types, numbers, operator, keyword, ast, math, errno, fnmatch, stat, io
import markupsafe
maj, mnr, cachedir, real_src, marker = int(sys.argv[1]), int(sys.argv[2]), sys.argv[3], sys.argv[4], sys.argv[5]
mic = int(sys.argv[6])
class VI(tuple):
    major = property(lambda s: s[0]); minor = property(lambda s: s[1]); micro = property(lambda s: s[2])
    releaselevel = property(lambda s: s[3]); serial = property(lambda s: s[4])
sys.version_info = VI((maj, mnr, mic, "final", 0))
sys.hexversion = (maj << 24) | (mnr << 16) | (mic << 8) | 0xF0
import jinja2
from jinja2.bccache import FileSystemBytecodeCache, Bucket, bc_magic
env = jinja2.Environment()
bcc = FileSystemBytecodeCache(cachedir)
b = Bucket(env, bcc.get_cache_key("t", None), bcc.get_source_checksum(real_src))
b.code = env.compile(marker, "t", None)          # what this "other interpreter" cached for the same name and source
bcc.dump_bytecode(b)
print("MAGIC " + bc_magic.hex())
'''


def run_foreign(ctx, jinja2, table, only=None):
    """entries written by THE CODE UNDER TEST running under a simulated other interpreter (sys.version_info /
    sys.hexversion replaced in a child before jinja2 is imported) must be misses here; the same simulation with this
    interpreter's version must be a hit (the channel works)"""
    from jinja2.bccache import FileSystemBytecodeCache, bc_magic
    real_src, marker = "current source {{ x }}", "BYTECODE-OF-OTHER-INTERPRETER"
    here = (sys.version_info[0], sys.version_info[1])
    mic_here = sys.version_info[2]
    versions = [here, (3, here[1] - 1), (3, here[1] + 1), (3, here[1] + 2), (3, 0), (3, 255 if here[1] != 255 else 254),
                (2, here[1]), (4, here[1]), (4, 0), (2, 7)]
    if ctx.tier == "quick":
        versions = versions[:3] + versions[6:8] + versions[4:5]
    d = os.path.join(ctx.bdir, "foreign")
    for (maj, mnr) in versions:
        if only is not None and only.get("version") != [maj, mnr]:
            continue
        shutil.rmtree(d, ignore_errors=True)
        os.makedirs(d)
        # the other interpreter differs in major / minor ONLY: micro, release level and serial are this interpreter's (a magic
        # built from any other field of sys.version_info would then coincide); the own-version control also runs with
        # another micro, which must still hit
        mic = mic_here if (maj, mnr) != here or only is not None else mic_here + 1
        p = subprocess.run([lib.PY, "-c", FOREIGN_CHILD, str(maj), str(mnr), d, real_src, marker, str(mic)], capture_output=True, text=True,
                           env=lib.IMPL_ENV, timeout=120)
        mg = [l for l in p.stdout.splitlines() if l.startswith("MAGIC ")]
        case = {"kind": "foreign", "version": [maj, mnr]}
        ctx.case(sample=dict(case, magic=mg[0][6:] if mg else None) if (maj, mnr) == (3, here[1] + 1) else None,
                 key=("foreign", maj, mnr))
        ctx.count("foreign_interpreter_same" if (maj, mnr) == here else "foreign_interpreter_other")
        if p.returncode != 0 or not mg:
            ctx.count("foreign_interpreter_simulation_failed")
            ctx.notes.append(f"could not simulate Python {maj}.{mnr}: {p.stderr.strip().splitlines()[-1:]}")
            if (maj, mnr) == here:
                ctx.broken.append("foreign-interpreter channel: the control run under this interpreter's own version failed")
            continue
        their = bytes.fromhex(mg[0][6:])
        env = jinja2.Environment(loader=jinja2.DictLoader({"t": real_src}), bytecode_cache=FileSystemBytecodeCache(d), cache_size=0)
        try:
            out = env.get_template("t").render(x=1)
        except Exception as e:  # noqa
            out = "X:" + type(e).__name__
        impl = "H9" if out == marker else "M" if out == "current source 1" else out
        mo = None
        if table:
            toy = list(their) + [200, 5, 201, 210, 9, 211]
            mo = ctx.driver("bc", [f"L {table[0]} {table[1]} 5 {ints(bc_magic)} {ints(toy)}"])[0]
        if only is not None:
            print("their magic:", their.hex(), "\nour magic  :", bc_magic.hex(), "\nmodel:", mo, "\nimpl :", impl, repr(out))
        if (maj, mnr) == here:
            if impl != "H9":
                ctx.broken.append(f"foreign-interpreter channel: an entry written under this interpreter's own version was not used ({out!r})")
            else:
                ctx.validated()
            continue
        if impl != "M":
            ctx.reject(dict(case, rendered=out), f"an entry written by this jinja under Python {maj}.{mnr} was "
                       f"{'used' if impl == 'H9' else 'not tolerated'} under Python {here[0]}.{here[1]}: rendered {out!r}",
                       "C27:foreign-interpreter-entry-accepted")
        elif mo is not None and mo != impl:
            ctx.model_mismatch("K-rt Bucket.load_bytecode (foreign interpreter)", case, mo, impl, None)
        else:
            ctx.validated()
    shutil.rmtree(d, ignore_errors=True)


# ------------------------------------------------------------------------------------------- constructor options, clear()
def run_options(ctx, jinja2):
    """FileSystemBytecodeCache(directory, pattern) / default directory / clear(); MemcachedBytecodeCache(prefix, timeout,
    ignore_memcache_errors) / clear()"""
    import stat
    import tempfile
    from jinja2.bccache import FileSystemBytecodeCache, MemcachedBytecodeCache
    d = os.path.join(ctx.bdir, "options")
    shutil.rmtree(d, ignore_errors=True)
    os.makedirs(d)
    src = {"t": "{{ x }}|t", "u": "{{ x }}|u"}
    problems = []

    def env_for(bcc, **kw):
        return jinja2.Environment(loader=jinja2.DictLoader(src), bytecode_cache=bcc, cache_size=0, **kw)
    # two caches with different patterns in ONE directory do not share entries; clear() removes only its own files
    a, b = FileSystemBytecodeCache(d, "A_%s.c"), FileSystemBytecodeCache(d, "B_%s.c")
    open(os.path.join(d, "keepme.txt"), "w").write("x")
    open(os.path.join(d, "A_not-a-key"), "w").write("x")
    ea, eb = env_for(a), env_for(b, autoescape=True)
    outs = [ea.get_template("t").render(x="<"), eb.get_template("t").render(x="<"), ea.get_template("u").render(x="<"),
            eb.get_template("t").render(x="<"), ea.get_template("t").render(x="<")]
    if outs != ["<|t", "&lt;|t", "<|u", "&lt;|t", "<|t"]:
        problems.append(f"caches with different patterns in one directory interfere: {outs}")
    files = sorted(os.listdir(d))
    if len([f for f in files if f.startswith("A_") and f.endswith(".c")]) != 2 or len([f for f in files if f.startswith("B_")]) != 1:
        problems.append(f"unexpected cache files {files}")
    a.clear()
    left = sorted(os.listdir(d))
    if [f for f in left if f.startswith("A_") and f.endswith(".c")] or "keepme.txt" not in left or "A_not-a-key" not in left \
            or len([f for f in left if f.startswith("B_")]) != 1:
        problems.append(f"clear() of pattern 'A_%s.c' left / removed the wrong files: {left}")
    if ea.get_template("t").render(x="<") != "<|t" or eb.get_template("t").render(x="<") != "&lt;|t":
        problems.append("rendering after clear() is wrong")
    # something that is not a readable file sits at the cache file's name (a directory): a miss on load, an OSError swallowed
    # on dump (the temp file removed), the template still renders
    d2 = os.path.join(d, "blocked")
    os.makedirs(d2)
    blk = FileSystemBytecodeCache(d2)
    from jinja2.bccache import Bucket
    os.makedirs(blk._get_cache_filename(Bucket(None, blk.get_cache_key("t", None), "")))
    try:
        e = env_for(blk)
        if [e.get_template("t").render(x=1), e.get_template("t").render(x=1)] != ["1|t", "1|t"]:
            problems.append("a directory at the cache file name: wrong rendering")
        if [f for f in os.listdir(d2) if f.endswith(".tmp")]:
            problems.append("a directory at the cache file name: temp file left behind")
    except Exception as ex:  # noqa
        problems.append(f"a directory at the cache file name makes get_template raise {type(ex).__name__}: {ex}")
    # the default directory (tempfile.gettempdir() redirected into build/): created private, usable
    old_tmp = tempfile.tempdir
    tempfile.tempdir = d
    try:
        dflt = FileSystemBytecodeCache()
        mode = stat.S_IMODE(os.lstat(dflt.directory).st_mode)
        if os.path.dirname(dflt.directory) != d or mode != stat.S_IRWXU:
            problems.append(f"default cache directory {dflt.directory} mode {oct(mode)}")
        e = env_for(dflt)
        if [e.get_template("t").render(x=1), e.get_template("t").render(x=1)] != ["1|t", "1|t"] or not os.listdir(dflt.directory):
            problems.append("default cache directory not used")
        FileSystemBytecodeCache()          # a second instance must accept the existing directory
    except Exception as ex:  # noqa
        problems.append(f"default directory: {type(ex).__name__}: {ex}")
    finally:
        tempfile.tempdir = old_tmp
    # memcached: clear() is documented as a no-op; timeout None means set(key, value) without a third argument
    calls = []

    class Client:
        def __init__(self):
            self.d = {}

        def get(self, key):
            return self.d.get(key)

        def set(self, *args):
            calls.append(len(args))
            self.d[args[0]] = args[1]
    c = Client()
    m = MemcachedBytecodeCache(c)
    e = env_for(m)
    e.get_template("t").render(x=1)
    m.clear()
    if calls != [2] or len(c.d) != 1 or not next(iter(c.d)).startswith("jinja2/bytecode/"):
        problems.append(f"memcached defaults: set called with {calls} arguments, keys {list(c.d)}")
    if e.get_template("t").render(x=2) != "2|t" or calls != [2]:
        problems.append("memcached entry not reused after clear() (a no-op)")
    ctx.case(key=("options",))
    ctx.count("constructor_options")
    if problems:
        ctx.reject({"kind": "options"}, "; ".join(problems), "C27:options")
    else:
        ctx.validated()
    shutil.rmtree(d, ignore_errors=True)


# ------------------------------------------------------------------------------------------- one source under several names
def run_aliases(ctx, jinja2, only=None):
    """ONE environment whose compilation depends on the template NAME (autoescape=select_autoescape): the same file reached
    under several spellings of its name, and equal sources stored under different names, loaded one after the other through
    one bytecode cache — each load must render what the same environment renders without a bytecode cache"""
    from jinja2.bccache import FileSystemBytecodeCache, MemcachedBytecodeCache
    base = os.path.join(ctx.bdir, "aliases")

    class Client:
        def __init__(self):
            self.d = {}

        def get(self, key):
            return self.d.get(key)

        def set(self, key, value, timeout=None):
            self.d[key] = value

    body = "{{ x }}|{% if true %}y{% endif %}"
    fs_names = ["page.html", "./page.html", "/page.html", "page.html/.", "page.html/", ".//page.html", "sub/page.html", "page.txt", "page"]
    dict_names = ["a.html", "a.txt", "a.HTML", "a.html.j2", "dir/a.html", "a"]
    for kind, names in (("fs", fs_names), ("dict", dict_names)):
        for backend in ("fs", "mem"):
            pairs = [(a, b) for a in names for b in names if a != b]
            for (a, b) in pairs:
                if only is not None and (only.get("loader"), only.get("backend"), only.get("first"), only.get("second")) != (kind, backend, a, b):
                    continue
                shutil.rmtree(base, ignore_errors=True)
                os.makedirs(base + "/tpl/sub")
                os.makedirs(base + "/cache")
                for fn in ("page.html", "sub/page.html", "page.txt", "page"):
                    open(os.path.join(base, "tpl", fn), "w").write(body)
                loader = jinja2.FileSystemLoader(base + "/tpl") if kind == "fs" else jinja2.DictLoader({n: body for n in dict_names})
                client = Client()

                def mk(cache):
                    bcc = None if not cache else FileSystemBytecodeCache(base + "/cache") if backend == "fs" else MemcachedBytecodeCache(client)
                    return jinja2.Environment(loader=loader, autoescape=jinja2.select_autoescape(["html", "j2"]), bytecode_cache=bcc, cache_size=0)
                env, ref = mk(True), mk(False)
                outs, wants = [], []
                for n in (a, b, a):
                    for e, acc in ((env, outs), (ref, wants)):
                        try:
                            acc.append(e.get_template(n).render(x="<b>"))
                        except jinja2.TemplateNotFound:
                            acc.append("NF")
                        except Exception as ex:  # noqa
                            acc.append("X:" + type(ex).__name__)
                case = {"kind": "aliases", "loader": kind, "backend": backend, "first": a, "second": b}
                ctx.case(sample=dict(case, rendered=outs) if len(ctx.samples) < 8 and a == "page.html" and b == "page.html/." else None,
                         key=("aliases", kind, backend, a, b))
                ctx.count("aliases_" + kind)
                if only is not None:
                    print("with cache:", outs, "\nwithout   :", wants)
                if outs != wants:
                    ctx.reject(dict(case, rendered=outs), f"names {a!r}, {b!r}, {a!r} loaded through one bytecode cache rendered {outs}, without the cache {wants}",
                               "C27:names-that-compile-differently-share-an-entry")
                else:
                    ctx.validated()
    # (name, filename) pairs that the key helper cannot tell apart: it hashes name + "|" + filename
    if only is None or only.get("loader") == "collision":
        table = {"a.txt": ("{{ x }}", "b.html|c", None), "a.txt|b.html": ("{{ x }}", "c", None)}
        for order in (["a.txt", "a.txt|b.html"], ["a.txt|b.html", "a.txt"]):
            shutil.rmtree(base, ignore_errors=True)
            os.makedirs(base + "/cache")
            loader = jinja2.FunctionLoader(lambda n: table.get(n))

            def mk(cache):
                return jinja2.Environment(loader=loader, autoescape=jinja2.select_autoescape(["html"]), cache_size=0,
                                          bytecode_cache=FileSystemBytecodeCache(base + "/cache") if cache else None)
            env, ref = mk(True), mk(False)
            outs = [env.get_template(n).render(x="<b>") for n in order]
            wants = [ref.get_template(n).render(x="<b>") for n in order]
            case = {"kind": "aliases", "loader": "collision", "order": order, "rendered": outs}
            ctx.case(key=("collision", tuple(order)))
            ctx.count("aliases_key_collision")
            if only is not None:
                print("with cache:", outs, "without:", wants)
            if outs != wants:
                ctx.reject(case, f"templates {order} (FunctionLoader filenames 'b.html|c' / 'c', same source) share one cache key: rendered {outs}, "
                                 f"without the cache {wants}", "C27:key-collision-name-filename-separator")
            else:
                ctx.validated()
    shutil.rmtree(base, ignore_errors=True)


# ------------------------------------------------------------------------------------------- source edits a checksum could conflate
CONFLATE = {
    # class -> spellings that a normalising checksum might identify (they lex / render differently)
    "line-boundary": ["\n", "\r\n", "\r", "\u2028", "\u2029", "\x0b", "\x0c", "\x1c", "\x1d", "\x1e", "\x85", " "],
    "trailing-newline": ["", "\n", "\n\n", "\r\n"],
    "surrogate": ["\ud800", "\udfff", "\udc80", "?", "\ufffd"],
    # how each codec error handler would spell a character UTF-8 cannot encode (strict raises; surrogatepass keeps it)
    "codec-error-spelling": ["\udce9", "\\udce9", "&#56553;", "?", "", "\ufffd", "\\xe9", "\xe9", "\\N{LATIN SMALL LETTER E WITH ACUTE}"],
    "nul-bom-zero-width": ["", "\x00", "\ufeff", "\u200b", "\u00ad"],
    "case": ["a", "A", "\u0131", "I"],
    "whitespace": [" ", "  ", "\t", "\u00a0", "\u3000", ""],
    "normal-form": ["\u00e9", "e\u0301", "\u212b", "\u00c5", "\ufb01", "fi"],
}


def run_conflate(ctx, jinja2, only=None):
    """modify steps whose old and new source differ ONLY in characters a checksum normalisation could conflate: load the old
    source through the cache, change the source, load again in a fresh environment — the new source must be rendered"""
    from jinja2.bccache import FileSystemBytecodeCache, MemcachedBytecodeCache

    class Client:
        def __init__(self):
            self.d = {}

        def get(self, key):
            return self.d.get(key)

        def set(self, key, value, timeout=None):
            self.d[key] = value

    d = os.path.join(ctx.bdir, "conflate")
    for cls, spell in CONFLATE.items():
        pairs = [(a, b) for a in spell for b in spell if a != b]
        if ctx.tier == "quick":
            pairs = [p for i, p in enumerate(pairs) if i % 2 == 0 or "\n" in p[0] + p[1]]
        for (a, b) in pairs:
            for backend, ktn in (("fs", False), ("mem", True)) if cls != "trailing-newline" else (("fs", True), ("mem", True), ("fs", False)):
                if only is not None and (only.get("class"), only.get("old"), only.get("new"), only.get("backend")) != (cls, ascii(a), ascii(b), backend):
                    continue
                if cls == "trailing-newline":
                    old, new = "x{{ 1 }}" + a, "x{{ 1 }}" + b
                else:
                    old, new = "[" + a + "]{{ 1 }}", "[" + b + "]{{ 1 }}"       # the two sources differ in nothing else
                shutil.rmtree(d, ignore_errors=True)
                os.makedirs(d)
                client = Client()
                mk = (lambda: FileSystemBytecodeCache(d)) if backend == "fs" else (lambda: MemcachedBytecodeCache(client))
                mapping = {"t": old}

                def fresh(cache=True):
                    return jinja2.Environment(loader=jinja2.DictLoader(mapping), bytecode_cache=mk() if cache else None, cache_size=0,
                                              keep_trailing_newline=ktn)
                case = {"kind": "conflate", "class": cls, "old": ascii(a), "new": ascii(b), "backend": backend, "keep_trailing_newline": ktn}
                ctx.case(sample=case if len(ctx.samples) < 7 and cls == "line-boundary" and b == "\u2028" else None,
                         key=("conflate", cls, a, b, backend))
                ctx.count("conflate_" + cls)
                try:
                    ref_old = fresh(False).get_template("t").render()
                    got_old = fresh().get_template("t").render()
                    mapping["t"] = new
                    ref_new = fresh(False).get_template("t").render()
                    got_new = fresh().get_template("t").render()
                except Exception as e:  # noqa
                    ctx.count("conflate_not_compilable")
                    continue
                if only is not None:
                    print("old:", repr(old), "->", repr(got_old), "| new:", repr(new), "->", repr(got_new), "| expected", repr(ref_new))
                if got_old != ref_old or got_new != ref_new:
                    ctx.reject(case, f"source changed from {old!r} to {new!r} (differs only in {cls} characters): through the bytecode cache "
                                     f"the second load rendered {got_new!r}, the new source renders {ref_new!r}",
                               "C27:stale-after-edit-of-" + cls)
                else:
                    ctx.validated()
    shutil.rmtree(d, ignore_errors=True)


# ------------------------------------------------------------------------------------------- names / sources outside UTF-8
UNI = [("t", "a\ud800b {{ x }}"), ("n\ud800", "plain {{ x }}"), ("t\udfff", "\udc80{{ x }}"), ("é😀", "é😀\x00{{ x }}"),
       ("t", "{{ '\ud800' }}{{ x }}"), ("dir/\ud83d", "half a pair \ud83d {{ x }}")]


def run_unicode(ctx, jinja2, only=None):
    """every template a loader can serve must load through a bytecode cache: names and sources with lone surrogates
    (not encodable as strict UTF-8), astral characters, NUL"""
    from jinja2.bccache import FileSystemBytecodeCache, MemcachedBytecodeCache

    class Client:
        def __init__(self):
            self.d = {}

        def get(self, key):
            return self.d.get(key)

        def set(self, key, value, timeout=None):
            self.d[key] = value

    d = os.path.join(ctx.bdir, "unicode")
    for idx, (name, src) in enumerate(UNI):
        for kind in ("fs", "memcached"):
            if only is not None and (only.get("index"), only.get("cache")) != (idx, kind):
                continue
            shutil.rmtree(d, ignore_errors=True)
            os.makedirs(d)
            case = {"kind": "unicode", "index": idx, "cache": kind, "name": ascii(name), "source": ascii(src)}
            ctx.case(sample=case if idx == 0 and kind == "fs" else None, key=("unicode", idx, kind))
            ctx.count("unicode_" + kind)
            try:
                ref = jinja2.Environment(loader=jinja2.DictLoader({name: src})).get_template(name).render(x=1)
            except Exception as e:  # noqa
                ctx.count("unicode_not_loadable_without_cache")
                continue
            bcc = FileSystemBytecodeCache(d) if kind == "fs" else MemcachedBytecodeCache(Client())
            try:
                outs = []
                for _ in range(2):       # second round is served from the cache
                    env = jinja2.Environment(loader=jinja2.DictLoader({name: src}), bytecode_cache=bcc, cache_size=0)
                    outs.append(env.get_template(name).render(x=1))
                fail = None if outs == [ref, ref] else f"rendered {outs!r} through the cache, {ref!r} without"
            except Exception as e:  # noqa
                fail = f"get_template raised {type(e).__name__}: {e} with a bytecode cache; without one the template renders"
            if only is not None:
                print("oracle:", fail)
            if fail:
                ctx.reject(case, fail, "C27:bytecode-cache-rejects-non-utf8-name-or-source")
            else:
                ctx.validated()
    shutil.rmtree(d, ignore_errors=True)


def run(ctx):
    jinja2 = lib.use_repo_jinja()
    ctx.extra["rule"] = RULE
    ctx.assumptions += [
        "pickle.load raises only Exception subclasses on any input; marshal.load raises only EOFError / ValueError / TypeError "
        "(Section hypotheses of C27_load_total; measured on every generated blob)",
        "pickle.load / marshal.load decode what dump wrote and fail on every proper prefix (hypotheses of C27_load_truncated; measured)",
        "sha1 of the source is injective (hypothesis of C27_never_stale_partial)",
        "os.replace is atomic and the temp file name differs from the cache file name (hypothesis tmp <> real of C27_atomic_replace; "
        "NamedTemporaryFile appends random characters and '.tmp')",
        "a crash is modelled as process death between Python-level calls (os._exit in a child); data is flushed after each write call",
    ]
    ctx.proof("C27")
    ctx.proof("C27opt")
    table = regen_table(ctx)
    # translator tie (T5): the current source of Bucket.load_bytecode and of dump_bytecode's control skeleton, as
    # terms of Lib/PyBc, proved equal to the model for all inputs / all crash and fault points
    sys.path.insert(0, os.path.join(lib.ROOT, "gen"))
    import bc_translate
    try:
        ok, out = ctx.coq_obligation("Gen_bc", bc_translate.emit(lib.SRC), n_obligations=8)
        if ok:
            ctx.trusted.append("Gen_bc (load_bytecode / dump_bytecode source = model): " + " ".join(out.split()))
    except bc_translate.Untranslatable as e:
        ctx.obligations += 8
        ctx.broken.append(f"translator gen/bc_translate.py: bccache source left the translatable vocabulary: {e}")
    # T1: the construction of bc_magic, re-evaluated from the current source under simulated interpreters
    import bc_magic as bc_magic_gen
    try:
        ok, out = ctx.coq_obligation("Gen_bc_magic", bc_magic_gen.emit(lib.SRC), n_obligations=2)
    except bc_magic_gen.Untranslatable as e:
        ctx.obligations += 2
        ctx.broken.append(f"translator gen/bc_magic.py: {e}")
    # T1: what get_source_checksum / get_cache_key hash — an injective encoding of the source / name / filename
    import bc_hash
    try:
        ctx.coq_obligation("Gen_bc_hash", bc_hash.emit(lib.SRC), n_obligations=2)
    except bc_hash.Untranslatable as e:
        ctx.obligations += 2
        ctx.broken.append(f"translator gen/bc_hash.py: {e}")
    run_load(ctx, jinja2, table)
    run_foreign(ctx, jinja2, table)
    run_flips(ctx, jinja2, table)
    run_crash(ctx, jinja2)
    run_shared(ctx, jinja2)
    run_native_pair(ctx, jinja2)
    run_memcached(ctx, jinja2)
    run_options(ctx, jinja2)
    run_conflate(ctx, jinja2)
    run_aliases(ctx, jinja2)
    run_unicode(ctx, jinja2)


def replay(ctx, data):
    """re-run exactly the recorded case through the model, the implementation and the oracle"""
    jinja2 = lib.use_repo_jinja()
    case = data.get("case")
    if data.get("kind") != "failing-input" or case is None:
        print("replay: this file names a broken theorem/correspondence, not an input:", data.get("broken"))
        return run(ctx)
    kind = case.get("kind")
    print("replay:", {k: v for k, v in case.items() if k not in ("blob_hex", "rendered")})
    if kind in ("load", "flip"):
        table = regen_table(ctx)
        (run_load if kind == "load" else run_flips)(ctx, jinja2, table, only=case)
    elif kind == "crash":
        run_crash(ctx, jinja2, only=case)
    elif kind == "shared":
        run_shared(ctx, jinja2, only=case)
    elif kind == "memcached":
        run_memcached(ctx, jinja2, only=case)
    elif kind == "unicode":
        run_unicode(ctx, jinja2, only=case)
    elif kind == "options":
        run_options(ctx, jinja2)
    elif kind == "conflate":
        run_conflate(ctx, jinja2, only=case)
    elif kind == "aliases":
        run_aliases(ctx, jinja2, only=case)
    elif kind == "foreign":
        run_foreign(ctx, jinja2, regen_table(ctx), only=case)
    else:
        print("replay: unknown case kind", kind)
    if ctx.evaluations == 0:
        print("replay: the recorded case is not produced by the current generators")
