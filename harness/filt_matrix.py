"""Entry-point / spelling / configuration / history matrix for the filter-contract checks.

For one filter application (name, value, positional arguments with their parameter names) the
matrix runs every way of reaching the filter that the properties quantify over and requires
all of them to give the same result (and the expected one when a reference is supplied):

  spellings     all arguments positional | all by keyword | first positional, rest by keyword
  entry points  Environment.call_filter | a compiled template `{{ cap(v|f(...)) }}` (arguments and
                value passed as render variables, so every value kind can be used)
  environments  sync | enable_async | SandboxedEnvironment | overlay of the sync environment |
                (optionally) autoescape=True sync and async — compared within their own group
  history       every case is run twice on the SAME long-lived environments (second pass in
                reverse order) and a sample again on a fresh environment
"""
import itertools

from . import filt_common as fc


def canon(r):
    """comparable text of a (materialized) result; Markup and str are told apart"""
    from markupsafe import Markup
    from jinja2.runtime import Undefined
    if isinstance(r, Undefined):
        return "Undefined"
    if isinstance(r, Markup):
        return "Markup:" + str.__repr__(str(r))
    if isinstance(r, float) and r != r:
        return "nan"
    if isinstance(r, (list, tuple)):
        return "[" + ", ".join(canon(x) for x in r) + "]"
    if isinstance(r, dict):
        return "{" + ", ".join(f"{canon(k)}: {canon(v)}" for k, v in r.items()) + "}"
    if isinstance(r, str):
        return str.__repr__(str(r))
    return f"{type(r).__name__}:{r!r}"


class Matrix:
    def __init__(self, ctx, jinja2, autoescape_group=False):
        from jinja2.sandbox import SandboxedEnvironment
        self.ctx = ctx
        self.j = jinja2
        self.ar = fc.AsyncRunner()
        self.autoescape_group = autoescape_group
        self.make = {
            "sync": lambda: jinja2.Environment(),
            "async": lambda: jinja2.Environment(enable_async=True),
            "sandbox": lambda: SandboxedEnvironment(),
            "overlay": lambda: jinja2.Environment().overlay(trim_blocks=True, lstrip_blocks=True),
        }
        if autoescape_group:
            self.make["auto"] = lambda: jinja2.Environment(autoescape=True)
            self.make["auto_async"] = lambda: jinja2.Environment(autoescape=True, enable_async=True)
        self.envs = {k: f() for k, f in self.make.items()}
        self.tctx = {k: e.from_string("").new_context() for k, e in self.envs.items()}
        self.tcache = {}
        self.log = []          # (case, {way: text}) of the first pass, for the history pass

    def close(self):
        self.ar.close()

    # ------------------------------------------------------------------ one application, one way
    def _call(self, envname, env, tctx, name, value, args, kwargs):
        try:
            if env.is_async:
                r = self.ar.call(env, tctx, name, value, list(args), dict(kwargs))
            else:
                r = env.call_filter(name, value, list(args), dict(kwargs), context=tctx)
            return canon(fc.materialize(r))
        except Exception as e:  # noqa: BLE001
            return "ERR:" + type(e).__name__

    def _template(self, envname, env, name, value, args, kwargs, autoblock=False):
        parts = [f"a{i}" for i in range(len(args))] + [f"{k}=k_{k}" for k in kwargs]
        src = "{{ cap(v|" + name + ("(" + ", ".join(parts) + ")" if parts else "") + ") }}"
        if autoblock:
            src = "{% autoescape true %}" + src + "{% endautoescape %}"
        key = (envname, src)
        if key not in self.tcache:
            self.tcache[key] = env.from_string(src)
        data = {"v": value}
        data.update({f"a{i}": a for i, a in enumerate(args)})
        data.update({f"k_{k}": x for k, x in kwargs.items()})
        box = []
        try:
            if env.is_async:
                async def cap(x):
                    box.append(fc.materialize(await fc._collect(x)))
                    return ""
                self.ar.run(self.tcache[key].render_async(cap=cap, **data))
            else:
                def cap(x):
                    box.append(fc.materialize(x))
                    return ""
                self.tcache[key].render(cap=cap, **data)
            return canon(box[0])
        except Exception as e:  # noqa: BLE001
            return "ERR:" + type(e).__name__

    @staticmethod
    def spellings(args, names):
        if isinstance(args, dict):                      # **kwargs-only filters (format with a mapping)
            return [("keyword", (), dict(args))]
        args = list(args)
        names = list(names)[:len(args)]
        out = [("positional", tuple(args), {})]
        if args and len(names) == len(args):
            out.append(("keyword", (), dict(zip(names, args))))
            if len(args) >= 2:
                out.append(("mixed", (args[0],), dict(zip(names[1:], args[1:]))))
        return out

    def ways(self, envs, name, value, args, names, fresh_value):
        res = {}
        for envname, env in envs.items():
            for sp, a, kw in self.spellings(args, names):
                res[f"{envname}/call_filter/{sp}"] = self._call(envname, env, self.tctx.get(envname) or env.from_string("").new_context(),
                                                                 name, fresh_value(), a, kw)
                res[f"{envname}/template/{sp}"] = self._template(envname, env, name, fresh_value(), a, kw)
                if self.autoescape_group and envname == "sync":
                    # {% autoescape true %} inside a template of a plain environment: the volatile / block form of autoescape
                    res[f"autoblk/template/{sp}"] = self._template(envname, env, name, fresh_value(), a, kw, autoblock=True)
        return res

    # ------------------------------------------------------------------ public
    def apply(self, prop_sig, name, value, args=(), names=(), expect=None, fresh_value=None, nontrivial=True,
              same_across_groups=True, skip_async=False, auto_same=False, auto_expect=None):
        """run one application in every way; report disagreements.  `expect`: None, or a canon text,
        or a callable returning the expected Python value (exceptions it raises are expected too)."""
        ctx = self.ctx
        fv = fresh_value or (lambda: value)
        envs = {k: e for k, e in self.envs.items() if not (skip_async and e.is_async)}
        res = self.ways(envs, name, value, args, names, fv)
        case = {"filter": name, "value": repr(value)[:80], "value_type": type(value).__name__,
                "args": [repr(a)[:40] for a in (args.values() if isinstance(args, dict) else args)], "names": list(names)}
        ctx.case(key=("matrix", name, repr(value)[:60], repr(args)[:80]) if nontrivial else None)
        ctx.count("matrix_" + name)
        self.log.append((prop_sig, name, value, args, names, fv, res, case, skip_async))
        want = None
        if expect is not None:
            if callable(expect):
                try:
                    want = canon(expect())
                except Exception as e:  # noqa: BLE001
                    want = "ERR:" + type(e).__name__
            else:
                want = expect
        groups = {}
        for way, text in res.items():
            g = "auto" if way.startswith("auto") else "plain"
            groups.setdefault(g, {}).setdefault(text, []).append(way)
        bad = None
        for g, by_text in groups.items():
            if len(by_text) > 1:
                items = sorted(by_text.items(), key=lambda kv: -len(kv[1]))
                bad = (f"the ways of applying the filter disagree: {items[0][1][0]} gives {items[0][0][:60]} but "
                       f"{items[1][1][0]} gives {items[1][0][:60]}")
                break
        if bad is None and "auto" in groups and (auto_same or auto_expect is not None):
            auto = next(iter(groups["auto"]))
            if auto_expect is not None:
                try:
                    target = canon(auto_expect())
                except Exception as e:  # noqa: BLE001
                    target = "ERR:" + type(e).__name__
            else:
                target = next(iter(groups.get("plain", {})), None)
            if target is not None and auto != target:
                bad = (f"with autoescape on the filter gives {auto[:70]}, "
                       f"{'the definition gives' if auto_expect is not None else 'with autoescape off'} {target[:70]}")
        if bad is None and want is not None:
            plain = next(iter(groups.get("plain", {})), None)
            if plain is not None and plain != want:
                bad = f"returned {plain[:70]}, the definition gives {want[:70]}"
        if bad:
            ctx.reject(case, bad, None)
        else:
            ctx.validated(len(res))
        return res

    def alternation_pass(self, envnames=("sync", "auto"), limit=None):
        """HISTORY of argument kinds: for every logged application with plain-str arguments, the same
        argument text arrives first as Markup and then as plain str (and the other way round) on the
        long-lived environments.  Memo tables keyed on the argument (where Markup("x") == "x") would hand
        the result of the first kind to the second.  To have a clean-history reference in the same
        process, each direction is run with two fresh, equally long tokens appended to the str arguments:
        result(plain T+a on an unseen key) must equal result(plain T+b after Markup(T+b)) up to renaming
        b -> a; likewise for the Markup result after the plain one."""
        from markupsafe import Markup
        ctx = self.ctx
        envs = {k: e for k, e in self.envs.items() if k in envnames}
        n = 0
        seen = set()
        for (sig, name, value, args, names, fv, res, case, skip_async) in self.log:
            if isinstance(args, dict):
                items = list(args.items())
                str_pos = [k for k, a in items if type(a) is str]
            else:
                str_pos = [i for i, a in enumerate(args) if type(a) is str]
            key = (name, repr(args)[:80], type(value).__name__)
            if not str_pos or key in seen:
                continue
            seen.add(key)
            if limit is not None and n >= limit:
                break
            n += 1

            def with_tok(tok, wrap):
                def conv(a):
                    return wrap(a + tok) if type(a) is str else a
                if isinstance(args, dict):
                    return {k: conv(a) for k, a in args.items()}
                return tuple(conv(a) for a in args)
            t = [f"\u046f{n}{c}" for c in "\u0471\u0473\u0475\u0477"]    # differ in one rare letter that no test value contains
            ident = (lambda x: x)
            plain_clean = self.ways(envs, name, value, with_tok(t[0], ident), names, fv)
            self.ways(envs, name, value, with_tok(t[1], Markup), names, fv)
            plain_after = self.ways(envs, name, value, with_tok(t[1], ident), names, fv)
            self.ways(envs, name, value, with_tok(t[2], ident), names, fv)
            markup_after = self.ways(envs, name, value, with_tok(t[2], Markup), names, fv)
            markup_clean = self.ways(envs, name, value, with_tok(t[3], Markup), names, fv)
            ctx.count("matrix_alternation")
            ctx.case(key=("alternation", name, repr(args)[:60]))
            bad = None
            for w in plain_clean:
                if plain_after[w].replace(t[1], t[0]) != plain_clean[w]:
                    bad = (f"a plain-str argument gives {plain_after[w][:70]} after the same text was passed as Markup, "
                           f"but {plain_clean[w][:70]} on a clean history ({w})")
                    break
                if markup_after[w].replace(t[2], t[3]) != markup_clean[w]:
                    bad = (f"a Markup argument gives {markup_after[w][:70]} after the same text was passed as plain str, "
                           f"but {markup_clean[w][:70]} on a clean history ({w})")
                    break
            if bad:
                ctx.reject(dict(case, history="same argument text as Markup and as str"), bad, None)
            else:
                ctx.validated()

    def history_pass(self, every_fresh=9):
        """second pass on the same environments in reverse order + a sample on fresh environments:
        a result must not depend on what was applied before"""
        ctx = self.ctx
        for idx, (sig, name, value, args, names, fv, res, case, skip_async) in enumerate(reversed(self.log)):
            envs = {k: e for k, e in self.envs.items() if not (skip_async and e.is_async)}
            again = self.ways(envs, name, value, args, names, fv)
            ctx.count("matrix_history")
            ctx.case()
            diff = [w for w in res if again.get(w) != res[w]]
            if diff:
                ctx.reject(dict(case, history="second application on the same environment"),
                           f"result depends on history: {diff[0]} gave {res[diff[0]][:60]} first and {again[diff[0]][:60]} later", None)
                continue
            if idx % every_fresh == 0:
                fresh = {k: self.make[k]() for k in ("sync", "async") if not (skip_async and k == "async")}
                saved = self.tctx
                self.tctx = {}
                fr = self.ways(fresh, name, value, args, names, fv)
                self.tctx = saved
                # templates of fresh environments must not be cached under the long-lived names
                for k in [k for k in self.tcache if k[0] in fresh]:
                    pass
                diff = [w for w in fr if w.split("/", 1)[1].startswith("call_filter") and fr[w] != res.get(w)]
                if diff:
                    ctx.reject(dict(case, history="fresh environment"),
                               f"a fresh environment gives {fr[diff[0]][:60]}, the long-lived one gave {res[diff[0]][:60]}", None)
                    continue
            ctx.validated()
