"""C33 second part: generic-AST extraction tie and trimmed-block tie (helpers of harness/c33.py).

K-ast : the real jinja AST of a generated source is converted GENERICALLY (Call / Name / Const-str
        are recognised, every other node keeps only its children in iter_child_nodes order) and the
        extracted I18nTrim.extract is compared with jinja2.ext.extract_from_ast (babel style).
K-trimblock : extracted fmt_of true b == parse_block (trim_block b) == the extension's
        _trim_whitespace applied to the format string built from the pieces.
"""
from .esc_lang import enc, dec


def conv(nodes, node, out):
    if isinstance(node, nodes.Call):
        out.append("C")
        conv(nodes, node.node, out)
        out.append(str(len(node.args)))
        for a in node.args:
            conv(nodes, a, out)
        out.append(str(len(node.kwargs)))
        for k in node.kwargs:
            conv(nodes, k, out)          # Keyword node: generic, child = value
        dyn = [x for x in (node.dyn_args, node.dyn_kwargs) if x is not None]
        out.append(str(len(dyn)))
        for d in dyn:
            conv(nodes, d, out)
    elif isinstance(node, nodes.Name):
        out += ["N", enc(node.name)]
    elif isinstance(node, nodes.Const) and isinstance(node.value, str):
        out += ["S", enc(node.value)]
    else:
        ch = list(node.iter_child_nodes())
        out += ["O", str(len(ch))]
        for c in ch:
            conv(nodes, c, out)


def model_line(jinja2, tree):
    out = ["X"]
    conv(jinja2.nodes, tree, out)
    return " ".join(out)


def parse_model(line):
    assert line.startswith("E"), line
    res = []
    for tok in line[1:].split():
        nm, slots = tok.split(":", 1)
        res.append((dec(nm), [None if s == "~" else dec(s) for s in slots.split(",")] if slots else []))
    return res


def real_entries(jinja2, tree):
    from jinja2.ext import extract_from_ast
    res = []
    for _, f, m in extract_from_ast(tree, babel_style=True):
        res.append((f, list(m) if isinstance(m, tuple) else [m]))
    return res


ATOMS = ['_("a1")', 'gettext("a2 %(x)s")', 'ngettext("s1", "p1", n)', 'pgettext("cx", "m1")', 'npgettext("cx", "s2", "p2", 2)',
         'gettext(v)', 'gettext("lit" ~ v)', '_("fo" ~ "ld")', 'gettext("a" + "b")', '_("x %s" % "y")', '_("k", **kw)', 'gettext(*ar)', 'obj.gettext("attr")', 'gettext', 'other("zz")',
         '_(_("inner"))', 'f(_("arg"), k=_("kwv"))', 'ngettext("s3", v, 1)', '_("a", "b", 3)', 'gettext("x", a=_("nested kw"))',
         '_(7)', 'gettext()', '_("dup")', '_("dup")']
WRAPS = ["{{ %s }}", "{{ (%s)|upper }}", "{%% if %s %%}y{%% endif %%}", "{%% set q = %s %%}", "{%% for i in [%s] %%}{{ i }}{%% endfor %%}",
         "{%% macro m(p=%s) %%}{{ p }}{%% endmacro %%}", "{%% call m2(%s) %%}x{%% endcall %%}", "{{ [%s, 1] }}", "{{ {'k': %s} }}",
         "{%% filter replace(%s, 'x') %%}t{%% endfilter %%}", "{{ x if %s else y }}", "{%% with w = %s %%}{{ w }}{%% endwith %%}",
         "{{ a[%s] }}", "{%% if false %%}{{ %s }}{%% endif %%}", "{%% trans c=%s %%}t {{ c }}{%% endtrans %%}",
         "{%% autoescape %s %%}z{%% endautoescape %%}", "{%% include %s %%}", "{{ %s is string }}", "{{ x is sameas(%s) }}"]


def gen_source(rng):
    parts = []
    for _ in range(rng.randint(1, 5)):
        a = rng.choice(ATOMS)
        if rng.random() < 0.3:
            a = "f2(" + a + ", " + rng.choice(ATOMS) + ")"
        parts.append(rng.choice(WRAPS) % a)
    if rng.random() < 0.4:
        parts.append("{% trans n=n %}one{% pluralize %}{{ n }} many{% endtrans %}")
    if rng.random() < 0.3:
        parts.append('{% trans "ctx" trimmed u=user %} a \n b {{ u }}{% endtrans %}')
    return "".join(parts)
