"""C21 — undefined values behave as documented for every undefined type.

proof : Properties/C21.v (finite-domain table theorem over the class tables, message /
        debug-string shape, logging statements incl. the refuted "every failure is logged")
tie   : T5  gen/undef_translate.py translates every method body of the five classes, _undefined_message and
            DebugUndefined.__str__ into deep-embedding terms (Lib/UndefPy.v); build/C21/Gen_undefsrc.v proves
            interpreted body = kind_sem <table kind>, message program = message, __str__ program = debug_str;
        T1  gen/undef_tables.py regenerates the class tables (alias assignments, overrides in
            make_logging_undefined, test_defined / test_undefined / do_default) from
            $VERIF_REPO/src with `ast`; build/C21/Gen_undef.v re-proves the table theorem and
            the logging statements about the REGENERATED tables (coqc, vm_compute);
        K-rt the exhaustive cross product  type x origin x operation x other operand  executed
            on REAL objects (through templates where a template form exists, and directly)
            compared with the extracted dispatch model run over the regenerated tables
            (outcome, who raised, message text, debug string, log events).
oracle: Spec.UndefSpec.spec (extracted, printed by the driver) applied to the real outcome.
"""
import copy
import os
import pickle
import sys

from . import lib

sys.path.insert(0, os.path.join(lib.ROOT, "gen"))
import undef_tables  # noqa: E402

RULE = ("exhaustive: 8 undefined types (Undefined, Chainable, Debug, Strict and make_logging_undefined of each) x 5 "
        "origins (missing name, missing attribute, missing item, explicit hint, sandbox-refused attribute with exc=SecurityError) x 213 operations (21 unary/protocol "
        "operations, `x in u` for 12 other operands, `u in str/list/dict`, 7 arithmetic and 6 comparison operators x "
        "both operand orders x 12 other operands: int float str None list Markup bool tuple dict bytes same-class-undefined plain-Undefined) x "
        "execution path (direct python; through a compiled template when a template form exists). distinct = "
        "(type, origin, operation, path); non-trivial = every case (each executes the operation on a real object "
        "and compares outcome, message and log events with the model); cells outside the documented domain are "
        "compared with the model only.")

CLASSES = ["NBU", "NBC", "NBD", "NBS", "LBU", "LBC", "LBD", "LBS"]
OTHERS = ["int", "float", "str", "none", "list", "markup", "bool", "tuple", "dict", "bytes", "same", "plain"]
ARITH = {"add": "+", "sub": "-", "mul": "*", "div": "/", "floordiv": "//", "mod": "%", "pow": "**"}
CMP = {"eq": "==", "ne": "!=", "lt": "<", "le": "<=", "gt": ">", "ge": ">="}
UNARY = ["str", "bool", "iter", "aiter", "len", "hash", "pos", "neg", "int", "float", "call", "callt", "getattr", "getdunder",
         "getitem", "isdefined", "isundefined", "default", "copy", "deepcopy", "pickle"]
ORIGINS = {"name": "missing_var", "attr": "obj.missing_attr", "item": "seq[7]", "hint": "(empty_seq|first)",
           "unsafe": "obj.__class__",       # "unsafe": evaluated by a SandboxedEnvironment -> exc=SecurityError
           # missing attribute / item on owners of every truthiness (falsy: None {} [] '' 0 False; truthy: dict, str, object)
           "attr-none": "o_none.missing_attr", "attr-zero": "o_zero.missing_attr", "attr-false": "o_false.missing_attr",
           "attr-emptystr": "o_estr.missing_attr", "item-emptydict": "o_edict['k']", "item-emptylist": "o_elist[3]",
           "item-emptystr": "o_estr[5]", "item-dict": "o_dict['nokey']", "attr-str": "o_str.missing_attr", "item-none": "o_none['k']",
           "attr-object": "o_obj.missing_attr"}
# the origins above only change the owner: they are run on the operations whose result depends on the origin
OWNER_ORIGINS = [k for k in ORIGINS if k.startswith(("attr-", "item-"))]
OWNER_OPS = ["str", "bool", "pos", "getattr", "getitem", "arith:add:fwd:int", "cmp:eq:rev:str", "copy"]


class _Plain:
    pass


OWNER_OBJECT = _Plain()


def all_ops():
    ops = list(UNARY) + [f"contains:{o}" for o in OTHERS] + [f"revcontains:{k}" for k in ("str", "list", "dict")]
    for a in ARITH:
        for d in ("fwd", "rev"):
            ops += [f"arith:{a}:{d}:{o}" for o in OTHERS]
    for c in CMP:
        for d in ("fwd", "rev"):
            ops += [f"cmp:{c}:{d}:{o}" for o in OTHERS]
    return ops


class Logger:
    def __init__(self):
        self.events = []

    def warning(self, msg, *args):
        self.events.append(("W", msg % args))

    def error(self, msg, *args):
        self.events.append(("E", msg % args))


DEFAULT = object()


def _worker(conn, w, cells, msgs, start):
    for idx in range(start, len(cells)):
        c, origin, op, path = cells[idx]
        try:
            res = observe(w, c, origin, op, path, msgs[(c, origin)])
        except BaseException as e:  # noqa
            res = (f"X:harness:{type(e).__name__} logs=", {})
        conn.send((idx, res))
    conn.close()


def observe_all(w, cells, msgs, seconds=12):
    """run every cell on the real engine in a forked worker.  A modified engine can recurse
    without bound (and swallow asynchronous exceptions in `except <expr>` clauses), so a cell
    that does not answer in time is recorded as non-terminating, the worker is killed and a new
    one continues with the next cell."""
    import multiprocessing as mp
    m = mp.get_context("fork")
    results = [None] * len(cells)
    i = 0
    while i < len(cells):
        parent, child = m.Pipe(duplex=False)
        proc = m.Process(target=_worker, args=(child, w, cells, msgs, i), daemon=True)
        proc.start()
        child.close()
        while i < len(cells):
            if parent.poll(seconds):
                try:
                    idx, res = parent.recv()
                except EOFError:
                    results[i] = ("X:worker-crashed logs=", {})
                    i += 1
                    break
                results[idx] = res
                i = idx + 1
            else:
                # no answer in time: under heavy machine load that is not yet evidence.  Retry this one cell alone in
                # a fresh worker with a generous limit; only a second silence counts as non-termination.
                proc.kill()
                proc.join()
                p2, c2 = m.Pipe(duplex=False)
                solo = m.Process(target=_worker, args=(c2, w, cells[:i + 1], msgs, i), daemon=True)
                solo.start()
                c2.close()
                if p2.poll(seconds * 10):
                    try:
                        results[i] = p2.recv()[1]
                    except EOFError:
                        results[i] = ("X:worker-crashed logs=", {})
                else:
                    results[i] = ("X:does-not-terminate logs=", {})
                solo.kill()
                solo.join()
                p2.close()
                i += 1
                break
        proc.kill()
        proc.join()
        parent.close()
    return results


class World:
    """real classes, environments and operand values"""

    def __init__(self, jinja2):
        from jinja2 import runtime
        self.jinja2 = jinja2
        self.logger = Logger()
        base = {"BU": runtime.Undefined, "BC": runtime.ChainableUndefined, "BD": runtime.DebugUndefined,
                "BS": runtime.StrictUndefined}
        self.cls = {}
        for b, k in base.items():
            self.cls["N" + b] = k
            self.cls["L" + b] = runtime.make_logging_undefined(self.logger, k)
        self.plain = runtime.Undefined
        self.env = {c: jinja2.Environment(undefined=k) for c, k in self.cls.items()}
        self.env_async = {c: jinja2.Environment(undefined=k, enable_async=True) for c, k in self.cls.items()}
        from jinja2.sandbox import SandboxedEnvironment
        self.env_sbx = {c: SandboxedEnvironment(undefined=k) for c, k in self.cls.items()}
        from jinja2.nativetypes import NativeEnvironment
        self.env_native = {c: NativeEnvironment(undefined=k) for c, k in self.cls.items()}
        self.env_native_async = {c: NativeEnvironment(undefined=k, enable_async=True) for c, k in self.cls.items()}
        self.origin = "name"
        self.UndefinedError = jinja2.exceptions.UndefinedError
        self.cache = {}

    def vars(self, c, o=None):
        v = {"obj": 42, "seq": (1, 2), "D": DEFAULT, "empty_seq": [], "o_none": None, "o_zero": 0, "o_false": False, "o_estr": "",
             "o_edict": {}, "o_elist": [], "o_dict": {"a": 1}, "o_str": "text", "o_obj": OWNER_OBJECT}
        if o is not None:
            v["x"] = self.other(c, o)
        return v

    def other(self, c, o):
        if o == "int":
            return 42
        if o == "float":
            return 1.5
        if o == "str":
            return "abc"
        if o == "none":
            return None
        if o == "list":
            return [1]
        if o in ("bool", "tuple", "dict", "bytes"):
            return {"bool": True, "tuple": (1,), "dict": {1: 2}, "bytes": b"abc"}[o]
        if o == "markup":
            from markupsafe import Markup
            return Markup("a")
        if o == "same":
            return self.cls[c](name="other_q")
        if o == "plain":
            return self.plain(name="other_q")
        raise AssertionError(o)

    def expr(self, c, text):
        sbx = "obj.__class__" in text          # the sandbox-made origin needs the sandboxed environment
        key = (c, text)
        if key not in self.cache:
            self.cache[key] = (self.env_sbx if sbx else self.env)[c].compile_expression(text, undefined_to_none=False)
        return self.cache[key]

    def tmpl(self, c, text, is_async=False):
        key = (c, "T", text, is_async)
        if key not in self.cache:
            if is_async == "native":
                envs = self.env_native
            elif is_async == "native-async":
                envs = self.env_native_async
            else:
                envs = self.env_sbx if "obj.__class__" in text else (self.env_async if is_async else self.env)
            self.cache[key] = envs[c].from_string(text)
        return self.cache[key]

    def make(self, c, origin):
        return self.expr(c, ORIGINS[origin])(**self.vars(c))


def cps(s):
    return "-" if s == "" else ",".join(str(ord(ch)) for ch in s)


def uncps(t):
    return "" if t == "-" else "".join(chr(int(x)) for x in t.split(","))


def origin_line(w, u):
    """the model's origin record, read off the real object's fields (obj through
    utils.object_type_repr, which the model treats as given)"""
    from jinja2.utils import missing, object_type_repr
    h = u._undefined_hint
    ob = u._undefined_obj
    nm = u._undefined_name
    hs = "~" if h is None else cps(h)
    os_ = "~" if ob is missing else cps(object_type_repr(ob))
    if isinstance(nm, str):
        return f"M {hs} {os_} s {cps(nm)}"
    return f"M {hs} {os_} o {cps(repr(nm))}"


def same_fields(a, b):
    return (type(a) is type(b) and a._undefined_hint == b._undefined_hint and a._undefined_name == b._undefined_name
            and a._undefined_exception is b._undefined_exception
            and (a._undefined_obj is b._undefined_obj or a._undefined_obj == b._undefined_obj))


def token(w, op, u, x, r, path):
    """canonical result token (the vocabulary of ocaml/driver_undef.ml show_res)"""
    if r is DEFAULT:
        return "default"
    if r is u:
        return "itself"
    if x is not None and r is x and isinstance(x, w.plain):
        return "other-undefined"
    if isinstance(r, w.plain):
        if path.startswith("template") and same_fields(r, u):
            return "itself"
        return "other-value"
    if r is True:
        return "true"
    if r is False:
        return "false"
    if r is None:
        return "none"
    if op == "arith:mod:rev:bytes" and r == b"abc":
        return "builtin"
    if isinstance(r, str):
        if r == "":
            return "str-empty"
        if op == "arith:mod:rev:str" and r == "abc":
            return "builtin"
        if op in ("arith:mod:rev:markup", "arith:add:rev:markup") and r == "a" and type(r) is type(x):
            return "builtin"      # the Markup operand's own result: Markup("a") unchanged
        return "str:" + r
    if isinstance(r, int):
        return "int-0" if r == 0 else "int-other"
    return "other-value:" + type(r).__name__


# attribute names for the non-dunder getattr cell: a dunder starts AND ends with two underscores
ATTR_NAMES = {"direct": "some_attribute", "direct-lead": "__lead", "direct-trail": "trail__", "direct-under": "_private"}


# keys for the item-access cell: the engine treats string and non-string keys differently (Environment.getitem
# falls back to getattr for a str key only)
ITEM_KEYS = {"direct-intkey": 0, "direct-nonekey": None, "direct-tuplekey": (1, 2)}
ITEM_KEY_SRC = {"template-intkey": "0", "template-nonekey": "none", "template-tuplekey": "(1, 2)", "template-sbx-intkey": "0"}


def direct(w, c, op, u, x, variant="direct"):
    p = op.split(":")
    k = p[0]
    if k == "str":
        return str(u)
    if k == "bool":
        return bool(u)
    if k == "iter":
        items = list(iter(u))
        return "ITER-EMPTY" if items == [] else "ITER-NONEMPTY"
    if k == "aiter":
        import asyncio
        from jinja2.async_utils import auto_aiter

        async def collect():
            return [it async for it in auto_aiter(u)]

        items = asyncio.run(collect())
        return "ITER-EMPTY" if items == [] else "ITER-NONEMPTY"
    if k == "len":
        return len(u)
    if k == "hash":
        h = hash(u)
        return "HASH-CLASS" if h == hash(type(u)(name="yet_another")) else "HASH-OBJECT"
    if k == "pos":
        return +u
    if k == "neg":
        return -u
    if k == "int":
        return int(u)
    if k == "float":
        return float(u)
    if k == "call":
        return u()
    if k == "callt":      # what Context.call does for `{{ u() }}`
        from jinja2.runtime import new_context
        return new_context(w.env[c], None, {}).call(u)
    if k == "getattr":
        return getattr(u, ATTR_NAMES.get(variant, "some_attribute"))
    if k == "getdunder":
        return u.__no_such_dunder__
    if k == "getitem":
        return u[ITEM_KEYS.get(variant, "k")]
    if k == "isdefined":
        return w.env[c].tests["defined"](u)
    if k == "isundefined":
        return w.env[c].tests["undefined"](u)
    if k == "default":
        return w.env[c].filters["default"](u, DEFAULT)
    if k in ("copy", "deepcopy", "pickle"):
        if k == "copy":
            r = copy.copy(u)
        elif k == "deepcopy":
            r = copy.deepcopy(u)
        else:
            try:
                data = pickle.dumps(u)
            except (pickle.PicklingError, AttributeError) as e:
                if "local" in str(e):
                    return "PICKLE-LOCAL"
                raise
            r = pickle.loads(data)
        return "COPY" if (r is not u and same_fields(r, u)) else "NOT-A-COPY"
    if k == "contains":
        return x in u
    if k == "revcontains":
        return u in {"str": "abc", "list": [1], "dict": {1: 2}}[p[1]]
    if k in ("arith", "cmp"):
        import operator
        f = {"add": operator.add, "sub": operator.sub, "mul": operator.mul, "div": operator.truediv,
             "floordiv": operator.floordiv, "mod": operator.mod, "pow": operator.pow, "eq": operator.eq,
             "ne": operator.ne, "lt": operator.lt, "le": operator.le, "gt": operator.gt, "ge": operator.ge}[p[1]]
        return f(u, x) if p[2] == "fwd" else f(x, u)
    raise AssertionError(op)


def template_form(op, origin):
    """(kind, source) of the template that performs the operation, or None"""
    U = ORIGINS[origin]
    p = op.split(":")
    k = p[0]
    if k == "str":
        return "T", "{{ " + U + " }}"
    if k == "bool":
        return "T", "{{ 'BOOL-TRUE' if " + U + " else 'BOOL-FALSE' }}"
    if k == "iter":
        return "T", "{% for it in " + U + " %}[{{ it }}]{% else %}ITER-EMPTY{% endfor %}"
    if k == "aiter":      # the same loop rendered by an enable_async environment
        return "A", "{% for it in " + U + " %}[{{ it }}]{% else %}ITER-EMPTY{% endfor %}"
    if k == "len":
        return "E", f"{U}|length"
    if k == "pos":
        return "E", f"+{U}"
    if k == "neg":
        return "E", f"-{U}"
    if k == "callt":
        return "E", f"{U}()"
    if k == "getattr":
        return "E", f"{U}.some_attribute"
    if k == "getitem":
        return "E", f"{U}['k']"
    if k == "isdefined":
        return "E", f"{U} is defined"
    if k == "isundefined":
        return "E", f"{U} is undefined"
    if k == "default":
        return "E", f"{U}|default(D)"
    if k == "contains":
        return "E", f"x in {U}"
    if k == "revcontains":
        return "E", f"{U} in " + {"str": "'abc'", "list": "[1]", "dict": "{1: 2}"}[p[1]]
    if k == "arith":
        s = ARITH[p[1]]
        return "E", (f"{U} {s} x" if p[2] == "fwd" else f"x {s} {U}")
    if k == "cmp":
        s = CMP[p[1]]
        return "E", (f"{U} {s} x" if p[2] == "fwd" else f"x {s} {U}")
    return None


def observe(w, c, origin, op, path, msgs):
    """run one cell on the real engine -> canonical 'outcome logs=...' string (+ detail)"""
    p = op.split(":")
    o = p[-1] if p[0] in ("contains", "arith", "cmp") else None
    detail = {}
    try:
        u = w.make(c, origin)
    except Exception as e:  # creating the undefined value must never fail
        return f"X:create:{type(e).__name__}", detail
    x = w.other(c, o) if o else None
    w.logger.events.clear()
    try:
        if path.startswith("direct"):
            r = direct(w, c, op, u, x, path)
        else:
            kind, src = template_form(op, origin)
            v = w.vars(c)
            if o:
                v["x"] = x
            if path in ITEM_KEY_SRC:
                expr_src = ORIGINS[origin] + "[" + ITEM_KEY_SRC[path] + "]"
                env = (w.env_sbx if (path.startswith("template-sbx") or origin == "unsafe") else w.env)[c]
                key = (c, "X", expr_src, path)
                if key not in w.cache:
                    w.cache[key] = env.compile_expression(expr_src, undefined_to_none=False)
                r = w.cache[key](**v)
            elif path in ("template-native", "template-native-async"):
                # a native environment with SEVERAL output nodes prints every node (a lone node would be returned)
                r = w.tmpl(c, "<<" + src + ">>", path[len("template-"):]).render(**v)
                if not (isinstance(r, str) and r.startswith("<<") and r.endswith(">>")):
                    r = "NATIVE-NOT-TEXT:" + repr(r)[:60]
                else:
                    r = r[2:-2]
            elif kind in ("T", "A"):
                r = w.tmpl(c, src, kind == "A" or path == "template-async").render(**v)
                if r == "ITER-EMPTY" and p[0] not in ("iter", "aiter"):
                    r = "str:ITER-EMPTY"

            else:
                r = w.expr(c, src)(**v)
            if p[0] == "bool" and isinstance(r, str) and r in ("BOOL-TRUE", "BOOL-FALSE"):
                r = (r == "BOOL-TRUE")
        if r == "ITER-EMPTY":
            out = "ok:iter-empty"
        elif r == "HASH-CLASS":
            out = "ok:hash-of-class"
        elif r == "COPY":
            out = "ok:copy"
        elif r == "PICKLE-LOCAL":
            out = "PickleError"
        elif isinstance(r, str) and r in ("ITER-NONEMPTY", "HASH-OBJECT", "NOT-A-COPY"):
            out = "ok:other-value:" + r
        else:
            t = token(w, op, u, x, r, path)
            if t.startswith("str:"):
                detail["text"] = t[4:]
                out = "ok:debug-str" if (p[0] == "str" and t[4:] == msgs["debug"]) else "ok:str-other"
            else:
                out = "ok:" + t
    except w.jinja2.exceptions.TemplateRuntimeError as e:
        m = str(e)
        detail["message"] = m
        want_exc = u._undefined_exception if (o not in ("same", "plain") or m == msgs["self"]) else w.UndefinedError
        detail["exception"] = type(e).__name__
        if type(e) is not want_exc:
            out = "X:" + type(e).__name__
        elif m == msgs["self"]:
            out = "raise:self"
        elif o in ("same", "plain") and m == "'other_q' is undefined":
            out = "raise:other"
        else:
            out = "raise:?"
    except TypeError:
        out = "TypeError"
    except AttributeError:
        out = "AttributeError"
    except Exception as e:  # noqa
        out = "X:" + type(e).__name__
    logs = []
    for lv, text in w.logger.events:
        pre = "Template variable warning: " if lv == "W" else "Template variable error: "
        if text == pre + msgs["self"]:
            logs.append(lv + "self")
        elif text == pre + "'other_q' is undefined":
            logs.append(lv + "other")
        else:
            logs.append(lv + "?")
    return out + " logs=" + ",".join(logs), detail


def oracle(c, origin, op, spec, real, detail, msgs, names, owner=None):
    """S applied to the real behaviour (independent of the dispatch model). -> None | reason"""
    out, logs = real.split(" logs=")
    if spec == "unspecified":
        return None
    if spec == "UndefinedError":
        if not out.startswith("raise:"):
            return f"documented to raise UndefinedError, observed {out}"
        m = detail.get("message", "")
        if not any(n in m for n in names):
            return f"UndefinedError message {m!r} does not name the subject {names}"
        return None
    if spec == "AttributeError":
        return None if out == "AttributeError" else f"dunder-looking name must raise AttributeError, observed {out}"
    want = spec.split(":", 1)[1]
    table = {"empty-string": "ok:str-empty", "true": "ok:true", "false": "ok:false", "empty-iteration": "ok:iter-empty",
             "length-0": "ok:int-0", "hash-of-type": "ok:hash-of-class", "itself": "ok:itself", "default": "ok:default",
             "copy": "ok:copy"}
    if want == "debug-info":
        t = detail.get("text")
        if t is None or not (t.startswith("{{ ") and t.endswith(" }}")):
            return f"DebugUndefined must print '{{{{ info }}}}', observed {out} {t!r}"
        if origin == "name" and t != "{{ missing_var }}":
            return f"DebugUndefined of a missing variable must print '{{{{ missing_var }}}}', observed {t!r}"
        if not any(n.strip("'") in t for n in names):
            return f"debug text {t!r} does not mention the subject"
        if owner is not None and owner not in t:
            return f"debug text {t!r} of a missing attribute / element does not name its owner ({owner})"
        return None
    if out != table[want]:
        return f"documented outcome {spec}, observed {out}"
    return None


def log_oracle(c, op, real):
    """documented logging of the logging variants -> (reason, signature) | None"""
    if not c.startswith("L"):
        return None
    out, logs = real.split(" logs=")
    logs = logs.split(",") if logs else []
    if op in ("str", "iter", "aiter") and "Wself" not in logs:
        return (f"printing / iterating a logging undefined was not logged (logs={logs})", "C21:logging:print-iter-not-logged")
    if out == "raise:self" and "Eself" not in logs:
        fam = "getattr" if op == "getattr" else "operator-alias"
        return (f"UndefinedError raised by a logging undefined was not logged as an error (operation {op})",
                "C21:logging-failure-not-logged:" + fam)
    return None


def gen_obligation(tr):
    return undef_tables.coq_text(tr, "regenerated from $VERIF_REPO/src by gen/undef_tables.py") + """
From JV Require Import Spec.UndefSpec Proofs.UndefProofs.
Theorem undefined_table_current : forall c o, In (c, o) domain -> known_deviation (c, o) = false ->
  exists s, spec c o = Some s /\\ agrees (fst (dispatch tables facts c o)) s = true.
Proof. apply table_ok_sound. vm_compute. reflexivity. Qed.
Theorem logging_print_iter_current : forall c o, In (c, o) all_cells -> log_print_iter_ok tables facts (c, o) = true.
Proof. apply forallb_cells. vm_compute. reflexivity. Qed.
Theorem logging_getattr_failures_current :
  forallb (fun x => implb (via_getattr x) (log_failure_ok tables facts x)) all_cells = true.
Proof. vm_compute. reflexivity. Qed.
Print Assumptions undefined_table_current.
"""


def run_cells(ctx, w, table_lines, cells):
    """cells: list of (c, origin, op, path). Returns list of (cell, model, real, detail, spec, msgs)."""
    # messages per (class, origin)
    mlines, mkeys = [], []
    for c in CLASSES:
        for origin in ORIGINS:
            u = w.make(c, origin)
            mlines.append(origin_line(w, u))
            mkeys.append((c, origin, u._undefined_message))
    mout = ctx.driver("undef", mlines)
    msgs = {}
    for (c, origin, realmsg), ln in zip(mkeys, mout):
        a, b = ln.split(" | ")
        msgs[(c, origin)] = {"self": uncps(a), "debug": uncps(b), "real_message": realmsg}
    qlines = [f"Q {c} {op}" for (c, origin, op, path) in cells]
    out = ctx.driver("undef", table_lines + qlines)[len(table_lines):]
    res = []
    observed = observe_all(w, cells, msgs)
    for cell, ln, (real, detail) in zip(cells, out, observed):
        c, origin, op, path = cell
        model, rest = ln.split(" spec=")
        spec = rest.split(" ")[0]
        res.append((cell, model, real, detail, spec, msgs[(c, origin)]))
    return res, msgs


def subject_names(w, c, origin):
    u = w.make(c, origin)
    if u._undefined_hint:
        return [u._undefined_hint]
    return [repr(u._undefined_name)]


def owner_text(w, c, origin):
    """object_type_repr of the owner for values made from a missing attribute / element without a hint"""
    from jinja2.utils import missing, object_type_repr
    u = w.make(c, origin)
    if u._undefined_hint or u._undefined_obj is missing:
        return None
    return object_type_repr(u._undefined_obj)


def judge(ctx, w, results):
    for cell, model, real, detail, spec, m in results:
        c, origin, op, path = cell
        case = {"type": c, "origin": origin, "operation": op, "path": path}
        names = subject_names(w, c, origin) + (["'other_q'"] if op.split(":")[-1] in ("same", "plain") else [])
        why = oracle(c, origin, op, spec, real, detail, m, names, owner_text(w, c, origin))
        lw = log_oracle(c, op, real)
        ctx.case(sample=dict(case, observed=real, model=model, documented=spec) if (hash(str(cell)) % 977 == 0) else None,
                 key=(c, origin, op, path))
        ctx.count(("documented" if spec != "unspecified" else "unspecified") + "/" + (path if path.startswith("template-") else path.split("-")[0]))
        if why:
            sig = f"C21:{c}:{op}:{spec}"
            if op == "arith:add:rev:markup" and c in ("NBC", "LBC") and real.startswith("ok:builtin"):
                sig = "C21:chainable:markup-concat"
            ctx.reject(dict(case, observed=real, detail=detail, documented=spec), why, sig)
        if lw:
            ctx.reject(dict(case, observed=real), lw[0], lw[1])
        if model != real:
            ctx.model_mismatch("K-rt undefined dispatch (model over regenerated tables vs real objects)",
                               dict(case, detail=detail), model, real, why)
        elif not why:
            ctx.validated()


def unspecified_probes(ctx, w):
    """behaviour the documentation does not cover, recorded in the evidence (not judged):
    legacy pickle protocols 0/1, abs()/round() (the `abs` and `round` filters), '%s' %% u"""
    import pickle as _p
    seen = {}
    for c in CLASSES:
        u = w.cls[c](name="x")
        for label, f in (("pickle-protocol-0", lambda: _p.loads(_p.dumps(u, 0))), ("pickle-protocol-1", lambda: _p.loads(_p.dumps(u, 1))),
                         ("pickle-protocol-2", lambda: _p.loads(_p.dumps(u, 2))), ("abs", lambda: abs(u)), ("round", lambda: round(u)),
                         ("percent-s", lambda: "%s" % u)):
            try:
                f()
                out = "ok"
            except Exception as e:  # noqa
                out = type(e).__name__
            seen.setdefault(label, {})[c] = out
            ctx.count("unspecified-probe/" + label)
    # a lone expression rendered by a NativeEnvironment is returned, not printed: no operation is applied
    from jinja2.nativetypes import NativeEnvironment
    for c in CLASSES:
        try:
            r = NativeEnvironment(undefined=w.cls[c]).from_string("{{ missing_var }}").render()
            out = "returns the undefined object" if isinstance(r, w.plain) else "returns " + type(r).__name__
        except Exception as e:  # noqa
            out = type(e).__name__
        seen.setdefault("native-lone-expression", {})[c] = out
        ctx.count("unspecified-probe/native-lone-expression")
    ctx.extra["unspecified_probes"] = seen


def default_logger_history(ctx):
    """history: make_logging_undefined() WITHOUT a logger, called several times in one process, must still emit
    each message once (the default logger is shared)"""
    code = ("import sys, io\nfrom jinja2.runtime import make_logging_undefined\n"
            "classes = [make_logging_undefined() for _ in range(3)]\n"
            "str(classes[0](name='x')); list(classes[2](name='y'))\n")
    rc, out, err = lib.impl_python(code)
    lines = [ln for ln in err.splitlines() if "Template variable warning" in ln]
    ctx.case(key=("history", "default-logger"))
    ctx.count("history/default-logger")
    if rc != 0 or len(lines) != 2:
        ctx.reject({"history": "make_logging_undefined() x3, then print one and iterate another", "stderr": err[-300:]},
                   f"two logged events produced {len(lines)} lines on the default logger (rc={rc})", "C21:history:default-logger-handlers")
    else:
        ctx.validated()


def logging_constant_folding(ctx, w):
    """a logging undefined printed inside an expression the compiler can fold: the print must be logged when the
    template is RENDERED (every time), not only when it is compiled"""
    from jinja2.runtime import make_logging_undefined
    for src, data in (("{{ {}.k ~ 'z' }}", {}), ("{{ [][3] ~ 'z' }}", {}), ("{{ dd.k ~ 'z' }}", {"dd": {}})):
        lg = Logger()
        env = w.jinja2.Environment(undefined=make_logging_undefined(lg))
        t = env.from_string(src)
        at_compile = len(lg.events)
        lg.events.clear()
        t.render(**data)
        t.render(**data)
        at_render = len([e for e in lg.events if e[0] == "W"])
        ctx.case(key=("folding", src))
        ctx.count("logging/constant-folding")
        if at_render != 2:
            ctx.reject({"template": src, "warnings_at_compile": at_compile, "warnings_in_two_renders": at_render},
                       f"printing a logging undefined in {src!r} logged {at_compile} warning(s) at compile time and {at_render} in two renders (expected one per render)",
                       "C21:logging:folded-print-logged-at-compile-only")
        else:
            ctx.validated()


def probes(ctx, w):
    """hypothesis probes: names outside the model's `simple` class, the empty hint, a name of None"""
    from jinja2.utils import missing
    n = 0
    for c in CLASSES:
        k = w.cls[c]
        for kw, want in (({"name": "it's"}, repr("it's")), ({"name": "a\\b"}, repr("a\\b")), ({"name": "é中"}, repr("é中")),
                         ({"name": "x", "hint": ""}, "'x'"), ({"name": None}, "None"),
                         ({"name": "at", "obj": {}}, "'at'"), ({"name": 3, "obj": []}, "3"),
                         ({"hint": "explicit hint", "name": "x", "obj": 1}, "explicit hint")):
            u = k(**kw)
            n += 1
            w.logger.events.clear()
            try:
                u + 1
                got = "no exception"
            except w.UndefinedError as e:
                got = str(e)
            except Exception as e:  # noqa
                got = "X:" + type(e).__name__
            ctx.case(key=("probe", c, repr(kw)))
            ctx.count("probe/message")
            if want not in got:
                ctx.reject({"type": c, "constructor": repr(kw), "observed": got},
                           f"error message {got!r} does not name the subject {want}", f"C21:probe:{c}:{sorted(kw)}")
            else:
                ctx.validated()
    return n


def run(ctx):
    jinja2 = lib.use_repo_jinja()
    ctx.extra["rule"] = RULE
    ctx.extra["exhaustive"] = True
    ctx.assumptions += [
        "CPython's operator dispatch (binary_op1 / slot_nb_*, do_richcompare, the copy / pickle reduce protocol) is as "
        "modelled in Model/Undef.v for the operand kinds of the domain; builtin int/float/str/None/list operands "
        "answer NotImplemented except str %% x (validated by K-rt on every cell)",
        "utils.object_type_repr supplies the owner's type text; repr of a name is modelled for names without quotes, "
        "backslashes or non-printable characters (other names are probed on the real engine only)",
        "log events are observed through a logger object passed to make_logging_undefined",
    ]
    ctx.proof("C21")
    snapshot = open(os.path.join(lib.ROOT, "gen", "undef_snapshot_tables.txt")).read().split("\n")
    snapshot = [ln for ln in snapshot if ln]
    try:
        tr = undef_tables.translate(lib.SRC)
        table_lines = undef_tables.driver_lines(tr)
        ok, _ = ctx.coq_obligation("Gen_undef", gen_obligation(tr), n_obligations=3)
        ctx.extra["tables_equal_snapshot"] = (table_lines == snapshot)
    except undef_tables.TranslateError as e:
        ctx.obligations += 3
        ctx.obligation_names.append("Gen_undef (regenerated, 3)")
        ctx.broken.append(f"translator gen/undef_tables.py does not recognise the source: {e}")
        table_lines = snapshot
    # T5 tie: every method body of the undefined classes, translated into Lib/UndefPy terms, is proved equal to
    # the meaning (kind_sem) of the kind the class table gives it; _undefined_message and DebugUndefined.__str__
    # are proved equal to message / debug_str
    import undef_translate
    try:
        vtext, n_eq = undef_translate.emit(lib.SRC)
        ok, out = ctx.coq_obligation("Gen_undefsrc", vtext, n_obligations=n_eq)
        if ok:
            ctx.trusted.append("Gen_undefsrc (source = model equations): " + " ".join(out.split()))
    except undef_translate.Untranslatable as e:
        ctx.obligations += 22
        ctx.obligation_names.append("Gen_undefsrc (regenerated, 22)")
        ctx.broken.append(f"translator gen/undef_translate.py: a method of the undefined classes left the translatable vocabulary: {e}")
    w = World(jinja2)
    cells = []
    for c in CLASSES:
        for origin in ORIGINS:
            for op in (all_ops() if origin not in OWNER_ORIGINS else OWNER_OPS):
                cells.append((c, origin, op, "direct"))
                if op == "getattr":
                    cells += [(c, origin, op, v) for v in ("direct-lead", "direct-trail", "direct-under")]
                if op == "getitem":
                    cells += [(c, origin, op, v) for v in list(ITEM_KEYS) + list(ITEM_KEY_SRC)]
                if op in ("str", "bool") and origin != "unsafe":
                    cells.append((c, origin, op, "template-async"))     # the same template in an enable_async environment
                    cells.append((c, origin, op, "template-native"))    # ... printed inside a multi-node native template
                    cells.append((c, origin, op, "template-native-async"))
                # (a call written in a SANDBOXED template goes through SandboxedEnvironment.call's own gate, which
                # probes obj.unsafe_callable / alters_data first: C18's subject, not modelled here)
                light = ctx.tier != "thorough" and op.split(":")[-1] in ("bool", "tuple", "dict", "bytes")   # quick: these kinds directly only
                if template_form(op, origin) and not (origin == "unsafe" and op == "callt") and not light:
                    cells.append((c, origin, op, "template"))
    results, msgs = run_cells(ctx, w, table_lines, cells)
    # the model's message text must be the real _undefined_message
    for (c, origin), m in msgs.items():
        ctx.case(key=("message", c, origin))
        ctx.count("message")
        if m["self"] != m["real_message"]:
            ctx.model_mismatch("K-rt _undefined_message", {"type": c, "origin": origin}, m["self"], m["real_message"], None)
        else:
            ctx.validated()
    judge(ctx, w, results)
    probes(ctx, w)
    unspecified_probes(ctx, w)
    default_logger_history(ctx)
    logging_constant_folding(ctx, w)


def replay(ctx, data):
    jinja2 = lib.use_repo_jinja()
    case = data.get("case")
    if data.get("kind") != "failing-input" or case is None or "operation" not in case:
        print("replay: names a broken theorem/correspondence or a probe:", data.get("broken") or case)
        return run(ctx)
    w = World(jinja2)
    try:
        table_lines = undef_tables.driver_lines(undef_tables.translate(lib.SRC))
    except undef_tables.TranslateError:
        table_lines = [ln for ln in open(os.path.join(lib.ROOT, "gen", "undef_snapshot_tables.txt")).read().split("\n") if ln]
    cell = (case["type"], case["origin"], case["operation"], case["path"])
    results, _ = run_cells(ctx, w, table_lines, [cell])
    for cell, model, real, detail, spec, m in results:
        print("documented:", spec, "\nobserved  :", real, detail, "\nmodel     :", model)
    judge(ctx, w, results)
