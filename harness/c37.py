"""C37 — concurrent async renders do not interfere.

proof:  Properties/C37.v (task_noninterference: every interleaving of await-to-await segments gives
        each task its isolated result; module_cache_fill_once; witness that a cache value depending
        on task-private state breaks it) - built on the same Frames development as C29.
T3   :  the regenerated write-footprint obligation (shared with C29, harness/frames_common.py).
K/O  :  2-3 renders as asyncio tasks on ONE environment; their data / global functions await
        gates controlled by the harness; every order of gate releases that respects each task's
        own order is enumerated (<= 6 gates); per-task output must equal the output of the same
        template rendered alone.  Includes racing fills of Template._module through
        _get_default_module_async (a gate inside the imported template's body), shared macros,
        namespaces, loop state, includes.
"""
import asyncio
import itertools
import warnings

from . import lib
from . import frames_common as FC

RULE = ("task sets: 2-3 templates drawn from gate-carrying snippets (gates inside loops with loop state, namespaces, macros, "
        "call blocks, includes, imported modules whose body awaits a gate so that _get_default_module_async races, filters "
        "over async results) plus state-carrying snippets of C29; total gates <= 6; every interleaving of gate releases "
        "(all merges of the tasks' gate sequences) is run on a fresh environment shared by the tasks; a case = (task set, "
        "release order); distinct non-trivial = at least two tasks are suspended at gates at the same time at some point "
        "of the order (measured)")

GATE_SNIPS = [
    "{{ gate('a') }}", "[{{ gate('b') }}]",
    "{% for x in nums %}{{ loop.index }}{% if loop.first %}{{ gate('l') }}{% endif %}{{ loop.revindex }}{% endfor %}",
    "{% set ns = namespace(c=0) %}{% for x in nums %}{% set ns.c = ns.c + x %}{% if loop.last %}{{ gate('n') }}{% endif %}{% endfor %}{{ ns.c }}",
    "{% macro m(p) %}<{{ p }}{{ gate('m') }}{{ p }}>{% endmacro %}{{ m(tid) }}",
    "{% macro w() %}{{ caller() }}{% endmacro %}{% call w() %}{{ tid }}{{ gate('c') }}{{ tid }}{% endcall %}",
    "{% import 'glib.html' as L %}{{ L.v }}{{ L.gm(tid) }}",
    "{% from 'glib.html' import gm %}{{ gm(tid) }}",
    "{% include 'ginc.html' %}",
    "{% set v = gate('s') %}{{ v }}{{ tid }}", "{% set who = tid %}{{ gate('t') }}{{ who }}",
    "{% autoescape true %}{{ gate('e') }}{{ html }}{% endautoescape %}{{ html }}", "{{ html }}{{ gate('h') }}{{ [html, html]|join('-') }}{{ html|upper }}",
    # a module imported without context whose macro reads a template-level global of the importer; the tasks' template
    # objects carry different values for it (sets with TPL_GLOBALS)
    "{% import 'glibg.html' as LG %}{{ LG.show() }}{{ gate('tg') }}{{ LG.show() }}{{ LG.tv }}", "{% from 'glibg.html' import show %}{{ gate('th') }}{{ show() }}",
    # values that pass through auto_await: a plain generator object (not awaitable) and a generator-based coroutine made by
    # types.coroutine (awaitable, same type): in either order, in different tasks
    "{% for x in plaingen() %}{{ x }}{% endfor %}{{ gate('pg') }}{{ legacy(tid) }}", "{{ legacy(tid) }}{{ gate('lg') }}{% for x in plaingen() %}{{ x }}{% endfor %}",
    "{{ gate('lh') }}{{ legacy(1) + legacy(2) }}",
    # an autoescape block decided at run time (differently per task) whose body suspends
    "{% autoescape (tid == 'T0') %}{{ gate('ax') }}{{ [html, '<m>'|safe]|join('-') }}{{ html }}{% endautoescape %}{{ html }}",
    # await points inside an async filter and inside the iteration of an async iterable (loop state per task)
    "{{ tid|gf }}{{ html|gf('g2')|upper }}", "{% for x in gxs %}{{ x }}{{ loop.index }}{{ loop.last }}{{ tid }}{% endfor %}",
    "{% for x in gxs if x %}{{ loop.length }}{{ tid }}{% endfor %}", "{{ [tid, 'z']|map('gf')|join }}",
    # callers with different autoescape modes around a cached module's macro whose body suspends
    "{% autoescape true %}{% import 'glib3.html' as L3 %}{{ L3.gm3(html) }}{% endautoescape %}",
    "{% autoescape false %}{% import 'glib3.html' as L3 %}{{ L3.gm3(html) }}{% endautoescape %}",
    "{% import 'glib3.html' as L3 %}{{ L3.gm3(tid) }}{{ html }}",
    # an {% autoescape %} block inside a cached module's macro (recorded finding C37-F1)
    "{% import 'glib4.html' as L4 %}{{ L4.f4(html) }}", "{% import 'glib4.html' as L4 %}{{ L4.t4(html) }}{{ [html, '<m>'|safe]|join }}",
    "{% import 'glib4.html' as L4 %}{{ L4.s4(html) }}",
    "{% import 'glib2.html' as L2 %}{{ L2.who }}{{ gate('z') }}{{ L2.gm2() }}",
    "{% set c = cycler('o', 'e') %}{{ c.next() }}{{ gate('y') }}{{ c.next() }}{{ c.next() }}",
    "{% filter upper %}{{ tid }}{{ gate('f') }}{% endfilter %}",
    "{{ words|map('upper')|join }}{{ gate('j') }}{{ lists|sum(start=acc)|length }}",
    "{% with q = tid %}{{ gate('w') }}{{ q }}{% endwith %}",
    "{% block blk %}{{ tid }}{{ gate('k') }}{% endblock %}{{ self.blk() }}",
]
AUX = {
    "glib.html": "{% macro gm(p) %}({{ p }}{{ gl.a }}){% endmacro %}{% set v = ggate('modbody') %}",
    "ginc.html": "<{{ tid }}{{ gate('i') }}{{ tid }}{{ nums|sum }}>",
    "pa.html": "PA({% block b %}a-b{% endblock %}|{% block c %}a-c{% endblock %})",
    "pb.html": "PB<{% block c %}b-c{{ gate('pb') }}{% endblock %}|{% block b %}b-b{% endblock %}>",
    "pc.html": "{% extends 'pa.html' %}{% block b %}c-b{{ super() }}{% endblock %}",
    "glibg.html": "{% macro show() %}[{{ tgv|default('-') }}]{% endmacro %}{% set tv = tgv|default('-') %}",
    "glib3.html": "{% macro gm3(p) %}<b>{{ ggate('m3') }}{{ p }}</b>{% endmacro %}",
    "glib4.html": "{% macro f4(x) %}{% autoescape false %}{{ ggate('ae') }}{{ [x, '<m>'|safe]|join('-') }}{% endautoescape %}{% endmacro %}"
                  "{% macro s4(x) %}{% autoescape false %}{{ ggate('as') }}{% set v %}{{ x }}{% endset %}{{ v }}{% macro c4() %}{{ caller() }}{% endmacro %}{% call c4() %}{{ x }}{% endcall %}{% endautoescape %}{% endmacro %}"
                  "{% macro t4(x) %}{% autoescape true %}{{ ggate('at') }}{{ [x, '<m>'|safe]|join('-') }}{% endautoescape %}{% endmacro %}",
    "glib2.html": "{% set who = tid|default('none') %}{% macro gm2() %}[{{ who }}]{% endmacro %}",
}


DYN_PARENT = [
    "{% extends layout %}{% block b %}c[{{ gate('p') }}{{ super() }}]{{ tid }}{% endblock %}",
    "{% if layout %}{% extends layout %}{% endif %}{% block b %}d{{ super() }}{{ gate('q') }}{% endblock %}{% block c %}{{ tid }}{{ super() }}{% endblock %}",
]


def make_task_template(rng):
    if rng.random() < 0.15:
        return rng.choice(DYN_PARENT)
    parts = []
    for _ in range(rng.randint(1, 3)):
        parts.append(rng.choice(GATE_SNIPS) if rng.random() < 0.75 else rng.choice(FC.STATE_SNIPS[:36]))
    if not any("gate" in p or "glib" in p or "ginc" in p for p in parts):
        parts.append(GATE_SNIPS[0])
    return "|".join(parts)


class Sched:
    """gates: a task that reaches a gate parks on a future; the harness releases them one at a time"""

    def __init__(self):
        self.waiting = {}       # task name -> future
        self.log = []
        self.auto = False
        self.max_parked = 0

    async def gate(self, label):
        name = asyncio.current_task().get_name()
        self.log.append((name, label))
        if self.auto:
            await asyncio.sleep(0)
            return "g"
        fut = asyncio.get_running_loop().create_future()
        self.waiting[name] = fut
        self.max_parked = max(self.max_parked, len(self.waiting))
        await fut
        return "g"


SANDBOX = [False]
ENTRY_MIX = [False]     # odd tasks consume generate_async instead of awaiting render_async


def make_env(jinja2, templates, sched, autoescape=False):
    from jinja2.sandbox import SandboxedEnvironment
    loader = jinja2.FunctionLoader(lambda n: (templates[n], n, lambda: True) if n in templates else None)
    cls = SandboxedEnvironment if SANDBOX[0] else jinja2.Environment
    env = cls(loader=loader, enable_async=True, autoescape=autoescape)
    data, eg, tg = FC.make_inputs()
    env.globals.update(eg)
    env.sched_holder = {"sched": sched}          # an environment reused for several orders gets a new scheduler each time

    async def ggate(label):
        return await env.sched_holder["sched"].gate(label)

    async def gf(value, label="gf"):
        await env.sched_holder["sched"].gate(label)
        return value

    env.globals["ggate"] = ggate
    env.filters["gf"] = gf
    return env


class GatedAIter:
    """an async iterable as data whose __anext__ parks on a gate before every item"""

    def __init__(self, sched_of, items):
        self.sched_of, self.items = sched_of, list(items)

    def __aiter__(self):
        self.i = 0
        return self

    async def __anext__(self):
        if self.i >= len(self.items):
            raise StopAsyncIteration
        await self.sched_of().gate("it%d" % self.i)
        self.i += 1
        return self.items[self.i - 1]


def task_data(sched, tid):
    data, _, _ = FC.make_inputs()

    async def gate(label):
        return await sched.gate(label)

    import types

    def plaingen():
        return (x for x in ("p", "q"))

    @types.coroutine
    def legacy(x):
        yield from asyncio.sleep(0).__await__()
        return x if isinstance(x, str) else x * 3

    data.update(plaingen=plaingen, legacy=legacy)
    data.update(gxs=GatedAIter(lambda: sched, [1, 0]), gate=gate, tid=tid, html="<i>" + tid, layout=["pa.html", "pb.html", "pc.html"][int(tid[1:]) % 3])
    return data


TPL_GLOBALS = [False]    # every task renders its own template object made with a template-level global tgv = its task id


async def render_task(env, name, data):
    try:
        if TPL_GLOBALS[0]:
            t = env.from_string(env.loader.get_source(env, name)[0], globals={"tgv": data.get("tid", "?")})
        else:
            t = env.get_template(name)
        if data.get("tid", "T0")[-1] in "13" and ENTRY_MIX[0]:
            return "ok:" + "".join([c async for c in t.generate_async(**data)])
        return "ok:" + await t.render_async(**data)
    except Exception as e:  # noqa
        return "exc:" + type(e).__name__


def run_alone(jinja2, loop, templates, name, tid, autoescape=False):
    sched = Sched()
    sched.auto = True
    env = make_env(jinja2, templates, sched, autoescape)
    task = loop.create_task(render_task(env, name, task_data(sched, tid)), name=tid)
    out = loop.run_until_complete(task)
    return out, [lab for _, lab in sched.log]


def run_order(jinja2, loop, templates, names, order, autoescape=False, shared_env=None):
    """order: list of task ids; each entry releases that task's next gate.  -> (outputs, max parked, deviated)"""
    sched = Sched()
    if shared_env is not None:
        env = shared_env
        env.sched_holder["sched"] = sched
    else:
        env = make_env(jinja2, templates, sched, autoescape)

    async def main():
        tasks = {}
        for i, n in enumerate(names):
            tid = f"T{i}"
            tasks[tid] = asyncio.get_running_loop().create_task(render_task(env, n, task_data(sched, tid)), name=tid)

        async def settle():
            for _ in range(6):
                await asyncio.sleep(0)

        await settle()
        deviated = False
        for tid in order:
            fut = sched.waiting.pop(tid, None)
            if fut is None:
                deviated = True          # the task is not at a gate (finished early / failed): skip
                continue
            fut.set_result(None)
            await settle()
        # release whatever is left (only when a task met more gates than in its isolated run)
        guard = 0
        while sched.waiting and guard < 50:
            deviated = True
            _, fut = sched.waiting.popitem()
            fut.set_result(None)
            await settle()
            guard += 1
        outs = {}
        for tid, t in tasks.items():
            outs[tid] = await asyncio.wait_for(t, 60)
        return outs, deviated

    outs, deviated = loop.run_until_complete(main())
    return outs, sched.max_parked, deviated


def merges(seqs):
    """all interleavings of the given sequences (as lists of sequence indices)"""
    counts = [len(s) for s in seqs]
    total = sum(counts)

    def go(rem, acc):
        if len(acc) == total:
            yield list(acc)
            return
        for i, r in enumerate(rem):
            if r:
                rem[i] -= 1
                acc.append(i)
                yield from go(rem, acc)
                acc.pop()
                rem[i] += 1
    yield from go(list(counts), [])


def run(ctx):
    jinja2 = lib.use_repo_jinja()
    ctx.extra["rule"] = RULE
    ctx.assumptions += [
        "the event loop resumes tasks only at await points; the steps of the model are the await-to-await segments",
        "every write the engine performs during a render is an instance of a row of the regenerated footprint table (T3)",
        "gate functions are data: they park the calling task on a future until the harness releases it",
    ]
    ctx.proof("C37")
    n_sets = ctx.size(160, 1200)
    loop = asyncio.new_event_loop()
    gen_sources = []
    try:
        with warnings.catch_warnings():
            warnings.simplefilter("ignore")
            for si in range(n_sets):
                ntasks = ctx.rng.choice([2, 2, 3])
                auto = (si % 3 == 1) if si >= len(FIXED) else FIXED_AUTO[si]
                SANDBOX[0] = (si % 5 == 2)
                TPL_GLOBALS[0] = (si % 3 == 2) or (si < len(FIXED) and FIXED_TPLG[si])
                ENTRY_MIX[0] = (si % 2 == 1)
                reuse = (si % 4 == 0 and si >= len(FIXED))
                for _attempt in range(20):
                    templates = dict(AUX)
                    names = []
                    for i in range(ntasks):
                        templates[f"t{i}.html"] = (make_task_template(ctx.rng) if si % 7 or i == 0 else templates["t0.html"]) \
                            if si >= len(FIXED) else FIXED[si][i % len(FIXED[si])]
                        names.append(f"t{i}.html")
                    if si < len(FIXED):
                        names = names[: len(FIXED[si])]
                    # tasks with the same source render the same Template object (one name)
                    first = {}
                    names = [first.setdefault(templates[n], n) for n in names]
                    alone = [run_alone(jinja2, loop, templates, n, f"T{i}", auto) for i, n in enumerate(names)]
                    # gates of an imported module body are met by whichever task(s) find the cache empty: count them
                    # per task as in the isolated run; total <= 6
                    if 2 <= sum(len(a[1]) for a in alone) <= 6:
                        break
                else:
                    continue
                if si < 6:
                    env = make_env(jinja2, templates, Sched())
                    for n, src in templates.items():
                        gen_sources.append((n, env.compile(src, n, n, raw=True)))
                seqs = [a[1] for a in alone]
                shared = make_env(jinja2, templates, Sched(), auto) if reuse else None
                if shared is not None:
                    # one environment for every order of this set: warm its caches (modules) with one isolated pass
                    for i, n in enumerate(names):
                        s0 = Sched()
                        s0.auto = True
                        shared.sched_holder["sched"] = s0
                        loop.run_until_complete(loop.create_task(render_task(shared, n, task_data(s0, f"T{i}")), name=f"T{i}"))
                    # with warm module caches the tasks do not meet the module-body gates any more
                    seqs = [[g for g in q if g != "modbody"] for q in seqs]
                for order_idx in merges(seqs):
                    order = [f"T{i}" for i in order_idx]
                    case = {"templates": templates, "names": names, "order": order, "autoescape": auto, "sandbox": SANDBOX[0],
                            "entry_mix": ENTRY_MIX[0], "shared_env": reuse, "tpl_globals": TPL_GLOBALS[0]}
                    try:
                        outs, parked, deviated = run_order(jinja2, loop, templates, names, order, auto, shared)
                    except Exception as e:  # noqa
                        outs, parked, deviated = {f"T{i}": "harness:" + type(e).__name__ for i in range(len(names))}, 0, True
                    ctx.case(sample=dict(case, outputs=outs) if parked >= 2 and ctx.evaluations % 211 == 0 else None,
                             key=(tuple(templates[n] for n in names), tuple(order), auto) if parked >= 2 else None)
                    ctx.count(f"tasks_{len(names)}")
                    ctx.count("deviated" if deviated else "as_planned")
                    bad = [tid for i, tid in enumerate(sorted(outs)) if outs[tid] != alone[i][0]]
                    if bad:
                        i = int(bad[0][1:])
                        ctx.reject(dict(case, task=bad[0], alone=alone[i][0][:300], concurrent=outs[bad[0]][:300]),
                                   f"task {bad[0]} rendered concurrently differs from the same template rendered alone",
                                   culprit(templates[names[i]]) if "glib4.html" in templates[names[i]]
                                   else "concurrent task output differs: " + culprit(templates[names[i]]))
                    else:
                        ctx.validated()
    finally:
        loop.close()
    FC.t3_obligation(ctx, gen_sources)


def culprit(src):
    if "glib4.html" in src:
        return FC.SIG_MODULE_EVALCTX
    for key in ("extends layout", "glib2.html", "glib.html", "ginc.html", "namespace", "cycler", "macro", "loop.", "sum(start", "block"):
        if key in src:
            return key
    return "plain gate"


# regression sets run first: racing module-cache fill, shared macro import, include + namespace
FIXED = [
    ["{% import 'glib.html' as L %}{{ L.v }}{{ L.gm(tid) }}", "{% from 'glib.html' import gm %}{{ gm(tid) }}{{ gate('a') }}"],
    ["{% set ns = namespace(c=0) %}{% for x in nums %}{% set ns.c = ns.c + x %}{{ gate('n') }}{% endfor %}{{ ns.c }}{{ tid }}",
     "{% include 'ginc.html' %}{{ lists|sum(start=acc)|length }}"],
    ["{% autoescape true %}{{ gate('e') }}{{ html }}{% endautoescape %}{{ html }}", "{{ html }}{{ gate('h') }}{{ [html, html]|join('-') }}",
     "{% set who = tid %}{% import 'glib2.html' as L2 %}{{ L2.who }}{{ gate('z') }}{{ L2.gm2() }}{{ who }}"],
    # two tasks inside the autoescape block of a cached module's macro (finding C37-F1), environment autoescape on
    ["{% import 'glib4.html' as L4 %}{{ L4.f4(html) }}", "{% import 'glib4.html' as L4 %}{{ L4.f4(html) }}{{ [html, '<m>'|safe]|join }}"],
    # callers with different autoescape modes around a shared macro that suspends
    ["{% autoescape true %}{% import 'glib3.html' as L3 %}{{ L3.gm3(html) }}{% endautoescape %}",
     "{% autoescape false %}{% import 'glib3.html' as L3 %}{{ L3.gm3(html) }}{% endautoescape %}"],
]
FIXED.append([DYN_PARENT[0], DYN_PARENT[0], DYN_PARENT[0]])      # one template, three tasks, three different parents
AE_DYN = "{% autoescape (tid == 'T0') %}{{ gate('ax') }}{{ [html, '<m>'|safe]|join('-') }}{{ html }}{% endautoescape %}{{ html }}"
FIXED.append([AE_DYN, AE_DYN])        # one Template object, two tasks, different run-time autoescape decisions
FIXED.append(["{% for x in plaingen() %}{{ x }}{% endfor %}{{ gate('pg') }}{{ legacy(tid) }}", "{{ gate('lg') }}{{ legacy(tid) }}{% for x in plaingen() %}{{ x }}{% endfor %}"])
FIXED.append(["{% import 'glibg.html' as LG %}{{ LG.show() }}{{ gate('tg') }}{{ LG.show() }}{{ LG.tv }}", "{% from 'glibg.html' import show %}{{ gate('th') }}{{ show() }}"])
FIXED_AUTO = [False, False, False, True, False, False, False, False, False]
FIXED_TPLG = [False] * 8 + [True]


def replay(ctx, data):
    jinja2 = lib.use_repo_jinja()
    case = data.get("case")
    if data.get("kind") != "failing-input" or case is None:
        print("replay: names a broken theorem / obligation / correspondence:", data.get("broken"))
        return run(ctx)
    loop = asyncio.new_event_loop()
    templates, names, order = case["templates"], case["names"], case["order"]
    auto = case.get("autoescape", False)
    SANDBOX[0] = case.get("sandbox", False)
    ENTRY_MIX[0] = case.get("entry_mix", False)
    TPL_GLOBALS[0] = case.get("tpl_globals", False)
    alone = [run_alone(jinja2, loop, templates, n, f"T{i}", auto) for i, n in enumerate(names)]
    outs, parked, deviated = run_order(jinja2, loop, templates, names, order, auto)
    loop.close()
    for i, tid in enumerate(sorted(outs)):
        print(tid, "alone:", alone[i][0][:120], "| concurrent:", outs[tid][:120])
        if outs[tid] != alone[i][0]:
            ctx.reject(case, f"task {tid} rendered concurrently differs from the same template rendered alone", data.get("signature"))
