"""C01 — every template source compiles or fails with a template syntax error.

proof : Properties/C01parse.v (statement parser model: parse_total_no_internal, internal_iff_not_wf,
        linear fuel for the statement loops), Properties/C01lex.v (lexer totality), Properties/C01.v (code-generation half: whatever gen accepts satisfies CPython's
        acceptance rules, for all statement trees, under NoAlias; the alias refutation) and
        the lexer totality lemmas of the lexer development when present (Properties/C01lex.v).
tie   : K-gen  extracted PyWf.gens/facts == the real compiler: outcome (ok / TemplateSyntaxError)
        and, from the real generated Python parsed with `ast`, for every break/continue whether
        a for of the same function encloses it, the parameter lists of macro / call-block
        functions, the keyword lists of context.call sites.
oracle: the property itself on the real engine: Environment.from_string(src) returns, or
        raises TemplateSyntaxError with 1 <= lineno <= number of lines; nothing else, within a
        time limit; generated module accepted by compile().  Streams: exhaustive short strings
        over a delimiter-fragment alphabet under several configurations, grammar-generated
        templates and token-level mutations, hypothesis probes (§2.4).
"""
import ast
import itertools
import multiprocessing as mp
import re
import signal
import time

from . import lib
from .gen_templates import TGen

RULE = ("K-gen: random statement skeletons (size <= 14) over {text, break, continue, use of caller/kwargs/varargs, call "
        "with keywords, if, for [recursive] with else, with/filter/set-block/autoescape, macro, call block, block}; "
        "distinct = printed source; non-trivial = contains break/continue or a parameter list. "
        "O: (i) every string of <= L fragments over the delimiter-fragment alphabet per configuration, "
        "(ii) grammar-generated template sets and token-level mutations of them, (iii) hypothesis probes; "
        "distinct = (configuration, source); non-trivial = source contains a delimiter start sequence.")

NAMES = {1: "caller", 2: "kwargs", 3: "varargs", 4: "_loop_vars", 5: "_block_vars", 8: "fi", 9: "\ufb01"}


def nm(n):
    return NAMES.get(n, f"p{n}")


# ------------------------------------------------------------------ skeleton programs
def gen_target(r, depth):
    """assignment target: (driver tokens, jinja text, is a bare name)"""
    k = r.random()
    if depth <= 0 or k < 0.45:
        if r.random() < 0.75:
            n = r.choice([10, 11, 12, 10, 11, 12, 1, 2, 3])
            return ["n", str(n)], nm(n)
        return ["c"], r.choice(["1", "'s'", "true", "none", "2.5"])
    items = [gen_target(r, depth - 1) for _ in range(r.randint(1, 3))]
    toks = ["t", str(len(items))]
    for t, _ in items:
        toks += t
    txt = "(" + ", ".join(s for _, s in items) + ("," if len(items) == 1 else "") + ")"
    return toks, txt


def gen_skel(r, depth, budget):
    """returns (tokens for the driver, jinja source builder)"""
    k = r.random()
    if depth <= 0 or budget[0] <= 0 or k < 0.22:
        k2 = r.random()
        if k2 < 0.18:
            tt, ts = gen_target(r, 3)
            if r.random() < 0.5:
                return ["G", "0"] + tt, "{% set " + ts + " = x %}"
            return ["G", "1"] + tt, "{% for " + ts + " in x %}{% endfor %}"
        if k2 < 0.3:
            return ["T"], "t"
        if k2 < 0.5:
            return ["B"], "{% break %}"
        if k2 < 0.7:
            return ["C"], "{% continue %}"
        if k2 < 0.85:
            n = r.choice([1, 2, 3])
            return ["U", str(n)], "{{ " + nm(n) + " }}"
        ks = [r.choice([10, 11, 12, 8, 9, 1, 4, 5, 4, 5]) for _ in range(r.randint(0, 3))]
        return ["K", str(len(ks))] + [str(x) for x in ks], "{{ f(" + ", ".join(f"{nm(x)}=1" for x in ks) + ") }}"
    budget[0] -= 1

    def body(maxn=3):
        items = [gen_skel(r, depth - 1, budget) for _ in range(r.randint(0, maxn))]
        toks = [str(len(items))]
        for t, _ in items:
            toks += t
        return toks, "".join(s for _, s in items)

    if k < 0.36:
        (tb, sb), (te, se) = body(), body(2)
        src = "{% if x %}" + sb + ("{% else %}" + se if te != ["0"] or r.random() < 0.3 else "") + "{% endif %}"
        if te == ["0"] and "{% else %}" not in src:
            pass
        return ["I"] + tb + te, src
    if k < 0.58:
        rec = r.random() < 0.3
        (tb, sb), (te, se) = body(), body(2)
        filt = " if i" if (not rec and r.random() < 0.2) else ""
        src = "{% for i in y" + filt + (" recursive" if rec else "") + " %}" + sb
        if te != ["0"]:
            src += "{% else %}" + se
        return ["F", "1" if rec else "0"] + tb + te, src + "{% endfor %}"
    if k < 0.70:
        tb, sb = body()
        form = r.choice(["with", "filter", "set", "autoescape"])
        src = {"with": "{% with q = 1 %}" + sb + "{% endwith %}",
               "filter": "{% filter upper %}" + sb + "{% endfilter %}",
               "set": "{% set q %}" + sb + "{% endset %}",
               "autoescape": "{% autoescape true %}" + sb + "{% endautoescape %}"}[form]
        if form == "autoescape":       # Scope([ScopedEvalContextModifier(body)])
            return ["W", "0", "1", "Z"] + tb, src
        return ["W", "1"] + tb, src      # with / filter block / block set: inner frame and a visitor scope
    if k < 0.84:
        ps = [r.choice([10, 11, 12, 2, 3, 8, 9, 1]) for _ in range(r.randint(0, 3))]
        tb, sb = body()
        budget[1] += 1
        return (["M", str(len(ps))] + [str(x) for x in ps] + tb,
                "{% macro m" + str(budget[1]) + "(" + ", ".join(nm(x) for x in ps) + ") %}" + sb + "{% endmacro %}")
    if k < 0.94:
        ps = [r.choice([10, 11, 12, 8, 9, 1, 2, 3]) for _ in range(r.randint(0, 2))]
        us = [r.choice([1, 2, 3, 10]) for _ in range(r.randint(0, 2))] if r.random() < 0.5 else []
        ks = [r.choice([10, 11, 12, 10, 11, 12, 1, 4, 5]) for _ in range(r.randint(0, 2))]
        tb, sb = body()
        return (["A", str(len(ps))] + [str(x) for x in ps] + [str(len(us))] + [str(x) for x in us]
                + [str(len(ks))] + [str(x) for x in ks] + tb,
                "{% call(" + ", ".join(nm(x) for x in ps) + ") f(" + ", ".join([nm(x) for x in us] + [f"{nm(x)}=1" for x in ks])
                + ") %}" + sb + "{% endcall %}")
    tb, sb = body()
    budget[1] += 1
    return ["L"] + tb, "{% block b" + str(budget[1]) + " %}" + sb + "{% endblock %}"


def real_facts(jinja2, src):
    env = jinja2.Environment(extensions=["jinja2.ext.loopcontrols"])
    try:
        with lib.cpu_guard(5.0):
            code = env.compile(src, raw=True)
    except jinja2.TemplateSyntaxError:
        return "E", None
    except lib.Hang:
        return "X:Hang:loading did not finish within 5 s of CPU time", None
    except Exception as e:  # noqa
        return "X:" + type(e).__name__ + ":" + str(e)[:80], None
    try:
        tree = ast.parse(code)
    except SyntaxError as e:
        return "bad", code
    facts = []
    inv = {v: k for k, v in NAMES.items()}

    def unname(a):
        m = re.match(r"l_\d+_(.*)$", a)
        base = m.group(1) if m else a
        if base in inv:
            return inv[base]
        if re.match(r"p\d+$", base):
            return int(base[1:])
        return None

    def walk(node, in_loop):
        for ch in ast.iter_child_nodes(node):
            if isinstance(ch, (ast.FunctionDef, ast.AsyncFunctionDef)):
                ps = [unname(a.arg) for a in ch.args.args]
                if ch.name in ("macro", "call") and any(p is not None for p in ps):
                    facts.append("d:" + ",".join(str(p) for p in ps))
                for st in ch.body:
                    walk_stmt(st, False)
            else:
                walk_stmt(ch, in_loop)

    def walk_stmt(st, in_loop):
        if isinstance(st, (ast.FunctionDef, ast.AsyncFunctionDef)):
            ps = [unname(a.arg) for a in st.args.args]
            if st.name in ("macro", "call") and ps:
                facts.append("d:" + ",".join(str(p) for p in ps))
            for s2 in st.body:
                walk_stmt(s2, False)
            return
        if isinstance(st, ast.Break):
            facts.append("b1" if in_loop else "b0")
            return
        if isinstance(st, ast.Continue):
            facts.append("c1" if in_loop else "c0")
            return
        if isinstance(st, (ast.For, ast.AsyncFor, ast.While)):
            scan_expr(st.iter if hasattr(st, "iter") else st.test)
            for s2 in st.body:
                walk_stmt(s2, True)
            for s2 in st.orelse:
                walk_stmt(s2, in_loop)
            return
        for field, val in ast.iter_fields(st):
            if isinstance(val, list):
                for v in val:
                    if isinstance(v, ast.stmt):
                        walk_stmt(v, in_loop)
                    elif isinstance(v, ast.AST):
                        scan_expr(v)
            elif isinstance(val, ast.AST):
                if isinstance(val, ast.stmt):
                    walk_stmt(val, in_loop)
                else:
                    scan_expr(val)

    def scan_expr(e):
        for n in ast.walk(e):
            if isinstance(n, ast.Call) and isinstance(n.func, ast.Attribute) and n.func.attr == "call" \
                    and isinstance(n.func.value, ast.Name) and n.func.value.id in ("context", "environment"):
                ks = [inv.get(k.arg, int(k.arg[1:]) if k.arg and re.match(r"p\d+$", k.arg) else None)
                      for k in n.keywords]                # the engine's own keywords (4, 5, caller) included
                ks = [k for k in ks if k is not None]     # **kwargs unpacking (the keyword workaround)
                if ks:
                    facts.append("k:" + ",".join(str(k) for k in ks))

    for st in tree.body:
        walk_stmt(st, False)
    try:
        compile(code, "<template>", "exec")
        ok = "ok"
    except SyntaxError:
        ok = "bad"
    return ok, facts


def k_gen(ctx, jinja2):
    n = ctx.size(3000, 40000)
    cases = []
    for _ in range(n):
        budget = [14, 0]
        items = [gen_skel(ctx.rng, 3, budget) for _ in range(ctx.rng.randint(1, 3))]
        toks = [str(len(items))]
        for t, _ in items:
            toks += t
        cases.append((" ".join(toks), "".join(s for _, s in items)))
    # a fixed family: call blocks and macros whose parameter is one of the special names, with the same or
    # another special name loaded in the call expression and / or in the body
    for pn in (1, 2, 3, 10):
        for un in (None, 1, 2, 3):
            for bn in (None, 1, 2, 3):
                toks = ["1", "A", "1", str(pn)] + (["1", str(un)] if un else ["0"]) + ["0"] + (["1", "U", str(bn)] if bn else ["0"])
                src = ("{% call(" + nm(pn) + ") f(" + (nm(un) if un else "") + ") %}" + ("{{ " + nm(bn) + " }}" if bn else "") + "{% endcall %}")
                cases.append((" ".join(toks), src))
                toks = ["1", "M", "1", str(pn)] + (["1", "U", str(bn)] if bn else ["0"])
                cases.append((" ".join(toks), "{% macro mq(" + nm(pn) + ") %}" + ("{{ " + nm(bn) + " }}" if bn else "") + "{% endmacro %}"))
    out = ctx.driver("pywf", [c[0] for c in cases])
    for (enc, src), m in zip(cases, out):
        ok, facts = real_facts(jinja2, src)
        nontriv = ("break" in src or "continue" in src or "macro" in src)
        ctx.case(sample={"source": src, "model": m} if nontriv and len(src) < 160 else None, key=src if nontriv else None)
        ctx.count("kgen_" + ("reject" if m == "E" else "accept"))
        if ok.startswith("X:"):
            ctx.reject({"source": src, "config": "loopcontrols"}, "compile raised " + ok[2:], sig_for(src, ok))
            continue
        if m == "E":
            if ok != "E":
                # the model rejects, the engine accepts: judge by CPython
                of = "generated module rejected by the Python compiler" if ok == "bad" else None
                ctx.model_mismatch("K-gen outcome (PyWf.gens vs Environment.compile)", {"source": src}, m, ok, of,
                                   sig_for(src, ok))
            else:
                ctx.validated()
            continue
        mparts = m.split()
        # ast.parse NFKC-normalises identifiers: compare modulo the same normalisation (9 -> 8)
        norm = lambda f: f[:2] + ",".join("8" if x == "9" else x for x in f[2:].split(",")) if f[:2] in ("d:", "k:") else f
        mok, mfacts = mparts[0], sorted(norm(f) for f in mparts[1:])
        if ok == "E":
            ctx.model_mismatch("K-gen outcome (PyWf.gens vs Environment.compile)", {"source": src}, m, ok, None)
            continue
        if ok == "bad":
            ctx.reject({"source": src, "config": "loopcontrols"},
                       "generated module rejected by the Python compiler", sig_for(src, ok))
            if mok == "bad":
                ctx.validated()     # the model predicts exactly this (alias refutation)
            continue
        if sorted(facts) != mfacts or mok != "ok":
            ctx.model_mismatch("K-gen structure facts (loop control placement, parameter lists, keyword lists)",
                               {"source": src}, m, ok + " " + " ".join(facts), None)
        else:
            ctx.validated()


def sig_for(src, outcome=""):
    """signature used to match recorded known findings — specific failure classes only"""
    if _nfkc_collision(src) and outcome == "bad":
        return "C01:nfkc-colliding-identifiers-in-one-parameter-or-keyword-list"
    return None


# ------------------------------------------------------------------ oracle on the real engine
def _fin(v):
    return v


def _fin_ctx(ctx_, v):
    return v


def _mk_fin_ctx():
    import jinja2
    return jinja2.pass_context(_fin_ctx)


CONFIGS = {
    "default": {},
    "erb": dict(block_start_string="<%", block_end_string="%>", variable_start_string="<%=", variable_end_string="%>",
                comment_start_string="<!--", comment_end_string="-->"),
    "dollar": dict(block_start_string="$%", block_end_string="%", variable_start_string="${", variable_end_string="}",
                   comment_start_string="$#", comment_end_string="#"),
    "line": dict(line_statement_prefix="#", line_comment_prefix="##"),
    "trim": dict(trim_blocks=True, lstrip_blocks=True, keep_trailing_newline=True),
    "async": dict(enable_async=True),
    "ext": dict(extensions=["jinja2.ext.i18n", "jinja2.ext.do", "jinja2.ext.loopcontrols", "jinja2.ext.debug"]),
    "sandbox": {"_class": "sandbox"},
    "ext_async_trim": dict(extensions=["jinja2.ext.i18n", "jinja2.ext.loopcontrols"], enable_async=True, trim_blocks=True,
                           line_statement_prefix="%"),
    # delimiters made of regex metacharacters; delimiters that are prefixes of one another
    "regexy": dict(block_start_string="(*", block_end_string="*)", variable_start_string="[[", variable_end_string="]]",
                   comment_start_string="(?", comment_end_string="?)", line_statement_prefix="\\", line_comment_prefix="^^"),
    "prefix": dict(block_start_string="<", block_end_string=">", variable_start_string="<<", variable_end_string=">>",
                   comment_start_string="<<<", comment_end_string=">>>", trim_blocks=True),
    # environment hooks that change what the code generator emits around every output
    "finalize": dict(finalize=_fin, autoescape=True),
    "finalize_ctx": dict(finalize="_mk_fin_ctx", optimized=False, extensions=["jinja2.ext.do", "jinja2.ext.loopcontrols"]),
    # templates loaded under a name (as every loader does): the name is embedded in the generated module
    "named": {"_named": True},
}
# names a loader may hand to the compiler: quotes, backslashes, braces, line breaks, non-ASCII
NAME_POOL = ['a"b', "c'd", "e\\f", "g\nh", "{{x}}", "{x!r}", "\u00fcn\u00ef", 'a"""b', "x\\", "%s %d", "'\"", "a\rb", "\u2028", "t.html"]
FRAGS = {
    "default": ["{{", "}}", "{%", "%}", "{#", "#}", "-", "\n", "a", " ", "\"", "(", "if ", "1"],
    "erb": ["<%", "%>", "<%=", "<!--", "-->", "-", "\n", "a", " ", "'", "[", "for ", "."],
    "dollar": ["$%", "%", "${", "}", "$#", "#", "$", "\n", "a", " ", "|"],
    "line": ["#", "##", "{{", "}}", "\n", "a", " ", "if a", "endif", ":", "{%", "%}"],
    "trim": ["{%", "%}", "{{", "}}", "-", "+", "\n", " ", "a", "raw", "endraw"],
    "async": ["{{", "}}", "{%", "%}", "for ", "a", " in ", "end", "\n", "(", ")"],
    "ext": ["{%", "%}", "{{", "}}", "trans", "endtrans", "pluralize", "do ", "break", "a", " ", "%", "debug"],
    "sandbox": ["{{", "}}", "a", ".", "__class__", "(", ")", "[", "]", "\"", "|", "attr"],
    "ext_async_trim": ["{%", "%}", "trans", "endtrans", "pluralize", "a", " "],
    "regexy": ["(*", "*)", "[[", "]]", "(?", "?)", "\\", "^^", "\n", "a", " ", "if a", "-"],
    "prefix": ["<", ">", "<<", ">>", "<<<", ">>>", "-", "\n", "a", " ", "raw", "endraw"],
    "finalize": ["{%", "%}", "{{", "}}", "autoescape a", "autoescape true", "endautoescape", "raw", "endraw", "x", " ", "<"],
    "finalize_ctx": ["{%", "%}", "{{", "}}", "autoescape a", "endautoescape", "set x", "endset", "filter e", "endfilter", "x", "<"],
    "named": ["{{", "}}", "{%", "%}", " 1 if a ", "from 'x' import a", "include ", "extends ", "a", " ", "(", "'x'"],
}

_ENVS = {}


def get_env(cfgname):
    import jinja2
    import jinja2.sandbox
    if cfgname not in _ENVS:
        kw = dict(CONFIGS[cfgname])
        cls = jinja2.sandbox.SandboxedEnvironment if kw.pop("_class", None) else jinja2.Environment
        kw.pop("_named", None)
        if kw.get("finalize") == "_mk_fin_ctx":
            kw["finalize"] = _mk_fin_ctx()
        _ENVS[cfgname] = cls(**kw)
    return _ENVS[cfgname]


class _Timeout(BaseException):
    """not an Exception: constant folding catches Exception and would swallow the guard"""


_ARMED = [False]


def _alarm(sig, frm):
    if _ARMED[0]:          # a tick that arrives while the guard is being taken down must not raise
        raise _Timeout()


def load_outcome(cfgname, src):
    """the property, on one source: returns None if it holds, else a description"""
    import jinja2
    env = get_env(cfgname)
    nlines = 1 + src.count("\n") + src.count("\r")       # generous upper bound on line count
    # "never hangs": 5 s of CPU time of this process (robust against machine load: a hang burns CPU),
    # with a generous wall-clock backstop
    signal.signal(signal.SIGVTALRM, _alarm)
    signal.signal(signal.SIGALRM, _alarm)
    _ARMED[0] = True
    signal.setitimer(signal.ITIMER_VIRTUAL, 5.0, 1.0)      # re-fires: a handler that swallows it does not disarm the guard
    signal.setitimer(signal.ITIMER_REAL, 120.0, 5.0)
    try:
        try:
            if cfgname == "named":
                import zlib
                tname = NAME_POOL[zlib.crc32(src.encode("utf-8", "surrogatepass")) % len(NAME_POOL)]
                code = env.compile(src, tname, tname)
                tmpl = jinja2.Template.from_code(env, code, env.make_globals(None), None)
            else:
                tmpl = env.from_string(src)
            # "yields a renderable template": rendering on an empty context may raise what the data /
            # operators raise, but never an error that only broken generated code produces
            try:
                if getattr(env, "is_async", False):
                    import asyncio
                    asyncio.run(tmpl.render_async())
                else:
                    tmpl.render()
            except (NameError, UnboundLocalError, SyntaxError, SystemError) as e:
                return f"loaded template is not renderable: {type(e).__name__}: {str(e)[:80]}"
            except _Timeout:
                return None        # a long-running loop written in the template is not a loading defect
            except RecursionError:
                return None
            except BaseException:
                return None
            return None
        except jinja2.TemplateSyntaxError as e:
            if not isinstance(e.lineno, int) or not (1 <= e.lineno <= nlines):
                return f"TemplateSyntaxError with lineno {e.lineno!r} outside the source (1..{nlines})"
            return None
        except _Timeout:
            return "loading did not finish within 5 s of CPU time"
        except RecursionError:
            return "RecursionError"
        except BaseException as e:  # noqa
            return f"{type(e).__name__}: {str(e)[:100]}"
    finally:
        _ARMED[0] = False
        signal.setitimer(signal.ITIMER_VIRTUAL, 0)
        signal.setitimer(signal.ITIMER_REAL, 0)


def _work(chunk):
    import resource
    import warnings
    warnings.simplefilter("ignore")      # SyntaxWarning of the Python compiler on folded nonsense such as 1[0]
    # a folded constant can ask for terabytes: fail with MemoryError instead of taking the machine down
    resource.setrlimit(resource.RLIMIT_AS, (6 * 2 ** 30, 6 * 2 ** 30))
    out = []
    for cfgname, src in chunk:
        try:
            w = load_outcome(cfgname, src)
        except _Timeout:      # a second tick while the first was being handled
            _ARMED[0] = False
            signal.setitimer(signal.ITIMER_VIRTUAL, 0)
            signal.setitimer(signal.ITIMER_REAL, 0)
            w = "loading did not finish within 5 s of CPU time"
        if w:
            out.append((cfgname, src, w))
    return len(chunk), out


def _nfkc_collision(src):
    """two different identifiers of the source have the same NFKC form (the class of the recorded finding)"""
    import unicodedata
    seen = {}
    for w in re.findall(r"\w+", src):
        n = unicodedata.normalize("NFKC", w)
        if seen.setdefault(n, w) != w:
            return True
    return False


def classify(src, what):
    if "RecursionError" in what:
        return "C01:nesting-depth-recursion-limit"
    if "too many statically nested blocks" in what:
        return "C01:more-than-20-statically-nested-blocks"
    if "too many nested parentheses" in what:
        return "C01:nested-parentheses-limit"
    if "too many levels of indentation" in what:
        return "C01:indentation-depth-limit"
    if "Exceeds the limit" in what and "integer string conversion" in what:
        return "C01:integer-constant-beyond-int-str-digit-limit"
    if "did not finish" in what and re.search(r"\d+\s*\*\*\s*\d+", src):
        return "C01:constant-folding-materialises-a-huge-sequence"
    if "duplicate argument" in what and _nfkc_collision(src):
        return "C01:nfkc-colliding-identifiers-in-one-parameter-or-keyword-list"
    return None


def mutate(r, src):
    toks = re.findall(r"\{\{|\}\}|\{%|%\}|\{#|#\}|\w+|\s+|.", src, flags=re.S) or [""]
    k = r.random()
    i = r.randrange(len(toks))
    if k < 0.3:
        del toks[i]
    elif k < 0.5:
        toks.insert(i, toks[r.randrange(len(toks))])
    elif k < 0.7:
        j = r.randrange(len(toks))
        toks[i], toks[j] = toks[j], toks[i]
    elif k < 0.85:
        toks.insert(i, r.choice(["{%", "%}", "{{", "}}", "{#", "-", "(", ")", "\"", "'", "endif", "endfor", "else", "|", ".", ",", "=", "\n"]))
    else:
        toks[i] = r.choice(["", "{% raw %}", "{% endraw %}", "1_0", "0x", "\u00e9", "\ufb01", "\x00", "\\"])
    return "".join(toks)


PROBES = [
    ("async", "{{ a" + ".b" * 80 + " }}"),       # known finding C01-nested-parentheses
    ("default", "{{ 'a'*10**8 }}"),       # known finding C01-folding-blowup
    ("default", "{{ [1]|slice(10**400)|list }}"),
    ("default", "{% macro m(a, a) %}{% endmacro %}"),
    ("default", "{{ f(a=1, a=2) }}"),
    ("default", "{% call(a, a) m() %}{% endcall %}"),
    ("default", "{{ x|default(a=1, a=2) }}"),
    ("ext", "{% break %}"), ("ext", "{% continue %}"),
    ("ext", "{% for x in y %}{% macro m() %}{% break %}{% endmacro %}{% endfor %}"),
    ("ext", "{% for x in y %}{% else %}{% continue %}{% endfor %}"),
    ("ext", "{% for a in b %}{% for x in y recursive %}{% else %}{% break %}{% endfor %}{% endfor %}"),
    ("ext", "{% for x in y %}{% call m() %}{% break %}{% endcall %}{% endfor %}"),
    ("ext", "{% for x in y %}{% block b %}{% continue %}{% endblock %}{% endfor %}"),
    ("default", "{{ " + "1" * 5000 + " }}"),
    ("default", "{{ 0x" + "f" * 5000 + " }}"),
    ("default", "{{ 2 ** 100000 }}"),
    ("default", "{{ " + "[" * 80 + "]" * 80 + " }}"),
    ("default", "{{ " + "(" * 300 + "1" + ")" * 300 + " }}"),
    ("default", "".join("{%% for a%d in x %%}" % i for i in range(21)) + "{% endfor %}" * 21),
    ("default", "{% if a %}" * 100 + "{% endif %}" * 100),
    ("default", "{% macro m(\ufb01, fi) %}{% endmacro %}"),
    ("default", "{{ f(\ufb01=1, fi=2) }}"),
    ("default", "{% set \u00b5 = 1 %}{% set \u03bc = 2 %}"),
    ("default", "{% macro m(a=1, b) %}{% endmacro %}"),
    ("default", "{% set x = 1e400 %}{{ x }}{{ [1e400, -1e400] }}"), ("default", "{{ 1e308 * 10 }}{{ 1e308 * 10 - 1e308 * 10 }}"),
    ("async", "{% set x = 1e400 %}{{ x }}"), ("default", "{{ (-1) ** 2 }}{{ -1 ** 2 }}{{ (-1).real }}{{ (-1)|abs }}"),
    ("default", "{{ f(__debug__=1) }}"), ("default", "{% call(x) f(__debug__=1, class=2) %}{% endcall %}"),
    ("default", "{{ a[:,:] }}"), ("default", "{{ a[1:2,3] }}"), ("default", "{{ a[::2, 1][0] }}"),
    ("default", "{% set __debug__ = 1 %}{% macro m(__debug__, None_=1) %}{{ __debug__ }}{% endmacro %}{{ m(__debug__=2) }}"),
    ("default", "{% set b | default(x) %}a{% endset %}"), ("default", "{% set b | replace(x, y) | default(z) %}{% endset %}"),
    ("default", "{% filter replace(x, y) %}{% endfilter %}"), ("default", "{% call(a) f(x)|g(y) %}{{ z }}{% endcall %}"),
    ("default", "{% for a in b if c|d(e) %}{% else %}{{ f }}{% endfor %}"),
    ("default", "{{ \u0663.\u0665 }}"), ("default", "{{ 1e\u0665 }}"), ("default", "{{ 0x\u0663 }}"),
    ("default", "{% macro m(caller) %}{{ caller() }}{% endmacro %}"),
    ("default", "{% for loop in x %}{% endfor %}"),
    ("default", "{% set class = 1 %}{{ class }}{% macro def(None_, lambda) %}{{ lambda }}{% endmacro %}{{ f(class=1, def=2) }}"),
    ("default", "{% extends 'a' %}{% extends 'b' %}"),
    ("default", "{% block a %}{% endblock %}{% block a %}{% endblock %}"),
    ("default", "{% from 'a' import _x %}"),
    ("default", "{{ 'a' 'b' ~ \"\\x\" }}"),
    ("default", "{{ '\\N{BOGUS}' }}"),
    ("default", "{% raw %}{% endraw"),
    ("default", "{{ a.1 }}{{ a.1a }}{{ 1.a }}{{ a..b }}"),
    ("default", "\r\n{{\r}}\r{%"),
    ("line", "# for a in b\n## c\n# endfor x"),
    ("line", "#\n##\n# :\n#:"),
    ("ext", "{% trans a=1, a=2 %}{{ a }}{% endtrans %}"),
    ("ext", "{% trans %}{{ a }}{% pluralize %}{{ b }}{% pluralize %}{% endtrans %}"),
    ("ext", "{% trans count=1 %}%(x)s {{ count }}{% pluralize z %}{{ count }}{% endtrans %}"),
]


def oracle(ctx):
    L = ctx.size(4, 5)
    work = []
    for cfg in CONFIGS:
        fr = FRAGS[cfg]
        lim = L if len(fr) <= 12 else L - 1 if ctx.tier == "quick" else L
        for n in range(0, lim + 1):
            for tup in itertools.product(fr, repeat=n):
                work.append((cfg, "".join(tup)))
    n_exh = len(work)
    # grammar-generated + mutations
    for i in range(ctx.size(1500, 30000)):
        g = TGen(ctx.rng, depth=3)
        ts, main = g.template_set()
        cfg = ctx.rng.choice(["default", "trim", "async", "ext", "sandbox", "finalize", "finalize_ctx"])
        for src in ts.values():
            work.append((cfg, src))
            m = src
            for _ in range(ctx.rng.randint(1, 3)):
                m = mutate(ctx.rng, m)
            work.append((cfg, m))
    # (iv) expression contents over a Unicode-heavy alphabet (digits that are not 0-9, letters that are
    # not identifier characters, surrogates, control and line-separator characters), exhaustively
    UNI = ["\u0663", ".", "\u0665", "e", "1", "_", "0x", "\u00b2", "\u2160", "\ufb01", "\u0301", "\ud800", "\x00",
           "\u2028", "\x85", "\x0c", "'", "a", "-", "\U0001f40d"]
    n_uni = 0
    for n in range(1, ctx.size(3, 4) + 1):
        for tup in itertools.product(UNI, repeat=n):
            body = "".join(tup)
            work.append(("default", "{{ " + body + " }}"))
            n_uni += 1
            if n <= 2:
                work.append(("default", "{% set x = " + body + " %}"))
                work.append(("line", "# if " + body + "\n# endif"))
                n_uni += 2
    ctx.count("oracle_unicode_expressions", n_uni)
    # (v) subscript / call-argument contents over a punctuation-heavy alphabet, exhaustively
    SUB = [":", ",", "1", "a", "(", ")", "*", "=", "__debug__", "None", "class", " "]
    n_sub = 0
    for n in range(1, ctx.size(3, 5) + 1):
        for tup in itertools.product(SUB, repeat=n):
            body = "".join(tup)
            work.append(("default", "{{ a[" + body + "] }}"))
            work.append(("sandbox", "{{ f(" + body + ") }}"))
            n_sub += 2
    ctx.count("oracle_subscript_and_call_contents", n_sub)
    # (vi) i18n trans blocks: declared / undeclared variables, pluralize with and without an explicit
    # count variable (declared, only used in the body, or unknown), trimmed, nested tags, missing end tags
    def trans_block(r):
        names = ["n", "num", "a", "b", "count"]
        decl = []
        for _ in range(r.randint(0, 2)):
            nm_ = r.choice(names)
            decl.append(nm_ if r.random() < 0.4 else f"{nm_}={r.choice(['x', '1', 'y|length', nm_])}")
        head = "{% trans " + r.choice(["", "trimmed ", "notrimmed ", "'ctx' "]) + ", ".join(decl) + " %}"
        def body():
            return "".join(r.choice(["t ", "{{ " + r.choice(names) + " }}", "% ", "%(n)s", "\n", "{{ a.b }}", "{% if a %}",
                                     "{{ 1 }}", ""]) for _ in range(r.randint(0, 3)))
        out = head + body()
        if r.random() < 0.7:
            out += "{% pluralize" + r.choice(["", " " + r.choice(names), " " + r.choice(names), " 1", " a.b"]) + " %}" + body()
        if r.random() < 0.15:
            out += "{% pluralize %}" + body()
        out += r.choice(["{% endtrans %}", "{% endtrans %}", "{% endtrans %}", "", "{% endtrans x %}", "{% endblock %}"])
        return out
    n_i18n = ctx.size(4000, 60000)
    for _ in range(n_i18n):
        work.append((ctx.rng.choice(["ext", "ext", "ext_async_trim"]), trans_block(ctx.rng)))
    ctx.count("oracle_i18n_trans_blocks", n_i18n)
    # (vii) a syntax error after a prefix that uses whitespace control across line breaks: the reported
    # line must still lie inside the source
    PRE = ["a\n\n\n{#- c #}", "{% raw %}\n\n{%- endraw %}", "x\n \n{%- if a -%}\n\n", "{{ a -}}\n\n\n", "\r\n\r{#- c -#}\n\n",
           "{% set x = [1,\n2] -%}\n\n", "\n\n{%+ if a %}", "{% raw -%}\n\n\n{% endraw -%}\n\n", "a\n{#\n\n#}\n", ""]
    BAD = ["{{ ! }}", "{% endfor %}", "{{ 1 +", "{% if %}", "{{ 'a }}", "{% for %}", "{{ a b }}", "{% unknown_tag %}", "{{ }}", "{#"]
    n_pre = 0
    for cfgname in ("default", "trim", "async"):
        for a in PRE:
            for b in PRE:
                for c in BAD:
                    work.append((cfgname, a + b + c))
                    n_pre += 1
    ctx.count("oracle_error_after_whitespace_control", n_pre)
    # (viii) calls and call blocks whose keywords are names the code generator passes itself, in every
    # frame kind (top level, loop body, loop else, block, macro, with, filter block, call block body)
    RES = ["caller", "_loop_vars", "_block_vars", "kwargs", "varargs", "loop", "self", "context", "environment",
           "missing", "resolve", "undefined", "concat", "class", "__debug__", "None", "a",
           # spellings Python's identifier normalisation (NFKC) maps onto another name of the list
           "\uff43aller", "__\uff44ebug__", "\ufb01", "\u00aa", "\uff43lass", "_loop_\uff56ars", "fi"]
    WRAP = ["%s", "{%% for i in y %%}%s{%% endfor %%}", "{%% for i in y %%}{%% else %%}%s{%% endfor %%}",
            "{%% block b %%}%s{%% endblock %%}", "{%% macro m() %%}%s{%% endmacro %%}", "{%% with q=1 %%}%s{%% endwith %%}",
            "{%% for i in y %%}{%% if i %%}%s{%% endif %%}{%% endfor %%}", "{%% block b %%}{%% for i in y recursive %%}%s{%% endfor %%}{%% endblock %%}",
            "{%% call f() %%}%s{%% endcall %%}", "{%% for i in y %%}{%% filter upper %%}%s{%% endfilter %%}{%% endfor %%}",
            "{%% for i in y %%}{%% autoescape true %%}%s{%% endautoescape %%}{%% endfor %%}"]
    n_res = 0
    for w in WRAP:
        for k1 in RES:
            for k2 in RES[:4] + ["fi", "a", None]:
                kws = f"{k1}=1" + (f", {k2}=2" if k2 else "")
                star = [("{{ f(*y, %s) }}" % kws), ("{{ f(1, *y, %s, **x) }}" % kws), ("{{ x|f(*y, %s) }}" % kws),
                        ("{%% if x is f(*y, %s) %%}{%% endif %%}" % kws), ("{%% call f(*y, %s, **x) %%}{%% endcall %%}" % kws),
                        ("{{ f(%s, **x) }}" % kws)] if (k2 is None or k2 == "a") else []
                for inner in star + ["{{ f(%s) }}" % kws, "{%% call f(%s) %%}{%% endcall %%}" % kws, "{{ x|f(%s) }}" % kws,
                              "{%% call(%s) f() %%}{%% endcall %%}" % kws, "{%% if x is f(%s) %%}{%% endif %%}" % kws]:
                    for cfgname in ("default", "async", "sandbox"):
                        work.append((cfgname, w % inner))
                        n_res += 1
    ctx.count("oracle_engine_keyword_names", n_res)
    # (ix) constant expressions: folding runs operators, subscripts, attribute lookups, filters and tests on
    # constants at load time; whatever they raise (KeyError, IndexError, ZeroDivisionError, OverflowError,
    # LookupError, UnicodeError, ...) must not escape from loading.  Exhaustive pairs over an operand alphabet.
    OPER = ["1", "0", "-1", "2.5", "1e308", "'a'", "'%(a)s'", "'%d'", "'%s %s'", "[]", "[1]", "{}", "{'a': 1}", "()", "none",
            "true", "10**400", "'\\ud800'", "[[]]", "(1, 'a')", "'{}'", "{1: 2}"]
    BINOPS = ["+", "-", "*", "/", "//", "%", "**", "~", "in", "not in", "==", "<", "and", "or"]
    FORMS = ["%s[%s]", "%s[%s:]", "%s[::%s]", "%s.get(%s)", "%s|int(%s)", "%s|float(%s)", "%s|round(%s)", "%s|center(%s)", "%s|join(%s)",
             "%s|format(%s)", "%s|batch(%s)|list", "%s|slice(%s)|list", "%s|indent(%s)", "%s|truncate(%s)", "%s|replace(%s, 'x')",
             "%s|default(%s)", "%s|attr(%s)", "%s|map(%s)|list", "%s|sort(attribute=%s)", "%s|sum(start=%s)", "%s|max(default=%s)",
             "%s|wordwrap(%s)", "%s|dictsort(by=%s)", "%s|unique(attribute=%s)|list", "%s|groupby(%s)|list", "%s|selectattr(%s)|list",
             "%s|xmlattr(%s)", "%s|tojson(%s)", "%s|urlize(%s)", "%s|filesizeformat(%s)", "%s|items|list + %s",
             "%s is divisibleby %s", "%s is in %s", "%s is lt %s", "%s is sameas %s", "%s is eq %s", "%s.x(%s)", "%s(%s)",
             "%s if %s", "range(%s, %s)|list", "dict(a=%s, **%s)", "cycler(%s, %s).next()", "'%%s'|format(%s, %s)", "[%s, %s]|sort",
             "{%s: %s}", "[%s, %s]|sum", "[%s, %s]|max", "[%s, %s]|join", "(%s, %s)|first|abs", "[%s, %s]|unique|list", "{'k': %s}|dictsort(reverse=%s)"]
    UNFORMS = ["-%s", "+%s", "not %s", "%s|abs", "%s|first", "%s|last", "%s|length", "%s|list", "%s|sum", "%s|min", "%s|sort", "%s|int", "%s|float",
               "%s|string", "%s|urlencode", "%s|tojson", "%s|items|list", "%s|dictsort", "%s|upper", "%s|title", "%s|trim", "%s|striptags",
               "%s|escape", "%s|e|forceescape", "%s|safe", "%s|filesizeformat", "%s|pprint", "%s|random", "%s|reverse|list", "%s|wordcount",
               "%s|xmlattr", "%s|capitalize", "%s.a", "%s.real", "%s[0]", "%s()", "%s is odd", "%s is mapping", "%s is callable", "%s|center",
               "%s|unique|list", "%s|map('int')|list", "%s|select|list", "%s|batch(0)|list", "%s|round(1, 'ceil')"]
    n_const = 0
    const_cfgs = ("default", "sandbox") if ctx.tier == "quick" else ("default", "sandbox", "async", "ext")
    if ctx.tier == "quick":
        OPER = [o for i, o in enumerate(OPER) if i % 2 == 0 or o in ("'%(a)s'", "{}", "10**400")]
    for a in OPER:
        for f in UNFORMS:
            for cfgname in const_cfgs:
                work.append((cfgname, "{{ " + (f % a) + " }}"))
                n_const += 1
        for b in OPER:
            exprs = [f"{a} {op} {b}" for op in BINOPS] + [f % (a, b) for f in FORMS]
            for ei, e in enumerate(exprs):
                if "slice(10**400)" in e and a != "[1]":
                    continue        # one witness of the recorded folding blow-up is enough (5 s of CPU each)
                for cfgname in (const_cfgs if ctx.tier != "quick" else (const_cfgs[ei % 2],)):
                    work.append((cfgname, "{{ " + e + " }}"))
                    n_const += 1
            work.append(("default", "{% set v = " + exprs[(len(a) * 7 + len(b)) % 7] + " %}"))
            work.append(("default", "{% autoescape true %}{{ " + a + " ~ " + b + " }}{% endautoescape %}{% if " + a + " % " + b + " %}{% endif %}"))
            n_const += 2
    ctx.count("oracle_constant_expressions", n_const)
    # (x) a name that occurs nowhere else, in every position of the grammar that holds an expression, inside
    # every kind of frame: symbol analysis (idtracking) has to know every name code generation resolves
    POS = ["{{ %s }}", "{{ f(%s) }}", "{{ f(k=%s) }}", "{{ f(*%s) }}", "{{ f(**%s) }}", "{{ x|f(%s) }}", "{{ x|f(k=%s) }}", "{{ x|f(*%s) }}",
           "{{ x is f(%s) }}", "{{ x[%s] }}", "{{ x[%s:] }}", "{{ x[:%s] }}", "{{ x[::%s] }}", "{{ %s.a }}", "{{ %s[0] }}", "{{ %s() }}",
           "{{ [%s] }}", "{{ (%s, 1) }}", "{{ {%s: 1} }}", "{{ {1: %s} }}", "{{ 1 if %s }}", "{{ %s if x else 2 }}", "{{ 1 if x else %s }}",
           "{{ x < %s }}", "{{ x ~ %s }}", "{{ x and %s }}", "{{ not %s }}", "{{ -%s }}", "{{ x in %s }}", "{{ x ** %s }}",
           "{%% if %s %%}{%% endif %%}", "{%% if x %%}{%% elif %s %%}{%% endif %%}", "{%% for i in %s %%}{%% endfor %%}",
           "{%% for i in x if %s %%}{%% endfor %%}", "{%% for i in x recursive %%}{{ loop(%s) }}{%% endfor %%}",
           "{%% for i in x %%}{%% else %%}{{ %s }}{%% endfor %%}", "{%% set v = %s %%}", "{%% set v, w = %s %%}", "{%% set ns.a = %s %%}",
           "{%% set v | f(%s) %%}{%% endset %%}", "{%% set v | f(k=%s) %%}{%% endset %%}", "{%% filter f(%s) %%}{%% endfilter %%}",
           "{%% filter f(k=%s) %%}{%% endfilter %%}", "{%% with v = %s %%}{%% endwith %%}", "{%% with v = 1, w = %s %%}{{ w }}{%% endwith %%}",
           "{%% include %s %%}", "{%% include [%s, 'x'] ignore missing %%}", "{%% import %s as m %%}", "{%% from %s import a %%}",
           "{%% macro m(a=%s) %%}{%% endmacro %%}", "{%% macro m(a, b=%s) %%}{{ b }}{%% endmacro %%}{{ m(1) }}",
           "{%% call(a=%s) f() %%}{%% endcall %%}", "{%% call(a, b=%s) f() %%}{{ a }}{%% endcall %%}", "{%% call f(%s) %%}{%% endcall %%}",
           "{%% call f(k=%s) %%}{%% endcall %%}", "{%% call f() %%}{{ %s }}{%% endcall %%}", "{%% autoescape %s %%}{%% endautoescape %%}",
           "{%% macro m() %%}{{ caller(%s) }}{%% endmacro %%}", "{%% block bb scoped %%}{{ %s }}{%% endblock %%}",
           "{%% block bc %%}{{ %s }}{%% endblock %%}", "{%% do %s %%}", "{%% trans v=%s %%}{{ v }}{%% endtrans %%}",
           "{%% trans n=%s %%}a{%% pluralize %%}b{%% endtrans %%}", "{%% extends %s %%}", "{%% if x %%}{%% extends %s %%}{%% endif %%}",
           "{{ x|map(%s)|list }}", "{{ x|select(%s)|list }}", "{{ %s|f }}", "{{ %s is f }}", "{%% set %s = 1 %%}", "{%% for %s in x %%}{%% endfor %%}"]
    WRAPS = ["%s", "{%% for q in y %%}%s{%% endfor %%}", "{%% for q in y %%}{%% else %%}%s{%% endfor %%}", "{%% for q in y recursive %%}%s{%% endfor %%}",
             "{%% macro mm() %%}%s{%% endmacro %%}{{ mm() }}", "{%% call g() %%}%s{%% endcall %%}", "{%% block ba %%}%s{%% endblock %%}",
             "{%% with z = 1 %%}%s{%% endwith %%}", "{%% filter upper %%}%s{%% endfilter %%}", "{%% set s %%}%s{%% endset %%}",
             "{%% if y %%}%s{%% else %%}%s{%% endif %%}", "{%% autoescape true %%}%s{%% endautoescape %%}",
             "{%% for q in y %%}{%% macro mm() %%}%s{%% endmacro %%}{%% endfor %%}", "{%% block ba scoped %%}{%% for q in y %%}%s{%% endfor %%}{%% endblock %%}"]
    n_pos = 0
    for wi, w in enumerate(WRAPS):
        for pi, pos in enumerate(POS):
            inner = pos % "uniq"
            if "bb" in inner or "bc" in inner or "extends" in inner:
                if "block" in w or "macro" in w or "call" in w:
                    continue
            src = w.replace("%s", inner.replace("%", "%%")) % () if w.count("%s") != 1 else w % inner
            for cfgname in (("ext", "async", "sandbox") if ctx.tier != "quick" or (wi + pi) % 3 == 0 else ("ext",)):
                if cfgname != "ext" and ("do " in inner or "trans" in inner):
                    continue
                work.append((cfgname, src))
                n_pos += 1
    ctx.count("oracle_name_in_every_expression_position", n_pos)
    # (xi) every nesting (depth <= 3) and every sibling pair of the block constructs around text and a print, under
    # every environment hook configuration: what the code generator wraps around outputs must stay balanced
    CONS = [("{% autoescape a %}", "{% endautoescape %}"), ("{% autoescape true %}", "{% endautoescape %}"), ("{% raw %}", "{% endraw %}"),
            ("{% if a %}", "{% else %}e{% endif %}"), ("{% for i in y %}", "{% else %}e{% endfor %}"), ("{% for i in y recursive %}", "{% endfor %}"),
            ("{% set v %}", "{% endset %}{{ v }}"), ("{% set v | trim %}", "{% endset %}"), ("{% filter upper %}", "{% endfilter %}"),
            ("{% macro m() %}", "{% endmacro %}{{ m() }}"), ("{% call m() %}", "{% endcall %}"), ("{% block b %}", "{% endblock %}"),
            ("{% block c scoped %}", "{% endblock %}"), ("{% with q = 1 %}", "{% endwith %}"), ("{% trans %}", "{% endtrans %}"),
            ("{% for i in y if a %}", "{% endfor %}")]
    def _nest(cs, inner):
        src = inner
        for o, c in reversed(cs):
            src = "p<" + o + src + c + ">s"
        return src
    nests = []
    for depth in (1, 2, 3):
        for cs in itertools.product(CONS, repeat=depth):
            if sum(1 for o, _ in cs if o.startswith("{% block b")) > 1 or sum(1 for o, _ in cs if o.startswith("{% block c")) > 1:
                continue
            nests.append(_nest(cs, "t{{ x }}<"))
    for p_ in CONS:
        for a_ in CONS:
            for b_ in CONS:
                if len({p_[0], a_[0], b_[0]} & {"{% block b %}", "{% block c scoped %}"}) and (p_ == a_ or a_ == b_ or p_ == b_):
                    continue
                nests.append(_nest([p_], _nest([a_], "u") + "{{ x }}" + _nest([b_], "w<")))
    n_nest = 0
    hook_cfgs = ("finalize", "finalize_ctx", "ext", "async", "sandbox", "ext_async_trim")
    for i, src in enumerate(nests):
        for j, cfgname in enumerate(hook_cfgs):
            if ctx.tier == "quick" and (i + j) % 3:
                continue
            if "trans" in src and cfgname not in ("ext", "ext_async_trim"):
                continue
            work.append((cfgname, src))
            n_nest += 1
    ctx.count("oracle_nested_block_constructs", n_nest)
    work += PROBES
    ctx.count("oracle_exhaustive", n_exh)
    ctx.count("oracle_generated_and_mutated", len(work) - n_exh - len(PROBES) - n_uni - n_res - n_const - n_pos - n_nest)  # (v) counted separately below
    ctx.count("oracle_probes", len(PROBES))
    chunks = [work[i:i + 400] for i in range(0, len(work), 400)]
    t0 = time.time()
    import gc
    gc.collect()
    gc.freeze()          # the work list is millions of objects: keep the forked workers' collector from walking it
    with mp.get_context("fork").Pool(16) as pool:
        results = pool.map(_work, chunks)
    gc.unfreeze()
    # a "did not finish" verdict is re-judged alone in a fresh interpreter (a collector pass over the inherited
    # heap or a descheduled worker must not count as a hang); a real hang reproduces
    retry = [(c, s_) for n, bad in results for c, s_, w in bad if "did not finish" in w]
    confirmed = {}
    if retry:
        with mp.get_context("spawn").Pool(4, maxtasksperchild=1) as pool2:
            for (c, s_), (_, bad2) in zip(retry, pool2.map(_work, [[x] for x in retry], chunksize=1)):
                confirmed[(c, s_)] = bool(bad2)
        ctx.count("oracle_timeouts_rejudged", len(retry))
        ctx.count("oracle_timeouts_confirmed", sum(confirmed.values()))
    seen = set()
    for n, bad in results:
        for cfgname, src, w in bad:
            if "did not finish" in w and not confirmed.get((cfgname, src), True):
                continue
            ctx.reject({"config": cfgname, "source": src}, "loading the template: " + w, classify(src, w))
    for cfgname, src in work:
        if (cfgname, src) in seen:
            continue
        seen.add((cfgname, src))
    ctx.evaluations += len(work)
    starts = ("{{", "{%", "{#", "<%", "<!--", "$%", "${", "$#", "#", "(*", "[[", "(?", "<")
    ctx.nontrivial.update(("o", c, s) for c, s in seen if any(x in s for x in starts))
    ctx.samples.append({"config": "ext", "source": PROBES[9][1], "outcome": "TemplateSyntaxError (line 1)"})
    ctx.extra["oracle_wall_s"] = round(time.time() - t0, 1)


def _redos_inputs():
    """long repetitive inputs aimed at the lexer's and the extensions' regular expressions: an ambiguity in a pattern
    shows as super-linear time on exactly this kind of input"""
    out = []
    for k in (30, 45, 70):
        bs = "\\\\"
        for q in ('"', "'"):
            out += ["{{ " + q + bs * k, "{{ " + q + ("\\" + q) * k, "{{ " + q + ("a\\") * k + "a", "{% set x = " + q + bs * k + " %}",
                    "{{ f(" + q + ("x" + bs) * k, "{{ " + q + bs * k + q + " }}"]
        out += ["{{ " + "1_" * k, "{{ 1." + "0_" * k + " }}", "{{ 1e" + "1_" * k + " }}", "{{ 0x" + "f_" * k, "{{ " + "1." * k,
                "{#" + "-" * k, "{#" + " #" * k, "{%" + "-" * k, "{{" + "}" * k, "{% raw %}" + "{% endraw" * k, "{% raw %}" + "{%- endraw " * k,
                "{{ a" + " " * (k * 40) + "b }}", "{%" + " " * (k * 40) + "x", "a" + "\n" * (k * 10) + "{%- if x %}", "{%- " * k,
                "# " * k + "\n", "#" + " " * (k * 40) + "for", "## " * k, "{{ a " + "is not " * k, "{{ " + "not " * k + "x }}",
                "{% trans trimmed %}a" + " " * (k * 100) + "b{% endtrans %}", "{% trans trimmed %}" + "a \n " * (k * 10) + "{% endtrans %}",
                "{% trans %}" + "%" * (k * 10) + "{% endtrans %}", "{{ _('" + "%(a" * k + "') }}"]
    return out


def _redos_one(item):
    cfgname, src = item
    try:
        return load_outcome(cfgname, src)
    except BaseException as e:  # noqa
        return type(e).__name__


def redos_stage(ctx):
    """these loads run in separate processes with a HARD wall-clock limit: a regular expression that backtracks
    exponentially runs inside one C call, which no signal handler can interrupt"""
    items = [(c, s_) for s_ in _redos_inputs() for c in ("ext", "line")]
    ctx.count("oracle_pathological_regex_inputs", len(items))
    ctx.evaluations += len(items)
    pool = mp.get_context("fork").Pool(8)
    try:
        res = [(it, pool.apply_async(_redos_one, (it,))) for it in items]
        t_end = time.time() + 60.0
        for it, r in res:
            try:
                w = r.get(timeout=max(0.1, t_end - time.time()))
            except mp.TimeoutError:
                w = "loading did not finish within 60 s (not interruptible: inside one regular-expression match)"
            if w:
                ctx.reject({"config": it[0], "source": it[1]}, "loading the template: " + w, classify(it[1], w))
    finally:
        pool.terminate()


def run(ctx):
    jinja2 = lib.use_repo_jinja()
    ctx.extra["rule"] = RULE
    ctx.assumptions += [
        "PyWf.py_ok summarises CPython's acceptance rules for the constructs the statement code generator emits "
        "(validated on every generated module by compile())",
        "resource limits of the interpreter (recursion depth, 20 nested blocks, indentation depth, int<->str digit "
        "limit) are hypotheses; the inputs that hit them are recorded known findings",
    ]
    ctx.proof("C01")
    import os
    if os.path.exists(os.path.join(lib.THEORIES, "Properties", "C01lex.v")):
        ctx.proof("C01lex")
    else:
        ctx.notes.append("lexer totality lemmas (Properties/C01lex.v) not present in this build")
    # parser half: statement-level parser model (expression family) — no internal error is reachable on
    # well-formed token streams, errors carry a token line; tied by K-parse on real token streams
    if os.path.exists(os.path.join(lib.THEORIES, "Properties", "C01parse.v")):
        ctx.proof("C01parse")
        from . import c01parse
        c01parse.run_parse_tie(ctx)
    # regenerated facts: every raise / assert site on the loading path (T2-style translator)
    import sys
    sys.path.insert(0, os.path.join(lib.ROOT, "gen"))
    import c01_raises
    try:
        vtext, ss = c01_raises.emit(lib.SRC)
        ok, out = ctx.coq_obligation("Gen_raises", vtext, n_obligations=len(ss))
        ctx.extra["raise_sites"] = len(ss)
        if ok:
            ctx.trusted.append("load_path_raises_only_syntax_errors: " + " ".join(out.split()))
    except Exception as e:  # fail-closed translator
        ctx.broken.append(f"translator gen/c01_raises.py failed: {type(e).__name__}: {e}")
    k_gen(ctx, jinja2)
    redos_stage(ctx)
    oracle(ctx)


def replay(ctx, data):
    lib.use_repo_jinja()
    case = data.get("case")
    if data.get("kind") != "failing-input" or case is None:
        print("replay: names a broken theorem/correspondence:", data.get("broken"))
        return run(ctx)
    w = load_outcome(case.get("config", "ext" if "config" not in case else case["config"]), case["source"])
    print("outcome:", w or "holds")
    if w:
        ctx.reject(case, w, classify(case["source"], w))
