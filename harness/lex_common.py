"""Shared pieces of the lexer-family checks (C11 C39 C12 C13): configurations, the encoding of
cases for build/bin/lex, running the real Lexer.tokeniter, canonical comparison, generators.
"""
import itertools
import re

from . import lib

# ---------------------------------------------------------------- configurations
# (block_start, block_end, variable_start, variable_end, comment_start, comment_end,
#  line_statement_prefix, line_comment_prefix)
DELIMS = {
    "default": ("{%", "%}", "{{", "}}", "{#", "#}", None, None),
    "angle": ("<%", "%>", "<%=", "%>", "<!--", "-->", None, None),
    "dollar": ("$%", "%$", "${", "}", "$#", "#$", None, None),
    "asp": ("<%", "%>", "<%=", "%>", "<%#", "#%>", None, None),
    # end strings that do not start with an operator character, with line statements
    "phpline": ("<?", "?>", "<?=", "?>", "<!--", "-->", "%", "%%"),
    # end strings that ARE closing brackets (the LaTeX-friendly set of the documentation; a parenthesis set)
    "latex": ("\\BLOCK{", "}", "\\VAR{", "}", "\\#{", "}", "%%", "%#"),
    "paren": ("(%", ")", "((", "))", "(#", "#)", None, None),
    "line": ("{%", "%}", "{{", "}}", "{#", "#}", "#", "##"),
    "linepct": ("<%", "%>", "${", "}", "<%#", "%>", "%", "%%"),
}


class Cfg:
    __slots__ = ("name", "d", "trim", "lstrip", "nl", "keep")

    def __init__(self, name, trim=False, lstrip=False, nl="\n", keep=False, d=None):
        self.name = name
        self.d = d if d is not None else DELIMS[name]
        self.trim, self.lstrip, self.nl, self.keep = trim, lstrip, nl, keep

    def kwargs(self):
        bs, be, vs, ve, cs, ce, lsp, lcp = self.d
        return dict(block_start_string=bs, block_end_string=be, variable_start_string=vs,
                    variable_end_string=ve, comment_start_string=cs, comment_end_string=ce,
                    line_statement_prefix=lsp, line_comment_prefix=lcp, trim_blocks=self.trim,
                    lstrip_blocks=self.lstrip, newline_sequence=self.nl, keep_trailing_newline=self.keep)

    def enc(self):
        def s(x):
            return "e" if x == "" else ".".join(str(ord(ch)) for ch in x)
        bs, be, vs, ve, cs, ce, lsp, lcp = self.d
        f = [s(bs), s(be), s(vs), s(ve), s(cs), s(ce), "-" if lsp is None else s(lsp),
             "-" if lcp is None else s(lcp), "1" if self.trim else "0", "1" if self.lstrip else "0",
             s(self.nl), "1" if self.keep else "0"]
        return ",".join(f)

    def key(self):
        return (self.name, self.trim, self.lstrip, self.nl, self.keep)

    def describe(self):
        return {"delims": self.name, "trim_blocks": self.trim, "lstrip_blocks": self.lstrip,
                "newline_sequence": self.nl, "keep_trailing_newline": self.keep}

    @staticmethod
    def from_desc(d):
        return Cfg(d["delims"], d["trim_blocks"], d["lstrip_blocks"], d["newline_sequence"], d["keep_trailing_newline"])


def enc_str(x):
    return "e" if x == "" else ".".join(str(ord(ch)) for ch in x)


def dec_str(x):
    return "" if x == "e" else "".join(chr(int(p)) for p in x.split("."))


_envs = {}


def env_for(jinja2, cfg):
    k = cfg.key()
    e = _envs.get(k)
    if e is None:
        e = _envs[k] = jinja2.Environment(**cfg.kwargs())
    return e


# ---------------------------------------------------------------- model output
class ModelRun:
    """Parsed line of `lex T`."""
    __slots__ = ("end", "items")

    def __init__(self, line):
        end, _, its = line.partition(" ")
        self.end = end
        self.items = []
        if its != "-" and its != "":
            for it in its.split(";"):
                p = it.split(":")
                if p[0] == "t":
                    self.items.append(("t", int(p[1]), p[2], dec_str(p[4]), int(p[3])))
                else:
                    self.items.append(("g", p[1], dec_str(p[2])))

    def tokens(self):
        return [(i[1], i[2], i[3]) for i in self.items if i[0] == "t"]

    def canon(self):
        return (self.end, self.tokens())


def model_runs(ctx, cases):
    """cases: list of (Cfg, src) -> list of ModelRun"""
    lines = ["T %s %s" % (c.enc(), enc_str(s)) for c, s in cases]
    return [ModelRun(l) for l in ctx.driver("lex", lines)]


# ---------------------------------------------------------------- the real lexer
def real_run(jinja2, env, src):
    """Iterate the real tokeniter; returns (end, tokens) in the model's canonical form."""
    from jinja2.exceptions import TemplateSyntaxError
    toks = []
    try:
        for ln, ty, v in env.lexer.tokeniter(src, None, None):
            toks.append((ln, str(ty), v))
    except TemplateSyntaxError as e:
        return ("SYN:%d:%s" % (e.lineno, canon_msg(e.message)), toks)
    except RuntimeError as e:
        return ("INT:" + ("emptymatch" if "empty string" in str(e) else "nogroup"), toks)
    except Exception as e:  # anything else is behaviour the model does not have
        return ("X:" + type(e).__name__, toks)
    return ("OK", toks)


def canon_msg(m):
    if m == "Missing end of comment tag":
        return "missing_end_comment"
    if m == "Missing end of raw directive":
        return "missing_end_raw"
    mm = re.fullmatch(r"unexpected char (.*) at (\d+)", m, re.S)
    if mm:
        try:
            ch = eval(mm.group(1))
            return "unexpected_char.%d.%s" % (ord(ch), mm.group(2))
        except Exception:
            return "unexpected_char.?"
    mm = re.fullmatch(r"unexpected '(.)', expected '(.)'", m, re.S)
    if mm:
        return "unexpected_close_expected.%d.%d" % (ord(mm.group(1)), ord(mm.group(2)))
    mm = re.fullmatch(r"unexpected '(.)'", m, re.S)
    if mm:
        return "unexpected_close.%d" % ord(mm.group(1))
    return "other:" + m


def outside_alphabet(mrun):
    """The extracted executable instantiates \\d and the identifier class with ASCII tables:
    a model 'unexpected char' on a non-ASCII character is outside the compared domain."""
    m = re.match(r"SYN:\d+:unexpected_char\.(\d+)\.", mrun.end)
    return bool(m) and int(m.group(1)) >= 128


def normalize_src(src, keep):
    """What the documentation says tokeniter works on: line breaks unified to \\n, one trailing
    line break dropped unless keep_trailing_newline (written independently of the lexer)."""
    out = src.replace("\r\n", "\n").replace("\r", "\n")
    if not keep and out.endswith("\n"):
        out = out[:-1]
    return out


# ---------------------------------------------------------------- probes of the character tables
WS_TABLE = [(9, 13), (28, 32), (133, 133), (160, 160), (5760, 5760), (8192, 8202), (8232, 8233),
            (8239, 8239), (8287, 8287), (12288, 12288)]


def probe_whitespace_table():
    """is_space of the model (same intervals) == re \\s == str.isspace == what str.rstrip strips."""
    ws = re.compile(r"\s")
    bad = []
    for c in range(0x110000):
        m = any(lo <= c <= hi for lo, hi in WS_TABLE)
        ch = chr(c)
        if not (m == bool(ws.match(ch)) == ch.isspace() == (("x" + ch).rstrip() == "x")):
            bad.append(c)
    return bad


# ---------------------------------------------------------------- generators
def all_strings(alphabet, maxlen):
    for n in range(0, maxlen + 1):
        for t in itertools.product(alphabet, repeat=n):
            yield "".join(t)


def fragment_alphabet(cfg):
    """delimiter fragments + whitespace + a letter, for the exhaustive small-scope stream"""
    chars = []
    for d in cfg.d:
        if d:
            for ch in d:
                if ch not in chars:
                    chars.append(ch)
    for ch in ["a", " ", "\n", "-", "+"]:
        if ch not in chars:
            chars.append(ch)
    return chars


EXPR_ATOMS = ["x", "foo", "1", "23", "1.5", "1e3", "0x1f", "0b1", "1_0", "'s'", '"t\\"u"', "+", "-", "*", "**", "//",
              "==", "!=", ">=", "<=", "(", ")", "[", "]", "{", "}", ".", ",", ":", "|", "~", " ", "  ", "\n", "\t",
              "if", "raw", "endraw", "true", "_a1", "\xa0", "\u2003", "\u3000 ", "\x85", "\x1c", "\u2028", "1.", ".5", "1e", "0b", "0_0", "09", "!", "'", "\\", "e5", "1.2.3"]


def gen_tag_content(rng, balanced=True):
    n = rng.randint(0, 6)
    parts = [rng.choice(EXPR_ATOMS) for _ in range(n)]
    return "".join(parts)


def gen_source(rng, cfg, maxparts=8, unicode_text=False):
    """random longer source: text, whitespace runs, tags with every modifier, comments, raw
    blocks, line statements / comments when configured, stray delimiter fragments"""
    bs, be, vs, ve, cs, ce, lsp, lcp = cfg.d
    parts = []
    mods = ["", "", "-", "+"]
    for _ in range(rng.randint(1, maxparts)):
        k = rng.random()
        if k < 0.25:
            if unicode_text and rng.random() < 0.5:
                parts.append("".join(chr(rng.choice([233, 8232, 160, 0x4e2d, 0x1F600, 133, 12288, 65, 32, 10])) for _ in range(rng.randint(1, 5))))
            else:
                parts.append("".join(rng.choice("ab \n\t  \n") for _ in range(rng.randint(0, 5))))
        elif k < 0.33:
            parts.append(rng.choice(["\r\n", "\r", "\n", "\n\n", " \n ", "\t"]))
        elif k < 0.5:
            ind = rng.choice(["", "", "\n  ", "\n\xa0", "\n\u3000 ", "\n\x85\t", "\n\x1c", "\n \u2003"]) if unicode_text or rng.random() < 0.3 else ""
            parts.append(ind + bs + rng.choice(mods) + gen_tag_content(rng) + rng.choice(mods) + be)
        elif k < 0.62:
            parts.append(vs + rng.choice(["", "", "-", "+"]) + gen_tag_content(rng) + rng.choice(["", "", "-", "+"]) + ve)
        elif k < 0.72:
            body = "".join(rng.choice(["a", " ", "\n", "-", "+", be[:1], ce[:1], bs, vs]) for _ in range(rng.randint(0, 5)))
            parts.append(cs + rng.choice(mods) + body + rng.choice(mods) + ce)
        elif k < 0.82:
            body = "".join(rng.choice(["a", " ", "\n", bs, vs + " x " + ve, cs, be, "endraw"]) for _ in range(rng.randint(0, 5)))
            parts.append(bs + rng.choice(mods) + rng.choice(["", " ", "\n"]) + "raw" + rng.choice(["", " "]) + rng.choice(["", "-"]) + be
                         + body + bs + rng.choice(mods) + rng.choice(["", " "]) + "endraw" + rng.choice(["", " "]) + rng.choice(mods) + be)
        elif k < 0.92 and (lsp or lcp):
            if lsp and rng.random() < 0.5:
                parts.append("\n" + rng.choice(["", " ", "\t "]) + lsp + rng.choice(["", "", "-", "+"]) + gen_tag_content(rng) + rng.choice(["", "\n", "\n\n", " \n \n"]))
            elif lcp:
                parts.append(rng.choice(["\n", "a", " ", "a "]) + rng.choice(["", " ", "\t"]) + lcp + rng.choice(["", "-", "+"]) + rng.choice(["c", " c ", ""]) + rng.choice(["", "\n"]))
        else:
            parts.append(rng.choice([bs, be, vs, ve, cs, ce, bs[:1], "-", "+", "raw", bs + " raw", "}", "{"]))
    return "".join(parts)


# ---------------------------------------------------------------- configuration axes / entry points (round 7)
class _S(str):
    """a plain user subclass of str (no overrides)"""


_route_envs = {}
_loader_store = {}


def _renv(jinja2, route, cfg, make):
    k = (route, cfg.key())
    e = _route_envs.get(k)
    if e is None:
        e = _route_envs[k] = make()
    return e


def render_route(jinja2, route, cfg, src, **ctxvars):
    """render `src` under configuration `cfg` through one entry point / environment class"""
    kw = cfg.kwargs()
    if route == "environment":
        return env_for(jinja2, cfg).from_string(src).render(**ctxvars)
    if route == "template_ctor":
        return jinja2.Template(src, **kw).render(**ctxvars)
    if route == "overlay_of_used":
        def mk():
            base = _route_envs.get("usedbase")
            if base is None:
                base = _route_envs["usedbase"] = jinja2.Environment()
                base.from_string("u{# c #}{% raw %}x{% endraw %}\n").render()
            return base.overlay(**kw)
        return _renv(jinja2, route, cfg, mk).from_string(src).render(**ctxvars)
    if route == "overlay_subset":
        import random as _r
        rng = _route_envs.setdefault("subset_rng", _r.Random(20260921))
        ov, _, _ = overlay_subset_env(jinja2, cfg, rng)
        return ov.from_string(src).render(**ctxvars)
    if route == "sandboxed":
        from jinja2.sandbox import SandboxedEnvironment
        return _renv(jinja2, route, cfg, lambda: SandboxedEnvironment(**kw)).from_string(src).render(**ctxvars)
    if route == "immutable_sandboxed":
        from jinja2.sandbox import ImmutableSandboxedEnvironment
        return _renv(jinja2, route, cfg, lambda: ImmutableSandboxedEnvironment(**kw)).from_string(src).render(**ctxvars)
    if route == "async_env":
        return _renv(jinja2, route, cfg, lambda: jinja2.Environment(enable_async=True, **kw)).from_string(src).render(**ctxvars)
    if route == "autoescape":
        return _renv(jinja2, route, cfg, lambda: jinja2.Environment(autoescape=True, **kw)).from_string(src).render(**ctxvars)
    if route == "unoptimized":
        return _renv(jinja2, route, cfg, lambda: jinja2.Environment(optimized=False, **kw)).from_string(src).render(**ctxvars)
    if route == "extensions":
        return _renv(jinja2, route, cfg, lambda: jinja2.Environment(
            extensions=["jinja2.ext.do", "jinja2.ext.loopcontrols", "jinja2.ext.i18n", "jinja2.ext.debug"], **kw)
        ).from_string(src).render(**ctxvars)
    if route == "loader":
        store = _loader_store.setdefault(cfg.key(), {})
        e = _renv(jinja2, route, cfg, lambda: jinja2.Environment(loader=jinja2.FunctionLoader(lambda n: store[n]), cache_size=0, **kw))
        store["t"] = src
        return e.get_template("t").render(**ctxvars)
    if route == "markup_source":
        from markupsafe import Markup
        return env_for(jinja2, cfg).from_string(Markup(src)).render(**ctxvars)
    if route == "str_subclass_source":
        return env_for(jinja2, cfg).from_string(_S(src)).render(**ctxvars)
    if route == "generate":
        return "".join(env_for(jinja2, cfg).from_string(src).generate(**ctxvars))
    if route == "module":
        return str(env_for(jinja2, cfg).from_string(src).make_module(ctxvars))
    raise ValueError(route)


OPTION_GROUPS = {
    "syntax": ["block_start_string", "block_end_string", "variable_start_string", "variable_end_string",
               "comment_start_string", "comment_end_string", "line_statement_prefix", "line_comment_prefix"],
    "trim": ["trim_blocks"], "lstrip": ["lstrip_blocks"], "newline": ["newline_sequence"], "keep": ["keep_trailing_newline"],
}


def overlay_subset_env(jinja2, cfg, rng, groups=None, used=None):
    """an overlay that overrides exactly a non-empty SUBSET of the option groups (syntax / trim / lstrip /
    newline_sequence / keep_trailing_newline); the parent already has the target's values for the other groups and
    different values for the overridden ones, so the overlay's effective configuration is `cfg`.  The parent has
    (used=True) or has not lexed and rendered before overlay() is called."""
    kw = cfg.kwargs()
    names = list(OPTION_GROUPS)
    if groups is None:
        groups = [g for g in names if rng.random() < 0.4] or [rng.choice(names)]
    if used is None:
        used = rng.random() < 0.7
    parent_kw = dict(kw)
    over = {}
    for g in groups:
        for k in OPTION_GROUPS[g]:
            over[k] = kw[k]
        if g == "syntax":
            other = DELIMS["dollar"] if cfg.name != "dollar" else DELIMS["default"]
            for k, v in zip(OPTION_GROUPS["syntax"], other):
                parent_kw[k] = v
        elif g == "newline":
            parent_kw["newline_sequence"] = "\r" if kw["newline_sequence"] != "\r" else "\n"
        else:
            k = OPTION_GROUPS[g][0]
            parent_kw[k] = not kw[k]
    parent = jinja2.Environment(**parent_kw)
    if used:
        bs, be = parent_kw["block_start_string"], parent_kw["block_end_string"]
        parent.from_string("u \n " + bs + " if true " + be + "\n x\r\n" + bs + " endif " + be + "\n").render()
        list(parent.lex("a\r\nb\n"))
    return parent.overlay(**over), groups, used


ROUTES = ["template_ctor", "overlay_of_used", "overlay_subset", "sandboxed", "immutable_sandboxed", "async_env", "autoescape", "unoptimized",
          "extensions", "loader", "markup_source", "str_subclass_source", "generate", "module"]


def safe_route(jinja2, route, cfg, src, **ctxvars):
    try:
        return "D " + render_route(jinja2, route, cfg, src, **ctxvars)
    except jinja2.TemplateSyntaxError as e:
        return "ERR " + str(e)
    except Exception as e:
        return "X:" + type(e).__name__ + ":" + str(e)[:80]


def probe_shared_bytecode_cache(jinja2, kw_first, kw_second, src):
    """two loader-backed environments that differ in lexer options and share ONE bytecode cache: the first
    compiles `src`, then the second fetches the same name.  Returns (what the second renders, what a second
    environment without a bytecode cache renders).  (Root cause recorded as C27-shared-cache-ignores-options.)"""
    import shutil
    import tempfile
    from . import lib as _lib
    d = tempfile.mkdtemp(prefix="lexbcc_", dir=_lib.BUILD)
    try:
        loader = jinja2.DictLoader({"t": src})
        bcc = jinja2.FileSystemBytecodeCache(d)
        e1 = jinja2.Environment(loader=loader, bytecode_cache=bcc, **kw_first)
        e1.get_template("t").render()
        e2 = jinja2.Environment(loader=loader, bytecode_cache=bcc, **kw_second)
        try:
            got = "D " + e2.get_template("t").render()
        except Exception as e:
            got = "X:" + type(e).__name__
        try:
            want = "D " + jinja2.Environment(loader=loader, **kw_second).get_template("t").render()
        except Exception as e:
            want = "X:" + type(e).__name__
        return got, want
    finally:
        shutil.rmtree(d, ignore_errors=True)
