"""K-parse of C02: the extracted precedence-climbing parser (Model/ExprParser.v) over the REAL
token stream must build the AST that Environment.parse / Parser.parse_expression builds.
Plus an independent oracle for binary-operator precedence (a table written from the docs)."""
import itertools

from . import expr_common as X

BIN = ["+", "-", "*", "/", "//", "%", "**", "~", "==", "!=", "<", "<=", ">", ">=", "in", "not in", "and", "or"]
# documented precedence (templates.rst "Math", "Comparisons", "Logic", "Other Operators"; like
# Python except that ** chains left to right): higher binds tighter
LEVEL = {"or": 1, "and": 2, "==": 4, "!=": 4, "<": 4, "<=": 4, ">": 4, ">=": 4, "in": 4, "not in": 4,
         "+": 5, "-": 5, "~": 6, "*": 7, "/": 7, "//": 7, "%": 7, "**": 8}
BIN_NODE = {"+": "add", "-": "sub", "*": "mul", "/": "div", "//": "floordiv", "%": "mod", "**": "pow"}
CMP_NODE = {"==": "eq", "!=": "ne", "<": "lt", "<=": "lteq", ">": "gt", ">=": "gteq", "in": "in", "not in": "notin"}


def reference_tree(atoms, ops):
    """S for precedence: operator-precedence parse of atoms[0] ops[0] atoms[1] ... by LEVEL,
    every level left-associative, comparisons chaining into one node, ~ flattening"""
    pos = 0

    def climb(min_level):
        nonlocal pos
        left = ("N", atoms[pos])
        while pos < len(ops) and LEVEL[ops[pos]] >= min_level:
            lv = LEVEL[ops[pos]]
            if lv == 4:
                chain = []
                while pos < len(ops) and LEVEL[ops[pos]] == 4:
                    op = ops[pos]
                    pos += 1
                    chain.append((CMP_NODE[op], climb(5)))
                left = ("cmp", left, chain)
            elif lv == 6:
                items = [left]
                while pos < len(ops) and LEVEL[ops[pos]] == 6:
                    pos += 1
                    items.append(climb(7))
                left = ("~", items)
            else:
                op = ops[pos]
                pos += 1
                right = climb(lv + 1)
                left = ("&", left, right) if op == "and" else ("|", left, right) if op == "or" else ("B", BIN_NODE[op], left, right)
        return left
    pos = 0
    # atoms are consumed in order: patch the closure to advance
    it = iter(atoms)

    def atom():
        return ("N", next(it))
    # re-implement with explicit atom consumption
    toks = []
    for i, a in enumerate(atoms):
        toks.append(("a", a))
        if i < len(ops):
            toks.append(("o", ops[i]))
    p = 0

    def peek():
        return toks[p][1] if p < len(toks) and toks[p][0] == "o" else None

    def parse(min_level):
        nonlocal p
        left = ("N", toks[p][1])
        p += 1
        while peek() is not None and LEVEL[peek()] >= min_level:
            lv = LEVEL[peek()]
            if lv == 4:
                chain = []
                while peek() is not None and LEVEL[peek()] == 4:
                    op = peek()
                    p += 1
                    chain.append((CMP_NODE[op], parse(5)))
                left = ("cmp", left, chain)
            elif lv == 6:
                items = [left]
                while peek() is not None and LEVEL[peek()] == 6:
                    p += 1
                    items.append(parse(7))
                left = ("~", items)
            else:
                op = peek()
                p += 1
                right = parse(lv + 1)
                left = ("&", left, right) if op == "and" else ("|", left, right) if op == "or" else ("B", BIN_NODE[op], left, right)
        return left
    return parse(1)


def enc_tokens(env, tsrc):
    """real token stream of '{{ ... }}' -> driver token list (None if a token is outside the model)"""
    out = []
    for t in env._tokenize(tsrc, None):
        if t.type in ("variable_begin", "variable_end"):
            continue
        if t.type == "name":
            out.append("(name " + X.enc_str(t.value) + ")")
        elif t.type == "integer":
            out.append("(int %d)" % t.value)
        elif t.type == "string":
            out.append("(str " + X.enc_str(t.value) + ")")
        elif t.type == "float":
            out.append("float")
        elif t.type in ("add", "sub", "mul", "div", "floordiv", "mod", "pow", "tilde", "eq", "ne", "lt", "lteq", "gt", "gteq",
                        "lparen", "rparen", "lbracket", "rbracket", "lbrace", "rbrace", "dot", "comma", "colon", "pipe", "assign"):
            out.append(t.type)
        else:
            return None
    return "(" + " ".join(out) + ")"


def real_parse(env, src, printed):
    """canonical AST string of the real parser, 'err' for TemplateSyntaxError, 'unsup'"""
    from jinja2.exceptions import TemplateSyntaxError
    from jinja2.parser import Parser
    try:
        if printed:
            node = env.parse("{{ " + src + " }}").body[0].nodes[0]
        else:
            p = Parser(env, src, state="variable")
            node = p.parse_expression()
            if not p.stream.eos:
                return "err", None
    except TemplateSyntaxError:
        return "err", None
    except Exception as e:
        return "X:" + type(e).__name__, None
    tree = X.from_node(node)
    try:
        if "?unsupported" in repr(tree):
            return "unsup", tree
        return "ok " + X.enc_expr(tree), tree
    except ValueError:
        return "unsup", tree


POSTFIX = [".b", "[0]", "[1:2]", "(1)", "(k=2)", "|f", "|f(1)", " is t", " is not t", " is t 3", " is t(3)", "|f.g", "[::2]", ".0", "[1, 2]", "()"]
UNARY = ["-", "+", "not ", ""]


def sources(ctx):
    """(source, kind) stream: exhaustive operator pairs / triples, unary and postfix
    combinations, random parenthesis-dropping prints of generated trees, malformed inputs"""
    names = ["a", "b", "c", "d"]
    out = []
    for o1, o2 in itertools.product(BIN, repeat=2):
        out.append((f"a {o1} b {o2} c", "pair", ([o1, o2])))
    triples = list(itertools.product(BIN, repeat=3))
    if ctx.tier != "thorough":
        triples = ctx.rng.sample(triples, 1200)
    for o1, o2, o3 in triples:
        out.append((f"a {o1} b {o2} c {o3} d", "triple", [o1, o2, o3]))
    for u1, u2, o in itertools.product(UNARY, UNARY, BIN):
        out.append((f"{u1}a {o} {u2}b", "unary", None))
    for u, p1, p2 in itertools.product(UNARY, POSTFIX, POSTFIX + [""]):
        out.append((f"{u}a{p1}{p2}", "postfix", None))
    for u, p, o in itertools.product(["-", "not ", ""], POSTFIX, ["**", "+", "~", "and", "<"]):
        out.append((f"{u}a{p} {o} {u}b{p}", "postfix-op", None))
    # inline-if chains: the else branch nests to the right ("like Python"), an else-less tail is allowed
    import itertools as _it
    nm = lambda x: ("N", x)  # noqa: E731
    for depth in (2, 3, 4):
        for last_else in (True, False):
            vals = ["v%d" % i for i in range(depth + 1)]
            conds = ["c%d" % i for i in range(depth)]
            src = " else ".join(f"{vals[i]} if {conds[i]}" for i in range(depth)) + (f" else {vals[depth]}" if last_else else "")
            tree = nm(vals[depth]) if last_else else None
            for i in reversed(range(depth)):
                tree = ("?", nm(conds[i]), nm(vals[i]), tree)
            out.append((src, "condchain", ("tree", tree)))
    for o in BIN:
        out.append((f"a if b else c {o} d if e else f", "condchain",
                    ("tree", ("?", nm("b"), nm("a"), ("?", nm("e"), reference_tree(["c", "d"], [o]), nm("f"))))))
    # a test written without arguments, followed by every keyword that continues the expression (documented reading:
    # the test ends there): inline if with and without else, and, or, the else of an enclosing inline if
    for tname in ("defined", "odd", "t", "none", "sameas"):
        for neg in (False, True):
            isn = ("is", nm("a"), tname, [])
            isn = ("!", isn) if neg else isn
            txt = "a is " + ("not " if neg else "") + tname
            out.append((txt + " if b else c", "test-then-keyword", ("tree", ("?", nm("b"), isn, nm("c")))))
            out.append((txt + " if b", "test-then-keyword", ("tree", ("?", nm("b"), isn, None))))
            out.append((txt + " and b", "test-then-keyword", ("tree", ("&", isn, nm("b")))))
            out.append((txt + " or b", "test-then-keyword", ("tree", ("|", isn, nm("b")))))
            out.append(("x if " + txt + " else y", "test-then-keyword", ("tree", ("?", isn, nm("x"), nm("y")))))
            out.append(("x if y else " + txt + " if b else c", "test-then-keyword", ("tree", ("?", nm("y"), nm("x"), ("?", nm("b"), isn, nm("c"))))))
            out.append(("not " + txt + " if b else c", "test-then-keyword", ("tree", ("?", nm("b"), ("!", isn), nm("c")))))
    for o1, o2 in itertools.product(BIN, repeat=2):
        out.append((f"a {o1} b if c {o2} d else e", "cond", None))
        out.append((f"a if b {o1} c", "cond", None))
    out += [(s, "fixed", None) for s in [
        "a if b else c if d else e", "a if b if c else d", "(a, b)", "(a,)", "()", "a, b", "a,", "[a, b,]", "[]", "{}", "{a: b, 'k': c,}",
        "'x' 'y'", "true", "True", "none", "None", "false and False", "a.b.c[d].e", "a(b, c=d)(e)", "a(b,)", "a(b c)", "a(k=1, b)",
        "a(*b)", "a(**b)", "a|f(k=1)", "a is t(k=1)", "a[b:c:d]", "a[:]", "a[::]", "a[b:]", "a[:c]", "a[::d]", "a[b,c]", "a[b:c,d]", "a[]",
        "1.5", "a.0.10", "a.1.20", "a.10.1", "a.0.1.2", "a.0", "a.00", "a.1e3", "a.0.b", "a.b.0", "a[0].10", "(a.0).10", "a.0 .10", "a . 0 . 10", "a is b is c", "a is not", "a not b", "not not a", "a not in b not in c", "- - a", "-+a", "a ** b ** c", "-a ** -b",
        "a|f|g", "a is t|f", "a|f is t", "a is t and b", "a is t or b", "a is t else", "a is t if b else c", "a is t [1]", "a is t {}",
        "a is t 'x'", "a is t b.c", "a is t b|f", "a ~ b ~ c ~ d", "a < b < c", "a in b in c", "a == b != c", "(a < b) < c", "a +", "+", "a b",
        "a.", "a.'x'", "a[", "(a", "a)", "{a}", "{a:}", "[a b]", "a if", "a if b else", "a ? b", "a|", "a is", "a|1", "a if b else c, d",
    ]]
    # random parenthesis dropping
    g = X.EGen(ctx.rng)
    import re
    for _ in range(ctx.size(1500, 30000)):
        e = g.gen(ctx.rng.randint(1, 4))
        s = X.to_src(e)
        # drop matching parenthesis pairs at random
        chars = list(s)
        stack, pairs = [], []
        in_str = False
        for i, ch in enumerate(chars):
            if ch == '"':
                in_str = not in_str
            elif not in_str and ch == "(":
                stack.append(i)
            elif not in_str and ch == ")" and stack:
                pairs.append((stack.pop(), i))
        for a, b in pairs:
            if ctx.rng.random() < 0.6:
                chars[a] = chars[b] = ""
        s2 = re.sub(r"\s+", " ", "".join(chars)).strip()
        out.append((s2, "dropped-parens", None))
        if ctx.rng.random() < 0.15 and len(s2) > 3:
            k = ctx.rng.randrange(len(s2))
            out.append((s2[:k] + s2[k + 1:], "malformed", None))
    return out


def run_kparse(ctx):
    run_kunparse(ctx)
    import jinja2
    from jinja2.exceptions import TemplateSyntaxError
    env = jinja2.Environment()
    items = []
    for src, kind, ops in sources(ctx):
        try:
            toks = enc_tokens(env, "{{ " + src + " }}")
        except TemplateSyntaxError:
            ctx.count("parse_lexer_error")
            continue
        except Exception:
            ctx.count("parse_lexer_error")
            continue
        if toks is None:
            continue
        items.append((src, kind, ops, toks))
    lines = []
    for src, kind, ops, toks in items:
        lines.append("pprint " + toks)
        lines.append("parse " + toks)
    outs = ctx.driver("expr", lines)
    for i, (src, kind, ops, toks) in enumerate(items):
        for printed, m in ((True, outs[2 * i]), (False, outs[2 * i + 1])):
            real, tree = real_parse(env, src, printed)
            case = {"kind": "parse", "src": src, "printed": printed}
            ok_tree = real.startswith("ok")
            ctx.case(sample={"src": src, "ast": real[:200]} if ok_tree and kind in ("triple", "postfix-op") else None,
                     key=("parse", src, printed) if ok_tree and kind != "fixed" and len(src) > 5 else None)
            ctx.count("parse_" + kind + ("_ok" if ok_tree else "_" + real.split()[0]))
            # independent oracle: binary operator precedence
            oracle_fail = None
            if ops is not None and printed:
                want = ops[1] if isinstance(ops, tuple) else reference_tree(["a", "b", "c", "d"][:len(ops) + 1], ops)
                if tree != want:
                    oracle_fail = f"'{src}' parses as {tree!r}, the documented precedence gives {want!r}"
                    ctx.reject(case, oracle_fail, "C02:precedence:" + src)
                    continue
            if m == "unsup" and real in ("err", "unsup"):
                # syntax outside the modelled AST met before the place where the real parser fails
                ctx.count("parse_model_unsupported")
                continue
            if real == "unsup":
                if m.startswith("ok"):
                    ctx.model_mismatch("K-parse", case, m[:300], real, None)
                continue
            if m != real:
                ctx.model_mismatch("K-parse", case, m[:400], real[:400], None)
            else:
                ctx.validated()


OPTEXT = {"add": "+", "sub": "-", "mul": "*", "div": "/", "floordiv": "//", "mod": "%", "pow": "**", "tilde": "~", "eq": "==",
          "ne": "!=", "lt": "<", "lteq": "<=", "gt": ">", "gteq": ">=", "lparen": "(", "rparen": ")", "lbracket": "[",
          "rbracket": "]", "lbrace": "{", "rbrace": "}", "dot": ".", "comma": ",", "colon": ":", "pipe": "|", "assign": "="}


def tokens_to_text(sx):
    out = []
    for t in sx:
        if isinstance(t, str):
            out.append(OPTEXT[t])
        elif t[0] == "name":
            out.append("".join(chr(int(c)) for c in t[1][1:]))
        elif t[0] == "int":
            out.append(t[1])
        elif t[0] == "str":
            out.append('"' + "".join(chr(int(c)) for c in t[1][1:]) + '"')
    return " ".join(out)


def run_kunparse(ctx):
    """the printer of C02_parse_unparse against the REAL parser: for generated trees in printable
    normal form, Parser.parse_expression(text(unparse e)) == e, and the model parser with its default
    fuel agrees (the theorem is stated for sufficiently large fuel)"""
    import jinja2
    env = jinja2.Environment()
    g = X.EGen(ctx.rng)
    trees = [g.gen(ctx.rng.randint(1, ctx.size(4, 6))) for _ in range(ctx.size(1500, 30000))]
    trees += [e for e, _ in fixed_eval_cases()]
    outs = ctx.driver("expr", ["unparse " + X.enc_expr(e) for e in trees])
    for e, o in zip(trees, outs):
        if o.startswith("BAD"):
            raise RuntimeError("driver rejected unparse case " + o)
        f = X.split_fields(o)
        if f["W"] != "1":
            ctx.count("unparse_not_normal_form")
            continue
        text = tokens_to_text(X.parse_sx(f["T"])[0])
        want = "ok " + X.enc_expr(e)
        case = {"kind": "parse", "src": text, "printed": False, "tree": repr(e)}
        ctx.case(sample={"unparse": text} if len(text) > 25 else None, key=("unparse", text) if len(text) > 8 else None)
        ctx.count("unparse_ok")
        if f["P"] != want:
            ctx.model_mismatch("C02_parse_unparse vs extracted parser at default fuel", case, f["P"][:300], want[:300], None)
            continue
        real, _tree = real_parse(env, text, False)
        if real != want:
            ctx.model_mismatch("K-unparse (real parser on the model's print)", case, want[:300], real[:300], None)
        else:
            ctx.validated()


def fixed_eval_cases():
    """hand-picked expressions for K-eval: attribute vs item preference, missing values"""
    C = lambda v: ("C", v)  # noqa: E731
    N = lambda v: ("N", v)  # noqa: E731
    es = [
        (".", N("o1"), "a"), ("[]", N("o1"), C("a")), (".", N("o1"), "k"), ("[]", N("o1"), C("k")), (".", N("o1"), "zz"),
        ("[]", N("o1"), C("zz")), (".", N("o1"), "nope"), ("[]", N("o1"), C("nope")), ("[]", N("o1"), C(0)), ("[]", N("o1"), C(9)),
        (".", N("d0"), "a"), ("[]", N("d0"), C("a")), (".", N("u0"), "a"), ("[]", N("u0"), C("a")), (".", (".", N("o1"), "nope"), "x"),
        ("?", C(False), C(1), None), ("is", ("?", C(False), C(1), None), "defined", []), ("F", N("u0"), "default", [C("dflt")]),
        ("B", "pow", ("B", "pow", C(3), C(3)), C(3)), ("U", "neg", ("B", "pow", C(2), C(2))), ("B", "pow", ("U", "neg", C(2)), C(2)),
        ("~", [N("m0"), N("s0"), C(1)]), ("cmp", C(1), [("lt", C(2)), ("lt", C(3))]), ("cmp", C(1), [("gt", C(2)), ("lt", ("call", N("f1"), [], []))]),
        ("call", N("f1"), [C(1), N("s0")], [("p", C(2))]), ("call", N("f0"), [], []), ("call", N("u0"), [], []), ("call", C(1), [], []),
        ("[]", N("l0"), ("U", "neg", C(1))), ("[]", N("l0"), C("a")), ("sl", N("s0"), C(1), None, None), ("sl", N("l0"), None, None, ("U", "neg", C(1))),
        ("sl", N("i0"), C(1), C(2), None), ("sl", N("d0"), C(1), C(2), None), ("sl", N("l0"), None, None, C(0)),
        ("[]", N("o1"), N("mk0")), ("[]", N("o2"), N("mk0")), ("[]", N("o1"), ("F", C("b"), "safe", [])), ("[]", N("o2"), ("F", C("b"), "e", [])),
        ("[]", N("o1"), ("F", C("zz"), "safe", [])), ("[]", N("d0"), N("mk0")), ("[]", N("o2"), N("sk0")),
        (".i", (".i", N("g0"), 0), 10), (".i", (".i", N("g0"), 1), 20), (".i", (".i", N("g0"), 2), 30), (".i", (".i", N("g0"), 1), 2), (".i", (".i", N("g0"), 3), 10),
        (".i", ("[]", N("g0"), C(2)), 10), ("[]", (".i", N("g0"), 1), C(10)), (".", (".i", N("l0"), 0), "a"), (".i", N("s0"), 0), (".i", (".i", N("g0"), 10), 1),
        ("D", [(C("a"), C(1)), (C("a"), C(2))]), ("D", [(("L", []), C(1))]), (".", N("o1"), "_p"), ("[]", N("o1"), C("_p")), ("[]", N("o1"), C("_q")), (".", N("o1"), "_q"),
    ]
    return [(e, 1000 + i) for i, e in enumerate(es)]


def replay(ctx, case):
    import jinja2
    env = jinja2.Environment()
    toks = enc_tokens(env, "{{ " + case["src"] + " }}")
    m = ctx.driver("expr", [("pprint " if case["printed"] else "parse ") + toks])[0]
    real, tree = real_parse(env, case["src"], case["printed"])
    print("model:", m, "\nreal :", real)
    if m != real and real != "unsup":
        ctx.reject(case, "model parser and real parser differ on replayed case")
