"""Grammar-directed generator of mostly-valid Jinja templates and data (shared by the
oracle / correspondence streams of many properties).  Everything derives from the
random.Random handed in, so a (seed, index) pair replays exactly.

Generated programs are typed lightly (int / str / list expressions) so that most of them
render without error; a configurable share of "wild" expressions keeps error paths alive.
"""
from __future__ import annotations

NAMES = ["a", "b", "c", "x", "y"]
STR_FILTERS = ["upper", "lower", "trim", "capitalize", "title", "string"]
NEUTRAL_STR_FILTERS = ["upper", "lower", "string"]


class TGen:
    def __init__(self, rng, *, meta=False, features=None, depth=3, neutral=False, names=None):
        self.r = rng
        self.meta = meta          # data / literals contain HTML metacharacters
        self.neutral = neutral    # only escaping-neutral constructs (C16)
        self.depth = depth
        self.names = names or NAMES
        self.f = set(features or ["if", "for", "set", "setblock", "with", "macro", "call", "filterblock",
                                  "include", "import", "extends"])
        self.macros = []          # (name, nparams)
        self.aux = {}             # extra templates
        self.counter = 0

    # ------------------------------------------------------------ data
    def word(self):
        r = self.r
        base = r.choice(["foo", "Bar", "b a z", "x1", "", "Hello World", "q"])
        if self.meta and r.random() < 0.6:
            base += r.choice(["<b>", "&", "\"q\"", "'s", "<i>x</i>", "&amp;", ">"])
        return base

    def data(self):
        r = self.r
        d = {}
        for n in self.names:
            k = r.random()
            if k < 0.25:
                d[n] = r.randint(-3, 12)
            elif k < 0.5:
                d[n] = self.word()
            elif k < 0.7:
                d[n] = [r.randint(0, 5) for _ in range(r.randint(0, 4))]
            elif k < 0.85:
                d[n] = [self.word() for _ in range(r.randint(0, 3))]
            elif k < 0.93:
                d[n] = {"k": self.word(), "n": r.randint(0, 9)}
            # else: undefined
        return d

    # ------------------------------------------------------------ expressions
    def lit_str(self):
        s = self.word().replace("\\", "")
        q = self.r.choice("'\"")
        if q in s:
            q = "'" if q == '"' else '"'
        if q in s:
            s = s.replace("'", "").replace('"', "")
        return q + s + q

    def e_int(self, d=2):
        r = self.r
        k = r.random()
        if d <= 0 or k < 0.35:
            return str(r.randint(0, 9))
        if k < 0.55:
            return r.choice(self.names) + "|default(0)|int"
        if k < 0.75:
            return f"({self.e_int(d-1)} {r.choice(['+', '-', '*'])} {self.e_int(d-1)})"
        if k < 0.85:
            return f"({self.e_list(d-1)})|length"
        if k < 0.92:
            return f"({self.e_int(d-1)} // {r.randint(1, 4)})"
        return "(loop.index if loop is defined else 0)"

    def e_str(self, d=2):
        r = self.r
        k = r.random()
        if d <= 0 or k < 0.3:
            return self.lit_str()
        if k < 0.5:
            return r.choice(self.names) + "|string"
        if k < 0.7:
            return f"({self.e_str(d-1)} ~ {self.e_any(d-1)})"
        if k < 0.85:
            fl = NEUTRAL_STR_FILTERS if self.neutral else STR_FILTERS
            return f"({self.e_str(d-1)})|{r.choice(fl)}"
        if k < 0.93:
            return f"({self.e_list(d-1)})|join({self.lit_str()})"
        return f"({self.e_str(d-1)} if {self.e_cond(d-1)} else {self.e_str(d-1)})"

    def e_list(self, d=2):
        r = self.r
        k = r.random()
        if d <= 0 or k < 0.4:
            items = [self.e_int(0) if r.random() < 0.5 else self.lit_str() for _ in range(r.randint(0, 3))]
            return "[" + ", ".join(items) + "]"
        if k < 0.6:
            return f"range({r.randint(0, 4)})|list"
        if k < 0.8:
            n = r.choice(self.names)
            return f"({n} if {n} is iterable and {n} is not string and {n} is not mapping else [])"
        return f"({self.e_list(d-1)} + {self.e_list(d-1)})"

    def e_cond(self, d=2):
        r = self.r
        k = r.random()
        if d <= 0 or k < 0.3:
            return r.choice(self.names) + r.choice([" is defined", " is undefined", "", " is none", " is string"])
        if k < 0.55:
            return f"{self.e_int(d-1)} {r.choice(['<', '<=', '==', '!=', '>', '>='])} {self.e_int(d-1)}"
        if k < 0.7:
            return f"({self.e_cond(d-1)} {r.choice(['and', 'or'])} {self.e_cond(d-1)})"
        if k < 0.8:
            return f"not {self.e_cond(d-1)}"
        if k < 0.9:
            return f"{self.e_any(d-1)} in {self.e_list(d-1)}"
        return r.choice(["true", "false", "loop is defined"])

    def e_any(self, d=2):
        r = self.r
        k = r.random()
        if k < 0.3:
            return self.e_int(d)
        if k < 0.6:
            return self.e_str(d)
        if k < 0.7:
            return r.choice(self.names)
        if k < 0.78:
            return r.choice(self.names) + r.choice([".k", "['n']", "[0]", ".missing", "|string|first", "|string|last"])
        if k < 0.86:
            return self.e_cond(d)
        if k < 0.93 and self.macros and not self.neutral_block():
            return self.macro_call()
        return self.e_list(d)

    def neutral_block(self):
        return False

    def macro_call(self):
        name, n = self.r.choice(self.macros)
        args = [self.e_any(0) for _ in range(self.r.randint(0, n))]
        return f"{name}({', '.join(args)})"

    # ------------------------------------------------------------ statements
    def text(self):
        r = self.r
        t = r.choice(["", "t", " ", "\n", "txt ", "[", "]", ";", "\n  ", "T1\n", "-"])
        return t

    def body(self, d, n=None, inloop=False, top=False):
        n = n if n is not None else self.r.randint(1, 3)
        saved = list(self.macros)
        out = "".join(self.stmt(d, inloop) for _ in range(n))
        if not top:
            self.macros = saved      # macros defined in an inner scope are not visible outside
        return out

    def stmt(self, d, inloop=False):
        r = self.r
        kinds = ["text", "out", "out", "out"]
        if d > 0:
            kinds += [k for k in ["if", "for", "set", "setblock", "with", "macro", "call", "filterblock",
                                  "include", "import"] if k in self.f]
        k = r.choice(kinds)
        if k == "text":
            return self.text()
        if k == "out":
            return "{{ " + self.e_any(2) + " }}" + self.text()
        if k == "if":
            s = "{% if " + self.e_cond(2) + " %}" + self.body(d - 1, None, inloop)
            if r.random() < 0.3:
                s += "{% elif " + self.e_cond(1) + " %}" + self.body(d - 1, 1, inloop)
            if r.random() < 0.5:
                s += "{% else %}" + self.body(d - 1, 1, inloop)
            return s + "{% endif %}"
        if k == "for":
            var = r.choice(["i", "j", r.choice(self.names)])
            s = "{% for " + var + " in " + self.e_list(2)
            if r.random() < 0.25:
                s += " if " + var + " != " + self.e_int(0)
            s += " %}"
            inner = "{{ " + r.choice([var, "loop.index", "loop.first", "loop.length", "loop.revindex0",
                                      f"loop.cycle('o', 'e')", "loop.last", var + " ~ loop.index0"]) + " }}"
            s += inner + self.body(d - 1, None, True)
            if r.random() < 0.3:
                s += "{% else %}" + self.body(d - 1, 1, inloop)
            return s + "{% endfor %}"
        if k == "set":
            return "{% set " + r.choice(self.names) + " = " + self.e_any(2) + " %}"
        if k == "setblock":
            flt = ""
            if r.random() < 0.3:
                # a filter on the block, sometimes with arguments that are names used nowhere else
                choices = ["lower", "trim"] if self.neutral else [
                    "upper", "trim", f"replace({self.lit_str()}, {self.e_str(1)})",
                    f"default({r.choice(self.names)}|string)"]
                flt = " | " + r.choice(choices)
            return "{% set " + r.choice(self.names) + flt + " %}" + self.body(d - 1, 2, inloop) + "{% endset %}"
        if k == "with":
            return ("{% with " + r.choice(self.names) + " = " + self.e_any(1) + " %}" + self.body(d - 1, None, inloop)
                    + "{% endwith %}")
        if k == "macro":
            self.counter += 1
            name = f"m{self.counter}"
            n = r.randint(0, 2)
            params = [f"p{i}" for i in range(n)]
            sig = ", ".join(p + ("=" + self.e_any(0) if r.random() < 0.4 and i == n - 1 else "") for i, p in enumerate(params))
            saved = self.names
            self.names = saved + params
            b = self.body(d - 1, 2)
            if r.random() < 0.3:
                b += "{{ caller() if caller is defined else '' }}"
            self.names = saved
            self.macros.append((name, n))
            return "{% macro " + name + "(" + sig + ") %}" + b + "{% endmacro %}"
        if k == "call":
            if not self.macros:
                return self.text()
            return "{% call " + self.macro_call() + " %}" + self.body(d - 1, 1, inloop) + "{% endcall %}"
        if k == "filterblock":
            fl = NEUTRAL_STR_FILTERS[:2] if self.neutral else ["upper", "lower", "trim",
                                                               f"replace({self.lit_str()}, {r.choice(self.names)}|string)"]
            return "{% filter " + r.choice(fl) + " %}" + self.body(d - 1, 2, inloop) + "{% endfilter %}"
        if k == "include":
            self.counter += 1
            name = f"inc{self.counter}.html"
            saved, self.macros = self.macros, []
            self.aux[name] = self.body(min(d - 1, 1), 2)
            self.macros = saved
            tail = r.choice(["", " with context", " without context", " ignore missing"])
            if r.random() < 0.15:
                return "{% include ['nope.html', '" + name + "']" + tail + " %}"
            return "{% include '" + name + "'" + tail + " %}"
        if k == "import":
            self.counter += 1
            name = f"lib{self.counter}.html"
            mname = f"f{self.counter}"
            saved_m, self.macros = self.macros, []
            saved_n = self.names
            self.names = saved_n + ["p"]
            mb = self.body(0, 2)
            self.names = saved_n
            self.macros = saved_m
            self.aux[name] = "{% macro " + mname + "(p=1) %}" + mb + "{% endmacro %}{% set v" + str(self.counter) + " = " + self.e_int(0) + " %}"
            ctx = r.choice(["", " with context", " without context"])
            if r.random() < 0.5:
                alias = f"L{self.counter}"
                return "{% import '" + name + "' as " + alias + ctx + " %}{{ " + alias + "." + mname + "(" + self.e_any(0) + ") }}"
            return "{% from '" + name + "' import " + mname + ctx + " %}{{ " + mname + "(" + self.e_any(0) + ") }}"
        return self.text()

    # ------------------------------------------------------------ whole template sets
    def template_set(self):
        """returns (templates: dict name->source, main: str)"""
        r = self.r
        self.aux = {}
        self.macros = []
        self.counter = 0
        if "extends" in self.f and r.random() < 0.35:
            nblocks = r.randint(1, 3)
            blocks = [f"b{i}" for i in range(nblocks)]
            base = self.body(1, 1)
            for b in blocks:
                base += "{% block " + b + " %}" + self.body(1, 2) + "{% endblock %}" + self.text()
            self.aux["base.html"] = base
            main = "{% extends 'base.html' %}" + self.text()
            for b in blocks:
                if r.random() < 0.7:
                    bb = self.body(self.depth - 1, 2)
                    if r.random() < 0.4:
                        bb += "{{ super() }}"
                    main += "{% block " + b + " %}" + bb + "{% endblock %}"
        else:
            main = self.body(self.depth, r.randint(1, 4), top=True)
        ts = dict(self.aux)
        ts["main.html"] = main
        return ts, "main.html"
