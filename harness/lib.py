"""Shared machinery of the /verif checks (see DESIGN.md §3).

A property module  harness/cXX.py  defines

    def run(ctx): ...            # the whole check (proof re-check, ties, oracle)
    def replay(ctx, case): ...   # optional: re-run one recorded case, report again

and uses the Ctx API below:

    ctx.proof("C10")                       re-check Properties/C10.v with coqc, record
                                           Print Assumptions output as trusted base
    ctx.coq_obligation(name, vtext)        compile a generated .v file (regenerated facts
                                           + obligations) under build/<id>/
    ctx.driver("lru", lines) -> [str]      run an extracted-model driver
    ctx.case(sample=None, nontrivial_key=None)   count an explored case
    ctx.model_mismatch(tie, case, model, impl, oracle_fail)   M != code
    ctx.reject(case, what, signature)      oracle O rejects the implementation on `case`
    ctx.finish()                           write evidence, print verdict lines, exit code
"""
from __future__ import annotations

import fcntl
import hashlib
import json
import os
import random
import re
import subprocess
import sys
import time

ROOT = os.path.dirname(os.path.dirname(os.path.abspath(__file__)))
REPO = os.environ.get("VERIF_REPO", "/repo")
SRC = os.path.join(REPO, "src")
COQ = os.path.join(ROOT, "coq")
THEORIES = os.path.join(COQ, "theories")
BUILD = os.path.join(ROOT, "build")
PY = "/venv/bin/python"

IMPL_ENV = dict(os.environ, PYTHONPATH=SRC, PYTHONHASHSEED="0", PALLETS_JINJA_VERIF="1")


def use_repo_jinja():
    """Make `import jinja2` resolve to /repo's current working tree in this process."""
    if SRC not in sys.path[:1]:
        sys.path.insert(0, SRC)
    import jinja2  # noqa

    got = os.path.realpath(os.path.dirname(jinja2.__file__))
    want = os.path.realpath(os.path.join(SRC, "jinja2"))
    if got != want:
        raise RuntimeError(f"jinja2 imported from {got}, expected {want}")
    return jinja2


def sh(cmd, timeout=600, cwd=None, env=None, inp=None):
    p = subprocess.run(cmd, cwd=cwd, env=env, input=inp, capture_output=True, text=True, timeout=timeout)
    return p.returncode, p.stdout, p.stderr


def ensure_static_build():
    """The hand-written theories and drivers are built by setup.sh; build them here (under a
    lock, incrementally, keep-going) if a check is started before setup or after a theory
    file changed.  A file that fails to build makes the check that needs it fail, nothing else."""
    marker = os.path.join(BUILD, "setup.ok")
    newest_src = 0.0
    for base in (THEORIES, os.path.join(ROOT, "ocaml")):
        for d, _, fs in os.walk(base):
            for f in fs:
                if f.endswith((".v", ".ml")):
                    newest_src = max(newest_src, os.path.getmtime(os.path.join(d, f)))
    if os.path.exists(marker) and os.path.getmtime(marker) >= newest_src:
        return
    os.makedirs(BUILD, exist_ok=True)
    rc, out, err = sh([os.path.join(ROOT, "setup.sh")], timeout=3600, cwd=ROOT,
                      env=dict(os.environ, VERIF_SETUP_KEEP_GOING="1"))
    if "INCOMPLETE" in out:
        sys.stderr.write(out[-3000:] + err[-1000:])


class Ctx:
    def __init__(self, prop, tier, seed, replay_path=None):
        self.prop = prop
        self.tier = tier
        self.seed = seed
        self.rng = random.Random(seed)
        self.replay_path = replay_path
        self.t0 = time.time()
        self.evaluations = 0
        self.nontrivial = set()
        self.samples = []
        self.obligations = 0
        self.discharged = 0
        self.obligation_names = []
        self.broken = []          # names of theorems / obligations / ties that no longer check
        self.trusted = []
        self.assumptions = []
        self.checker_cmds = []
        self.violations = []      # (case, what)
        self.known_hits = {}      # finding id -> what
        self.mismatches = []      # (tie, case, model, impl, oracle_fail)
        self.traces_validated = 0
        self.extra = {}
        self.dist = {}
        self.notes = []
        self.scratch_repo = REPO != "/repo"
        self.bdir = os.path.join(BUILD, prop + ("__" + hashlib.sha1(REPO.encode()).hexdigest()[:8] if self.scratch_repo else ""))
        os.makedirs(self.bdir, exist_ok=True)
        self.known = []
        import glob as _glob
        for kf in [os.path.join(ROOT, "KNOWN_FINDINGS.json")] + sorted(_glob.glob(os.path.join(ROOT, "known_findings.d", "*.json"))):
            if os.path.exists(kf):
                self.known += [r for r in json.load(open(kf))["findings"] if r["property"] == prop]

    # ---------------------------------------------------------------- sizes
    def size(self, quick, thorough):
        return thorough if self.tier == "thorough" else quick

    def count(self, kind, n=1):
        self.dist[kind] = self.dist.get(kind, 0) + n

    # ---------------------------------------------------------------- proofs
    def _coqc(self, vfile, out_vo, timeout=600):
        cmd = ["coqc", "-Q", THEORIES, "JV", "-o", out_vo, vfile]
        self.checker_cmds.append("coqc -Q coq/theories JV " + os.path.relpath(vfile, ROOT))
        try:
            return sh(cmd, timeout=timeout, cwd=self.bdir)
        except subprocess.TimeoutExpired:
            return 124, "", "coqc timeout"

    def proof(self, name=None, timeout=900):
        """Re-check Properties/<name>.v from source with coqc (its dependencies come from the
        static build) and record, per theorem, what Print Assumptions reports."""
        name = name or self.prop
        vfile = os.path.join(THEORIES, "Properties", name + ".v")
        text = open(vfile).read()
        for bad in ("Admitted", "admit.", "Axiom ", "Parameter ", "Conjecture ", "Unset Guard", "bypass_check"):
            if bad in re.sub(r"\(\*.*?\*\)", "", text, flags=re.S):
                self.broken.append(f"{name}.v contains forbidden '{bad.strip()}'")
        thms = re.findall(r"^\s*(?:Theorem|Lemma|Example|Corollary)\s+([A-Za-z0-9_']+)", text, flags=re.M)
        printed = re.findall(r"^\s*Print Assumptions\s+([A-Za-z0-9_'.]+)\s*\.", text, flags=re.M)
        self.obligations += len(thms)
        self.obligation_names += thms
        rc, out, err = self._coqc(vfile, os.path.join(self.bdir, name + ".vo"), timeout)
        if rc != 0:
            self.broken.append(f"Properties/{name}.v does not check: " + (err.strip().splitlines() or ["?"])[-1][:300])
            self.extra.setdefault("coq_errors", []).append(err[-2000:])
            return False
        self.discharged += len(thms)
        # split the Print Assumptions output per theorem
        blocks = re.split(r"(?=^Closed under the global context|^Axioms:|^Section Variables:)", out, flags=re.M)
        blocks = [b.strip() for b in blocks if b.strip()]
        for i, t in enumerate(printed):
            b = blocks[i] if i < len(blocks) else "?"
            self.trusted.append(f"{t}: " + " ".join(b.split()))
        if self.tier == "thorough" and not self.scratch_repo:
            # independent re-check of the compiled property file and everything it depends on
            cmd = ["coqchk", "-silent", "-o", "-Q", THEORIES, "JV", "JV.Properties." + name]
            self.checker_cmds.append("coqchk -silent -o -Q coq/theories JV JV.Properties." + name)
            try:
                rc2, out2, err2 = sh(cmd, timeout=1800, cwd=COQ)
            except subprocess.TimeoutExpired:
                rc2, out2, err2 = 124, "", "coqchk timeout"
            if rc2 != 0:
                self.broken.append(f"coqchk rejects Properties/{name}.vo: " + (err2.strip().splitlines() or ["?"])[-1][:300])
            else:
                summ = out2[out2.find("CONTEXT SUMMARY"):] if "CONTEXT SUMMARY" in out2 else out2[-600:]
                self.trusted.append(f"coqchk -o {name}: " + " ".join(summ.split()))
        return True

    def coq_obligation(self, name, vtext, n_obligations=1, timeout=600):
        """Compile a generated file (facts regenerated from /repo + the obligations over
        them).  Returns True when it checks."""
        vfile = os.path.join(self.bdir, name + ".v")
        with open(vfile, "w") as f:
            f.write(vtext)
        self.obligations += n_obligations
        self.obligation_names.append(f"{name} (regenerated, {n_obligations})")
        rc, out, err = self._coqc(vfile, os.path.join(self.bdir, name + ".vo"), timeout)
        if rc != 0:
            self.broken.append(f"regenerated obligation {name} fails: " + (err.strip().splitlines() or ["?"])[-1][:300])
            self.extra.setdefault("coq_errors", []).append(err[-2000:])
            return False, out + err
        self.discharged += n_obligations
        return True, out

    def coq_eval(self, name, vtext, timeout=600):
        """Evaluate model definitions inside Coq (vm_compute) — returns coqc's stdout."""
        vfile = os.path.join(self.bdir, name + ".v")
        with open(vfile, "w") as f:
            f.write(vtext)
        rc, out, err = self._coqc(vfile, os.path.join(self.bdir, name + ".vo"), timeout)
        if rc != 0:
            raise RuntimeError("coq_eval failed: " + err[-1500:])
        return out

    # ---------------------------------------------------------------- model execution
    def driver(self, fam, lines, timeout=1200):
        exe = os.path.join(BUILD, "bin", fam)
        def _big_stack():
            # extracted models recurse structurally (non-tail) over long inputs
            import resource
            try:
                resource.setrlimit(resource.RLIMIT_STACK, (resource.RLIM_INFINITY, resource.RLIM_INFINITY))
            except (ValueError, OSError):
                pass
        p = subprocess.run([exe], input="\n".join(lines) + "\n", capture_output=True, text=True, timeout=timeout,
                           preexec_fn=_big_stack)
        if p.returncode != 0:
            raise RuntimeError(f"driver {fam} failed: {p.stderr[-500:]}")
        out = p.stdout.split("\n")
        if out and out[-1] == "":
            out.pop()
        if len(out) != len(lines):
            raise RuntimeError(f"driver {fam}: {len(lines)} cases in, {len(out)} lines out")
        return out

    # ---------------------------------------------------------------- accounting
    def case(self, sample=None, key=None, n=1):
        self.evaluations += n
        if key is not None:
            self.nontrivial.add(key if isinstance(key, (str, int, tuple)) else json.dumps(key, sort_keys=True, default=str))
        if sample is not None and len(self.samples) < 6:
            self.samples.append(sample)

    def validated(self, n=1):
        self.traces_validated += n

    # ---------------------------------------------------------------- verdicts
    def _known_match(self, signature):
        for r in self.known:
            if r.get("status") == "known" and r["signature"] == signature:
                return r
        return None

    def reject(self, case, what, signature=None):
        """The oracle (spec applied to the real implementation) rejects `case`."""
        if signature is not None:
            r = self._known_match(signature)
            if r is not None:
                self.known_hits.setdefault(r["id"], r["what"])
                return
        if len(self.violations) < 50:
            self.violations.append((case, what, signature))

    def model_mismatch(self, tie, case, model, impl, oracle_fail=None, signature=None):
        """Extracted model and implementation disagree on `case`.  oracle_fail: the oracle's
        verdict on the implementation's behaviour for this case (None = property still
        holds on it)."""
        if oracle_fail:
            self.reject(case, f"{tie}: model and implementation differ and the property fails: {oracle_fail}", signature)
            return
        if len(self.mismatches) < 50:
            self.mismatches.append((tie, case, model, impl))
        if tie not in [b for b in self.broken]:
            self.broken.append(tie)

    def write_replay(self, payload):
        d = os.path.join(self.bdir, "replays") if self.scratch_repo else os.path.join(ROOT, "replays", self.prop)
        os.makedirs(d, exist_ok=True)
        blob = json.dumps(payload, sort_keys=True, default=str, indent=1)
        h = hashlib.sha1(blob.encode()).hexdigest()[:12]
        path = os.path.join(d, h + ".json")
        with open(path, "w") as f:
            f.write(blob)
        return path

    def finish(self):
        wall = time.time() - self.t0
        lines = []
        rc = 0
        for fid, what in sorted(self.known_hits.items()):
            lines.append(f"KNOWN-FINDING: property={self.prop} {fid}: {what}")
        reported = set()
        for case, what, sig in self.violations:
            key = sig or json.dumps(case, sort_keys=True, default=str)
            if key in reported:
                continue
            reported.add(key)
            path = self.write_replay({"property": self.prop, "kind": "failing-input", "case": case, "what": what,
                                      "signature": sig, "seed": self.seed, "tier": self.tier})
            lines.append(f"VIOLATION property={self.prop} replay={path}")
            rc = 1
            if len(reported) >= 5:
                break
        if self.broken and not self.violations:
            path = self.write_replay({"property": self.prop, "kind": "no-longer-checks", "broken": self.broken,
                                      "mismatches": self.mismatches[:10], "seed": self.seed, "tier": self.tier,
                                      "note": "a theorem, regenerated obligation or model/implementation "
                                              "correspondence no longer checks; the search found no input on which "
                                              "the property itself fails"})
            lines.append(f"VIOLATION property={self.prop} replay={path} no-failing-input-found")
            rc = 1
        cov = {
            "obligations": self.obligations,
            "discharged": self.discharged,
            "checker_cmd": "; ".join(dict.fromkeys(self.checker_cmds)) or "none run",
            "trusted_base": self.trusted + TRUSTED_COMMON,
            "evaluations": self.evaluations,
            "distinct_nontrivial": len(self.nontrivial),
            "rule": self.extra.pop("rule", ""),
            "samples": self.samples or ["(no sample recorded)"],
            "traces_validated_against_impl": self.traces_validated,
            "obligation_names": self.obligation_names,
            "input_distribution": self.dist,
            "broken": self.broken,
            "known_findings_reobserved": sorted(self.known_hits),
            "notes": self.notes,
        }
        cov.update(self.extra)
        ev = {
            "property_id": self.prop, "tier": self.tier, "seed": self.seed, "level": "proof",
            "coverage": cov, "assumptions": self.assumptions, "wall_s": round(wall, 2),
            "violations": len(reported) + (1 if (self.broken and not self.violations) else 0),
        }
        if not self.replay_path:
            evdir = self.bdir if self.scratch_repo else os.path.join(ROOT, "evidence")
            os.makedirs(evdir, exist_ok=True)
            with open(os.path.join(evdir, self.prop + ".json"), "w") as f:
                json.dump(ev, f, indent=1, default=str)
        for ln in lines:
            print(ln)
        print(f"[{self.prop}] tier={self.tier} seed={self.seed} obligations={self.discharged}/{self.obligations} "
              f"cases={self.evaluations} nontrivial={len(self.nontrivial)} validated={self.traces_validated} "
              f"known={len(self.known_hits)} violations={ev['violations']} wall={wall:.1f}s")
        return rc


TRUSTED_COMMON = [
    "kernel: coqc 8.16.1 (no native_compute; vm_compute for witnesses, finite-domain theorems and regenerated obligations)",
    "extraction: ExtrOcamlBasic only (bool, option, unit, list, prod, sumbool, sumor; inlined andb, orb); N/Z/positive/nat stay inductive; OCaml 4.13.1 drivers in /verif/ocaml",
    "correspondence harness /verif/harness (generators, canonicalisers, comparators) and translators /verif/gen",
    "no line of Python is verified directly: theorems are about the Gallina model, tied to /repo by the correspondence run of this check",
]


def impl_python(code, inp=None, timeout=600, hashseed="0", extra_env=None):
    """Run python code against /repo's jinja in a fresh interpreter; returns (rc, out, err)."""
    env = dict(IMPL_ENV, PYTHONHASHSEED=str(hashseed))
    if extra_env:
        env.update(extra_env)
    return sh([PY, "-c", code], timeout=timeout, env=env, inp=inp, cwd="/")


# ---------------------------------------------------------------- CPU-time guard for in-process calls into the engine
class Hang(BaseException):
    """raised by cpu_guard when the guarded call used more CPU time than allowed (not an Exception: the engine's
    `except Exception` clauses must not swallow it)"""


class cpu_guard:
    """with cpu_guard(5.0): <call into the engine>   — raises Hang after that many seconds of CPU time of this
    process (re-firing every second), main thread only"""

    def __init__(self, seconds=5.0):
        self.seconds = seconds

    def __enter__(self):
        import signal

        self._armed = True

        def _fire(sig, frm):
            if self._armed:      # a tick arriving while the guard is taken down must not raise
                raise Hang()
        self._old = signal.signal(signal.SIGVTALRM, _fire)
        signal.setitimer(signal.ITIMER_VIRTUAL, self.seconds, 1.0)
        return self

    def __exit__(self, *exc):
        import signal
        self._armed = False
        signal.setitimer(signal.ITIMER_VIRTUAL, 0)
        signal.signal(signal.SIGVTALRM, self._old)
        return False
