"""C09 — async mode renders exactly what sync mode renders.

proof:  Properties/C09.v (codegen_parity and await_erasure on a small target language, for every
        program / data; variant_agree per async-variant filter; chain_parity_refuted + _partial)
T    :  the async-variant table re-read from filters.py with ast (which registered filters carry
        @async_variant, which return an async generator) -> obligation: the model's classification
        of its 15 filters equals the source's (vm_compute).
K-gen:  every generated program is compiled in both modes and the async decoration is erased from
        the REAL async code by an ast transformer (harness/c09_erase.py); the result must be the
        real sync code.
K-rt :  filter chains (<= 3 filters over the model's alphabet, all inputs of a small pool): the
        extracted model (Asy.run_chain) against the engine in both modes, incl. the failures.
O    :  render / generate on a sync environment against render / render_async / generate /
        generate_async on an async one - same output or same error class - over Environment,
        SandboxedEnvironment, ImmutableSandboxedEnvironment, NativeEnvironment, also with data
        callables wrapped as coroutine functions and iterables as async iterables.
"""
import ast
import asyncio
import itertools
import os
import warnings

from . import lib
from . import c09_erase as ER
from . import c36
from .gen_templates import TGen

RULE = ("K-gen: TGen template sets and C36 generator-tree sets, every template compiled raw in both modes (templates whose "
        "sync code constant-folds an async-variant filter are counted separately); K-rt: all chains of <= 3 filters over "
        "{map(abs), select(odd), reject(odd), list, unique, sort, reverse} closed by an optional consumer {first, sum, join, "
        "max, min, length, batch(1), slice(1)} x 5 input lists x 2 modes; O: TGen sets and a pool of call / loop / filter / "
        "macro / include / import snippets over data with callables and iterables, 4 environment classes, 6 entry points, "
        "plain and async-wrapped data; distinct non-trivial = (template, environment class, data kind) whose sync "
        "reference is a non-empty successful render")

MODEL_NAMES = [("FMapAbs", "map"), ("FSelectOdd", "select"), ("FRejectOdd", "reject"), ("FList", "list"), ("FFirst", "first"),
               ("FSum", "sum"), ("FJoin", "join"), ("FUnique", "unique"), ("FSlice1", "slice"), ("FSort", "sort"), ("FMax", "max"),
               ("FMin", "min"), ("FReverse", "reverse"), ("FBatch1", "batch"), ("FLength", "length")]
TPL = {"map_abs": "map('abs')", "select_odd": "select('odd')", "reject_odd": "reject('odd')", "list": "list", "first": "first",
       "sum": "sum", "join": "join(',')", "unique": "unique", "slice1": "slice(1)", "sort": "sort", "max": "max", "min": "min",
       "reverse": "reverse", "batch1": "batch(1)", "length": "length"}
HAS_VARIANT = {"map_abs", "select_odd", "reject_odd", "list", "first", "sum", "join", "unique", "slice1", "sort", "max", "min",
               "reverse", "batch1"}
LAZY = {"map_abs", "select_odd", "reject_odd"}
MIDDLE = ["map_abs", "select_odd", "reject_odd", "list", "unique", "sort", "reverse"]
FINAL = ["first", "sum", "join", "max", "min", "length", "batch1", "slice1"]


# --------------------------------------------------------------------------- T: async-variant table from source
def variant_table(src_dir):
    tree = ast.parse(open(os.path.join(src_dir, "filters.py")).read())
    fns = {n.name: n for n in tree.body if isinstance(n, (ast.FunctionDef, ast.AsyncFunctionDef))}

    def is_agen(fn):
        if not isinstance(fn, ast.AsyncFunctionDef):
            return False
        for n in ast.walk(fn):
            if isinstance(n, (ast.Yield, ast.YieldFrom)):
                return True
        return False

    agens = {n for n, f in fns.items() if is_agen(f)}
    variant_fns, producer_fns = set(), set()
    for name, fn in fns.items():
        for d in fn.decorator_list:
            if isinstance(d, ast.Call) and getattr(d.func, "id", "") == "async_variant":
                variant_fns.add(name)
                if name in agens:
                    producer_fns.add(name)
                for n in ast.walk(fn):
                    if isinstance(n, ast.Return) and isinstance(n.value, ast.Call) and getattr(n.value.func, "id", "") in agens:
                        producer_fns.add(name)
    registered = {}
    for n in tree.body:
        if isinstance(n, ast.Assign) and getattr(n.targets[0], "id", "") == "FILTERS" and isinstance(n.value, ast.Dict):
            for k, v in zip(n.value.keys, n.value.values):
                if isinstance(k, ast.Constant) and isinstance(v, ast.Name):
                    registered[k.value] = v.id
    if not registered:
        raise RuntimeError("FILTERS table not found")
    variants = sorted(k for k, v in registered.items() if v in variant_fns)
    producers = sorted(k for k, v in registered.items() if v in producer_fns)
    return variants, producers, sorted(registered)


OBLIGATION = '''
Definition mem (s : string) (l : list string) : bool := existsb (String.eqb s) l.
Definition model_names : list (filt * string) :=
  [%s].
(* the model's classification of its filters is the source's: which carry @async_variant, which
   hand back an async generator in async mode; and every modelled filter is still registered *)
Lemma model_classification :
  forallb (fun p => Bool.eqb (has_async_variant (fst p)) (mem (snd p) gen_variants) &&
                    Bool.eqb (lazy_producer (fst p)) (mem (snd p) gen_producers) && mem (snd p) gen_registered) model_names = true.
Proof. vm_compute. reflexivity. Qed.
'''


# --------------------------------------------------------------------------- data
class AIterable:
    """a re-iterable async iterable producing the items of a list"""

    def __init__(self, items):
        self._items = list(items)

    def __aiter__(self):
        async def gen():
            for x in self._items:
                yield x
        return gen()


def make_data(wrapped, extra=None):
    def fn(x=1, *a, **k):
        return x * 2 if isinstance(x, int) else x

    def mk():
        return [4, 5]

    def geni():
        yield from [7, 8, 9]

    def stop():
        raise StopIteration

    from markupsafe import Markup
    import types

    class GetItemSeq:
        def __init__(self, items):
            self.items = list(items)

        def __getitem__(self, i):
            return self.items[i]

        def __len__(self):
            return len(self.items)

    def plaingen():
        return (x for x in (1, 2))

    def legacy(x=1):
        return x * 3

    def badlen(exc):
        class BadLen:
            def __iter__(self):
                return iter([1, 2])

            def __len__(self):
                raise exc("len")
        return BadLen()

    class BadBool:
        def __bool__(self):
            raise ArithmeticError("bool")

    class BadStr:
        def __str__(self):
            raise ValueError("str")

    class BadIter:
        def __iter__(self):
            raise LookupError("iter")

    d = {"badlen_ni": badlen(NotImplementedError), "badlen_ov": badlen(OverflowError), "badlen_neg": badlen(ValueError),
         "badbool": BadBool(), "badstr": BadStr(), "baditer": BadIter(), "gis": GetItemSeq([5, 0, 7]), "plaingen": plaingen, "legacy": legacy, "fls": [0.1] * 10, "flrecs": [{"v": 0.1}] * 10, "tup": (4, 5, 6), "pairs": [(1, "a"), (2, "b")], "dct": {"b": 2, "a": 1}, "mku": Markup("<b>m</b>"), "flt": 2.5, "tru": True,
         "geni": geni, "stop": stop, "seq": [3, 1, 2, 3], "recs": [{"n": 1, "a": "x"}, {"n": 2, "a": "y"}, {"n": 1, "a": "z"}], "empty": [],
         "words": ["b", "a"], "fn": fn, "mk": mk, "n": 5, "s": "str",
         "recs2": [{"n": 1, "a": "x"}, {"a": "Y"}, {"n": 1}, {"a": "y", "n": 2}]}
    if extra:
        for k, v in extra.items():
            d.setdefault(k, v)
    if wrapped:
        async def afn(x=1, *a, **k):
            await asyncio.sleep(0)
            return fn(x)

        async def amk():
            return AIterable([4, 5])

        async def ageni():
            for x in [7, 8, 9]:
                yield x

        async def astop():
            raise StopIteration

        @types.coroutine
        def alegacy(x=1):
            yield from asyncio.sleep(0).__await__()
            return x * 3

        d.update(legacy=alegacy, geni=ageni, stop=astop, fn=afn, mk=amk, seq=AIterable(d["seq"]), recs=AIterable(d["recs"]), empty=AIterable([]), words=AIterable(d["words"]),
                 recs2=AIterable(d["recs2"]), tup=AIterable(d["tup"]), pairs=AIterable(d["pairs"]),
                 fls=AIterable(d["fls"]), flrecs=AIterable(d["flrecs"]))
    return d


SNIPS = [
    "{{ fn(2) }}", "{{ fn(fn(1)) }}", "{% for x in seq %}{{ x }}{{ loop.index }}{{ loop.last }}{% endfor %}",
    "{% for x in mk() %}[{{ x }}]{% else %}E{% endfor %}", "{{ seq|sum }}", "{{ seq|list }}", "{{ seq|join(',') }}", "{{ seq|first }}",
    "{{ empty|first is undefined }}", "{{ seq|map('string')|join }}", "{{ seq|select('odd')|list }}", "{{ seq|reject('odd')|sum }}",
    "{{ recs|map(attribute='n')|sum }}", "{{ recs|selectattr('n', 'eq', 1)|map(attribute='a')|join }}",
    "{{ recs|rejectattr('n', 'eq', 1)|map(attribute='a')|list }}", "{{ recs|groupby('n')|map(attribute='grouper')|list }}",
    "{{ seq|unique|list }}", "{{ seq|slice(2)|list }}", "{% for x in seq if x is odd %}{{ x }}{{ loop.index }}{% endfor %}",
    "{% for x in seq %}{{ loop.length }}{{ loop.revindex }}{{ loop.nextitem }}{{ loop.previtem }}{% endfor %}",
    "{% for x in empty %}x{% else %}none{% endfor %}", "{% set v = fn(3) %}{{ v + 1 }}", "{{ fn(1) if fn(0) else fn(2) }}",
    "{% macro m(p) %}<{{ fn(p) }}{{ caller() if caller else '' }}>{% endmacro %}{{ m(2) }}{% call m(3) %}{{ fn(4) }}{% endcall %}",
    "{% include 'inc.html' %}", "{% import 'lib.html' as L %}{{ L.lm(2) }}", "{% from 'lib.html' import lm with context %}{{ lm(fn(1)) }}",
    "{% filter upper %}{{ words|join }}{{ fn('q') }}{% endfilter %}", "{% with w = fn(2) %}{{ w }}{% endwith %}",
    "{{ seq|map('string')|map('upper')|join('-') }}", "{{ words|map('upper')|list }}", "{{ seq|sum(start=fn(1)) }}",
    "{{ recs|sum(attribute='n') }}", "{{ recs|map(attribute='a')|join(',') }}", "{{ seq|select('gt', 1)|first }}",
    "{% for a in seq %}{% for b in words %}{{ a }}{{ b }}{{ loop.index }}{% endfor %}{% endfor %}", "{{ n + fn(n) }}{{ s ~ fn(s) }}",
    "{% for x in seq recursive %}{{ x }}{% if loop.first and loop.depth == 1 %}{{ loop(mk()) }}{% endif %}{% endfor %}",
    "{% block b %}{{ fn(1) }}{% endblock %}{{ self.b() }}", "{{ missing|default(fn(7)) }}", "{{ fn(1) is odd }}{{ fn(1) is even }}",
    # groupby with a default for items that lack the attribute (case-insensitive and case-sensitive branch)
    "{{ recs2|groupby('n', default=0)|map(attribute='grouper')|list }}", "{{ recs2|groupby('a', 'zz')|map('first')|list }}",
    "{% for g, items in recs2|groupby('a', default='Q', case_sensitive=true) %}{{ g }}:{{ items|length }};{% endfor %}",
    "{% for g in recs2|groupby('n', default=7) %}{{ g.grouper }}={{ g.list|map(attribute='a', default='-')|join }};{% endfor %}",
    # names that are not defined, iterated (StrictUndefined environments make these errors in both modes)
    "{% for x in nope %}x{% else %}E{% endfor %}", "{{ nope|list }}", "{{ nope|join(',') }}", "{{ nope|sum }}", "{{ nope|unique|list }}",
    "{{ nope|groupby('a')|list }}", "{{ nope|slice(2)|list }}", "{{ nope|first }}", "{{ nope|map('string')|list }}", "{{ nope|select|list }}",
    # import with context from inside a loop / with / macro: the imported template sees the local variables
    "{% for x in words %}{% import 'lib5.html' as L5 with context %}{{ L5.seen }}{{ L5.lv() }}{% endfor %}",
    "{% with x = fn(3) %}{% from 'lib5.html' import lv, seen with context %}{{ seen }}{{ lv() }}{% endwith %}",
    "{% macro im(x) %}{% import 'lib5.html' as L5 with context %}{{ L5.seen }}{% endmacro %}{{ im('M') }}{{ im(n) }}",
    # consumers that got async variants (sort / min / max / batch / reverse) on plain and async iterables
    "{{ seq|sort }}{{ seq|sort(reverse=true)|first }}", "{{ seq|max }}{{ seq|min }}{{ recs|max(attribute='n') is defined }}",
    "{{ seq|batch(3)|list }}{{ seq|batch(3, 0)|list|length }}", "{{ seq|reverse|list }}{{ words|reverse|first }}",
    "{{ recs|sort(attribute='a', reverse=true)|map(attribute='a')|join }}", "{{ seq|select('odd')|sort|batch(2)|list }}",
    # value kinds: tuple, dict, str, Markup, sync generator (fresh per render), range
    "{{ tup|list }}{{ tup|first }}{{ tup|sum }}{% for a, b in pairs %}{{ a }}{{ b }}{% endfor %}",
    "{% for k in dct %}{{ k }}{% endfor %}{{ dct|dictsort }}{{ dct|items|list }}{% for k, v in dct|items %}{{ k }}{{ v }}{% endfor %}",
    "{{ s|list }}{{ s|first }}{{ s|reverse }}{{ s|unique|join }}{% for c in s %}{{ c }}{{ loop.index }}{% endfor %}",
    "{{ mku }}{{ mku|upper }}{{ [mku, s]|join('<') }}{{ mku ~ '<' }}", "{{ range(4)|list }}{{ range(4)|sum }}{{ range(4)|batch(2)|list }}",
    "{{ flt + n }}{{ flt|round }}{{ (n / 2)|int }}{{ tru + 1 }}{{ tru and n }}{{ [tru, 1, 1.0]|unique|list }}",
    # extensions: do, loop controls (also inside a filtered loop), i18n
    "{% do fn(1) %}{% set acc2 = [] %}{% do acc2.append(fn(2)) %}{{ acc2 }}",
    "{% for x in seq %}{% if x == 2 %}{% break %}{% endif %}{{ x }}{% endfor %}",
    "{% for x in seq if x %}{% if x == 1 %}{% continue %}{% endif %}{{ x }}{{ loop.index }}{% endfor %}",
    "{% for x in seq if x is odd %}{{ x }}{% if loop.index == 2 %}{% break %}{% endif %}{% else %}E{% endfor %}",
    "{% trans v=fn(2) %}v is {{ v }}{% endtrans %}{% trans count=seq|list|length %}one{% pluralize %}{{ count }} many{% endtrans %}",
    # |list of a list is a copy (identity and independence)
    "{% set l = seq|list %}{{ l is sameas seq }}{{ l == (seq|list) }}", "{% set l = words|list %}{{ l.pop() }}{{ words|list|length }}",
    # loops over iterables without len(): look-ahead before the length is asked for
    "{% for x in seq if x %}{{ loop.last }}{{ loop.length }}{{ x }}{% endfor %}",
    "{% for x in seq|map('string') %}{{ loop.nextitem }}{{ loop.revindex }}{{ x }};{% endfor %}",
    "{% for x in geni() %}{{ loop.last }}{{ x }}{{ loop.revindex0 }}{{ loop.length }}{% endfor %}",
    "{% for x in geni() %}{{ loop.length }}{{ loop.nextitem }}{{ x }}{% endfor %}",
    # len() of the loop object (recorded finding C09-F9), StopIteration out of a data callable (C09-F10)
    "{% for x in seq %}{{ loop|length }}{% endfor %}", "{% for x in seq recursive %}{{ loop|length }}{{ x }}{{ loop.length }}{% endfor %}", "{% for x in seq if x %}{{ loop|length }}{{ x }}{% endfor %}",
    "{% for x in mk() %}{{ loop|length }}{{ loop.length }}{% endfor %}", "[{{ stop() }}]{{ stop() is undefined }}",
    # a named lazy filter result consumed more than once (first must not finalise it)
    "{% set m = seq|map('string') %}{{ m|first }}{{ m|list }}", "{% set m = seq|select('odd') %}{{ m|first }}[{{ m|join(',') }}]{{ m|list }}",
    "{% set m = words|map('upper') %}{% for x in m %}{{ x }}{% break %}{% endfor %}{{ m|list }}",
    # an iterable through the sequence protocol only (__getitem__ / __len__), as loop source and filter input
    "{% for x in gis %}{{ x }}{{ loop.index }}{% endfor %}{{ gis|list }}{{ gis|first }}{{ gis|join('+') }}{{ gis|sum }}",
    "{{ gis|map('string')|list }}{{ gis|select('odd')|list }}{% for x in gis if x %}{{ x }}{% endfor %}{{ gis|sort }}{{ gis|length }}",
    # callables returning a plain generator / a generator-based coroutine (types.coroutine)
    "{% for x in plaingen() %}{{ x }}{% endfor %}{{ legacy(3) }}{{ legacy(fn(1)) + 1 }}", "{{ legacy(1) }}{% for x in plaingen() %}{{ legacy(x) }}{% endfor %}",
    # iterables whose __len__ raises something other than TypeError (a lazy result set, a huge range, a negative length),
    # whose __bool__ raises, whose __iter__ raises - with loop.length / revindex / loop|length and plain iteration
    "{% for x in badlen_ni %}{{ x }}{{ loop.length }}{% endfor %}", "{% for x in badlen_ov %}{{ loop.revindex }}{{ x }}{% endfor %}",
    "{% for x in badlen_neg %}{{ loop|length }}{{ x }}{% endfor %}", "{% for x in badlen_ni %}{{ x }}{{ loop.index }}{{ loop.last }}{% endfor %}",
    "{{ badlen_ov|length }}", "{% if badbool %}T{% endif %}", "{{ badbool|default('d', true) }}", "{% for x in baditer %}{{ x }}{% endfor %}", "{{ baditer|list }}{{ baditer|first }}",
    "{% for x in range(10 ** 30) %}{{ loop.length if loop.first else '' }}{% if loop.index > 2 %}{% break %}{% endif %}{% endfor %}",
    # a macro's value used inside an expression (native environments hand back Python values)
    "{% macro pick(xs) %}{{ xs }}{% endmacro %}{{ pick([1, 2, 3])|length }}{{ pick(seq|list) }}{{ pick(n) + 1 if pick(n) is number else pick(n) ~ 'x' }}",
    "{% macro two() %}{{ n }}{{ n }}{% endmacro %}{{ two()|int + 1 }}{{ two()|length }}{% call two() %}{% endcall %}",
    # float accumulation (the builtin sum compensates on 3.12: both modes must use it)
    "{{ fls|sum }}{{ fls|sum(start=1) }}{{ flrecs|sum(attribute='v') }}",
    # str start value of sum (recorded finding C09-F8)
    "{{ words|sum(start='') }}",
    "{{ (seq|list)[0] }}{{ seq|list|length }}", "{{ seq|list|sort|join }}", "{{ words|list|reverse|join }}",
]
AUX = {"inc.html": "[{{ fn(5) }}{% for x in seq %}{{ x }}{% endfor %}]",
       "lib.html": "{% macro lm(p) %}({{ p }}{{ gfn(p) }}){% endmacro %}",
       "pbase.html": "P{% block b %}<b>{{ s }}&</b>{% endblock %}|{% block c %}pc{% endblock %}E",
       "lib5.html": "{% macro lv() %}<{{ x }}>{% endmacro %}{% set seen = x|default('none') %}"}

# async-only failures outside the chain model: one known finding per consumer
PROBES = [
    ("{{ 2 in seq|map('abs') }}", "async generator fed to operator in"),
    ("{{ seq|map('abs') is iterable }}", "async generator fed to test iterable"),
    ("{% set a, b = [1, 2]|map('abs') %}{{ a }}{{ b }}", "async generator fed to unpacking"),
    ("{{ dict([(1, 2)]|map('list')) }}", "async generator fed to dict()"),
]


# async-iterable DATA (not an engine generator) fed to consumers that have no async support: sync renders a value
# from the list, async raises - one recorded finding per consumer; (template, signature)
# oracle regression templates: every environment class x autoescape off / on
ORACLE_FIXED = [
    # two independent faults in one template, one raised when a printed value is turned into text, the other while an
    # expression is evaluated, in both orders: every mode must report the same (first) one
    "{{ badstr }}|{{ baditer|list }}{{ baditer|first }}", "{{ baditer|first }}|{{ badstr }}", "{{ fn(1) }}{{ badstr }}{% for x in baditer %}{{ x }}{% endfor %}",
    "{% for x in seq %}{{ loop.previtem.zz }}{% endfor %}|{{ baditer|list }}",
    # inheritance: super() / self.block() used in Markup-sensitive ways, under block-level autoescape changes
    "{% extends 'pbase.html' %}{% block b %}{% autoescape false %}{{ super() ~ '<c>' }}{{ self.c() ~ '<d>' }}{% endautoescape %}"
    "{% autoescape true %}{{ super() ~ '<e>' }}{{ self.c()|e }}{{ '{}<f>'.format(super()) }}{% endautoescape %}{{ super() ~ '<g>' }}{{ super()|urlize }}{% endblock %}"
    "{% block c %}<i>{{ s }}</i>{% endblock %}",
    "{% macro pick(xs) %}{{ xs }}{% endmacro %}{{ pick([1, 2, 3])|length }}|{% macro num(x) %}{{ x }}{% endmacro %}{{ num(41) + 1 if num(41) is number else num(41) ~ 'x' }}"
    "|{% if num(0) %}yes{% else %}no{% endif %}",
    "{% macro mm(p) %}<{{ fn(p) }}>{% endmacro %}{{ mm(2) }}{% call mm(3) %}c{% endcall %}{{ mm(1)|length }}{{ [mm(1), '<']|join }}",
    "{% for x in seq if x %}{{ loop.length }}{{ x }}{% if x == 2 %}{% break %}{% endif %}{% endfor %}|{{ seq|sort|first }}{{ seq|max }}{{ seq|batch(2)|list }}",
]

# plain data in both modes; (template, signature)
PLAIN_PROBES = [
    ("{{ badlen_ni|list }}", "raising __len__ consulted by list() in sync mode only"),
]
WRAPPED_PROBES = [
    ("{{ seq|last }}", "async iterable data fed to last"),
    ("{{ seq|length }}", "async iterable data fed to length"),
    ("{{ 2 in seq }}", "async iterable data fed to operator in"),
    ("{{ fn(*tup) }}", "async iterable data fed to star-args"),
    ("{% set a, b, c = tup %}{{ a }}{{ c }}", "async iterable data fed to unpacking"),
]


def gen_snip_template(rng):
    return "|".join(rng.choice(SNIPS) for _ in range(rng.randint(1, 4)))


# --------------------------------------------------------------------------- engine driving
def env_classes(jinja2):
    from jinja2.nativetypes import NativeEnvironment
    from jinja2.sandbox import ImmutableSandboxedEnvironment, SandboxedEnvironment
    return [("Environment", jinja2.Environment), ("SandboxedEnvironment", SandboxedEnvironment),
            ("ImmutableSandboxedEnvironment", ImmutableSandboxedEnvironment), ("NativeEnvironment", NativeEnvironment)]


UNDEFINED = [None]
AUTOESCAPE = [False]


def make_env(jinja2, cls, templates, is_async):
    loader = jinja2.FunctionLoader(lambda n: (templates[n], n, lambda: True) if n in templates else None)
    kw = {"undefined": UNDEFINED[0]} if UNDEFINED[0] is not None else {}
    env = cls(loader=loader, enable_async=is_async, autoescape=AUTOESCAPE[0],
              extensions=["jinja2.ext.do", "jinja2.ext.loopcontrols", "jinja2.ext.i18n"], **kw)
    env.install_null_translations()

    def gfn(x=1):
        return x * 2 if isinstance(x, int) else x
    env.globals["gfn"] = gfn
    return env


def canon(v):
    return "ok:" + (v if isinstance(v, str) else "native:" + repr(v))


NEVER_AWAITED = []


def run_entry(env, loop, name, data, entry):
    try:
        with warnings.catch_warnings(record=True) as wl:
            warnings.simplefilter("always")
            try:
                return _run_entry(env, loop, name, data, entry)
            finally:
                import gc
                if any("never awaited" in str(w.message) for w in wl) or (gc.collect() and any("never awaited" in str(w.message) for w in wl)):
                    NEVER_AWAITED.append((name, entry, [str(w.message) for w in wl if "never awaited" in str(w.message)][:2]))
    except Exception as e:  # noqa
        return "exc:" + type(e).__name__


def _run_entry(env, loop, name, data, entry):
    try:
        if True:
            t = env.get_template(name)
            native = type(env).__name__ == "NativeEnvironment"
            if entry == "render":
                return canon(t.render(**data))
            if entry == "generate":
                out = list(t.generate(**data))
                return "ok:" + "".join(map(str, out))
            if entry == "render_async":
                return canon(loop.run_until_complete(t.render_async(**data)))
            if entry == "generate_async":
                async def collect():
                    return [x async for x in t.generate_async(**data)]
                out = loop.run_until_complete(collect())
                return "ok:" + "".join(map(str, out))
    except Exception as e:  # noqa
        return "exc:" + type(e).__name__
    return "?"


def culprit_consumer(src):
    """python mirror used only for signatures: the consumer without async variant that meets an async generator"""
    import re
    m = re.search(r"\|(?:map|select|reject|selectattr|rejectattr)\([^)]*\)\|(\w+)", src)
    return m.group(1) if m else None


def run(ctx):
    jinja2 = lib.use_repo_jinja()
    ctx.extra["rule"] = RULE
    ctx.assumptions += [
        "event-loop scheduling is not modelled (C36 / C37 cover closing and interference)",
        "the target language of await_erasure is a fragment (numbers, iterables of numbers, calls, sums over loops); the "
        "real generated code is tied by K-gen (erasure of the real async code equals the real sync code)",
        "templates whose sync code constant-folds an async-variant filter differ by constant folding only (C08) and are "
        "excluded from K-gen, still rendered by the oracle",
    ]
    ctx.proof("C09")
    src_dir = os.path.join(lib.SRC, "jinja2")

    # ---------------- T
    try:
        variants, producers, registered = variant_table(src_dir)
        def lst(xs):
            return "[" + "; ".join('"%s"%%string' % x for x in xs) + "]"
        v = ("From Coq Require Import List Bool String.\nImport ListNotations.\nFrom JV Require Import Model.Asy.\n"
             f"Definition gen_variants : list string := {lst(variants)}.\nDefinition gen_producers : list string := {lst(producers)}.\n"
             f"Definition gen_registered : list string := {lst(registered)}.\n"
             + OBLIGATION % "; ".join(f'({a}, "{b}"%string)' for a, b in MODEL_NAMES))
        ctx.coq_obligation("Gen_variants", v, n_obligations=1)
        ctx.extra["async_variant_filters"] = variants
        ctx.extra["async_generator_producers"] = producers
    except Exception as e:  # noqa: fail-closed
        ctx.obligations += 1
        ctx.broken.append("async-variant table: " + str(e)[:200])
        variants = sorted(HAS_VARIANT)

    # ---------------- T5: the current source of auto_await / auto_aiter / auto_to_list / __anext__, as terms of
    # Lib/PyAsyExn, equals the model functions (the Await and auto_aiter steps of Asy.eval) for every input
    import sys as _sys
    _sys.path.insert(0, os.path.join(lib.ROOT, "gen"))
    import exn_translate
    try:
        ok5, out5 = ctx.coq_obligation("Gen_asyutils", exn_translate.emit_a(lib.SRC), n_obligations=4)
        if ok5:
            ctx.trusted.append("Gen_asyutils (source = model equations): " + " ".join(out5.split()))
    except exn_translate.Untranslatable as e:
        ctx.obligations += 4
        ctx.broken.append(f"translator gen/exn_translate.py: async_utils left the translatable vocabulary: {e}")

    loop = asyncio.new_event_loop()
    try:
        k_gen(ctx, jinja2, set(variants))
        k_rt_chains(ctx, jinja2, loop)
        oracle(ctx, jinja2, loop)
    finally:
        loop.close()
    if ctx.mismatches:
        ctx.extra["mismatch_samples"] = [m[1] for m in ctx.mismatches[:12]]


# --------------------------------------------------------------------------- K-gen
def k_gen(ctx, jinja2, variants):
    n = ctx.size(1500, 12000)
    done = skipped = 0
    i = 0
    while done < n and i < 20 * n:
        i += 1
        if i % 3 == 0:
            ts = c36.G36(ctx.rng).template_set()
        elif i % 3 == 1:
            ts, _ = TGen(ctx.rng, depth=3).template_set()
        else:
            ts = dict(AUX)
            ts["main.html"] = gen_snip_template(ctx.rng)
        kcls = env_classes(jinja2)[(i // 3) % 4][1]
        exts = ["jinja2.ext.do", "jinja2.ext.loopcontrols", "jinja2.ext.i18n"]
        es = kcls(loader=jinja2.DictLoader(ts), extensions=exts, autoescape=(i % 5 == 0))
        ea = kcls(loader=jinja2.DictLoader(ts), extensions=exts, autoescape=(i % 5 == 0), enable_async=True)
        ctx.count("kgen_" + kcls.__name__)
        for name, src in ts.items():
            try:
                s = es.compile(src, name, name, raw=True)
            except Exception as e1:  # noqa
                try:
                    ea.compile(src, name, name, raw=True)
                    ctx.reject({"template": src, "kgen": True}, "compiles in async mode but not in sync mode", "compile parity")
                except Exception as e2:  # noqa
                    if type(e1) is not type(e2):
                        ctx.reject({"template": src, "kgen": True}, "compile error class differs between modes", "compile parity")
                continue
            try:
                a = ea.compile(src, name, name, raw=True)
            except Exception:  # noqa
                ctx.reject({"template": src, "kgen": True}, "compiles in sync mode but not in async mode", "compile parity")
                continue
            if ER.folds_async_filter(es, src, variants):
                skipped += 1
                ctx.count("kgen_constant_folding_divergence")
                continue
            done += 1
            d = ER.parity(s, a)
            ctx.case(sample={"kgen": src[:160]} if done % 400 == 1 else None, key=("kgen", src) if ("for" in src or "block" in src or "(" in src) else None)
            ctx.count("kgen_programs")
            if d:
                ctx.model_mismatch("K-gen: erase(real async code) = real sync code", {"template": src, "difference": d}, "equal", d, None)
            else:
                ctx.validated()


# --------------------------------------------------------------------------- K-rt
def chains():
    out = []
    for n in range(0, 3):
        for mid in itertools.product(MIDDLE, repeat=n):
            out.append(list(mid))
            for f in FINAL:
                out.append(list(mid) + [f])
    return [c for c in out if c and len(c) <= 3]


def k_rt_chains(ctx, jinja2, loop):
    inputs = [[3, -1, 2], [], [2, 2, -3, 5], [1], [-4, 7, 7, 0]]
    es = jinja2.Environment()
    ea = jinja2.Environment(enable_async=True)
    cases = []
    for c in chains():
        for xs in inputs:
            for mode in "sa":
                cases.append((mode, c, xs))
    lines = []
    for mode, c, xs in cases:
        model_chain = list(c)
        if c[-1] in MIDDLE:
            model_chain.append("list")
        lines.append(f"{mode}|{','.join(model_chain)}|{' '.join(map(str, xs))}")
    preds = ctx.driver("asy", lines)
    real = {}
    for (mode, c, xs), pred in zip(cases, preds):
        m, guard = pred.split(" guard=")
        tpl_chain = [TPL[f] for f in c]
        if c[-1] in MIDDLE or c[-1] in ("batch1", "slice1"):
            tpl_chain.append("list")
        src = "{{ x|" + "|".join(tpl_chain) + " }}"
        env = es if mode == "s" else ea
        try:
            with warnings.catch_warnings():
                warnings.simplefilter("ignore")
                out = env.from_string(src).render(x=list(xs))
        except Exception as e:  # noqa
            out = "ERR"
        expect = m
        if m == "undefined":
            expect = ""
        elif c[-1] == "join" and m.startswith("["):
            expect = ",".join(x.strip() for x in m[1:-1].split(",") if x.strip())
        real[(mode, tuple(c), tuple(xs))] = out
        case = {"chain": c, "input": xs, "mode": mode, "template": src}
        ctx.case(key=("chain", mode, tuple(c), tuple(xs)) if len(c) >= 2 else None,
                 sample=dict(case, engine=out, model=m) if len(c) == 3 and len(ctx.samples) < 5 else None)
        ctx.count("krt_chain_" + ("err" if out == "ERR" else "ok"))
        if out != expect:
            ctx.model_mismatch("K-rt filter chains (Asy.run_chain vs engine)", dict(case, engine=out, model=m), expect, out, None)
        else:
            ctx.validated()
    # the property itself on the chains: async output = sync output, else a finding per consumer
    for (mode, c, xs), out in list(real.items()):
        if mode != "a":
            continue
        s_out = real[("s", c, xs)]
        if out != s_out:
            cons = next((f for i, f in enumerate(c) if i > 0 and f not in HAS_VARIANT and c[i - 1] in LAZY), c[-1])
            name = dict((b.lower()[1:], n) for b, n in []) or cons.rstrip("1")
            ctx.reject({"chain": list(c), "input": list(xs), "sync": s_out, "async": out, "template": "{{ x|" + "|".join(TPL[f] for f in c) + " }}"},
                       f"filter chain renders differently in async mode: sync {s_out!r}, async {out!r}",
                       f"async generator fed to {name}")


# --------------------------------------------------------------------------- O
def oracle(ctx, jinja2, loop):
    classes = env_classes(jinja2)
    n = ctx.size(450, 4000)
    UNDEFINED[0] = None
    AUTOESCAPE[0] = False
    for (src, sig) in PROBES:
        ts = {"main.html": src}
        s = run_entry(make_env(jinja2, jinja2.Environment, ts, False), loop, "main.html", make_data(False), "render")
        a = run_entry(make_env(jinja2, jinja2.Environment, ts, True), loop, "main.html", make_data(False), "render")
        ctx.case(key=("probe", src))
        if s != a:
            ctx.reject({"templates": ts, "env": "Environment", "entry": "render", "wrapped": False, "sync": s, "async": a},
                       f"async mode differs: sync {s!r}, async {a!r}", sig)
        else:
            ctx.validated()
    for (src, sig) in PLAIN_PROBES:
        ts = {"main.html": src}
        s_out = run_entry(make_env(jinja2, jinja2.Environment, ts, False), loop, "main.html", make_data(False), "render")
        a_out = run_entry(make_env(jinja2, jinja2.Environment, ts, True), loop, "main.html", make_data(False), "render_async")
        ctx.case(key=("plain-probe", src))
        if s_out != a_out:
            ctx.reject({"templates": ts, "env": "Environment", "entry": "render_async", "mode": "async", "wrapped": False, "expected": s_out, "got": a_out},
                       f"async mode differs: sync {s_out!r}, async {a_out!r}", sig)
        else:
            ctx.validated()
    for (src, sig) in WRAPPED_PROBES:
        ts = {"main.html": src}
        s_out = run_entry(make_env(jinja2, jinja2.Environment, ts, False), loop, "main.html", make_data(False), "render")
        a_out = run_entry(make_env(jinja2, jinja2.Environment, ts, True), loop, "main.html", make_data(True), "render_async")
        ctx.case(key=("wrapped-probe", src))
        if s_out != a_out:
            ctx.reject({"templates": ts, "env": "Environment", "entry": "render_async", "mode": "async", "wrapped": True, "expected": s_out, "got": a_out},
                       f"async mode with async-iterable data differs: sync {s_out!r}, async {a_out!r}", sig)
        else:
            ctx.validated()
    # regression templates first: each in every environment class, with autoescape off and on
    selector = lambda name: name is not None and not name.startswith("main")      # on for the parents, off for main.html
    fixed_jobs = [(src, ci, ae) for src in ORACLE_FIXED for ci in range(4) for ae in (False, True, selector)]
    for j in range(-len(fixed_jobs), n):
        i = max(j, 0)
        extra = None
        if j < 0:
            src, ci, ae = fixed_jobs[j + len(fixed_jobs)]
            ts = dict(AUX)
            ts["main.html"] = src
            i = 1                               # (wrapped data runs too)
        elif i % 3 == 0:
            g = TGen(ctx.rng, depth=3)
            ts, main = g.template_set()
            extra = g.data()
        else:
            ts = dict(AUX)
            ts["main.html"] = gen_snip_template(ctx.rng)
        cname, cls = classes[i % 4] if i % 5 else classes[0]
        uname = ["Undefined", "StrictUndefined", "ChainableUndefined", "DebugUndefined"][(i // 4) % 4] if i % 3 else "Undefined"
        UNDEFINED[0] = getattr(jinja2, uname)
        AUTOESCAPE[0] = (i % 7 == 3) or (cname == "NativeEnvironment" and (i // 4) % 2 == 0)
        if j < 0:
            cname, cls = classes[ci]
            uname = "Undefined"
            UNDEFINED[0] = None
            AUTOESCAPE[0] = ae
        ref = run_entry(make_env(jinja2, cls, ts, False), loop, "main.html", make_data(False, extra), "render")
        runs = [("sync", "generate", False)]
        runs += [("async", e, False) for e in ("render", "render_async", "generate", "generate_async")]
        if i % 3 != 0:
            runs += [("async", e, True) for e in ("render_async", "generate_async")]
        nontriv = ref.startswith("ok:") and len(ref) > 3
        for mode, entry, wrapped in runs:
            env = make_env(jinja2, cls, ts, mode == "async")
            out = run_entry(env, loop, "main.html", make_data(wrapped, extra), entry)
            expect = ref
            if cname == "NativeEnvironment" and entry.startswith("generate"):
                # generate() of a native template yields native chunks: compared between the two modes only
                expect = run_entry(make_env(jinja2, cls, ts, False), loop, "main.html", make_data(False, extra), "generate")
            ctx.case(sample={"template": ts["main.html"][:200], "env": cname, "entry": entry, "wrapped": wrapped, "out": out[:80]}
                     if nontriv and ctx.evaluations % 577 == 0 else None,
                     key=(ts["main.html"], cname, uname, str(AUTOESCAPE[0])[:10], wrapped) if nontriv else None)
            ctx.count(f"o_{mode}_{entry}{'_wrapped' if wrapped else ''}")
            if NEVER_AWAITED:
                w = NEVER_AWAITED.pop()
                NEVER_AWAITED.clear()
                ctx.reject({"templates": ts, "env": cname, "undefined": uname, "autoescape": AUTOESCAPE[0] if isinstance(AUTOESCAPE[0], bool) else "selector", "entry": entry, "mode": mode,
                            "wrapped": wrapped, "warning": w[2], "tgen_data": repr(extra) if extra else None},
                           f"a coroutine was created and never awaited ({w[2]})", "coroutine never awaited: " + (w[2][0].split("'")[1] if "'" in w[2][0] else "?"))
            if out != expect:
                cons = culprit_consumer(ts["main.html"])
                sig = "StopIteration from a coroutine callable" if ("stop()" in ts["main.html"] and wrapped and out == "exc:RuntimeError") else \
                    "len() of the loop object in async mode" if ("loop|length" in ts["main.html"] and out == "exc:TypeError") else \
                    "sum with str start" if ("sum(start=''" in ts["main.html"] and expect == "exc:TypeError") else \
                    f"async generator fed to {cons}" if (cons and expect.startswith("ok:") and out in ("exc:TypeError", "exc:FilterArgumentError")) else \
                    f"async differs: {cname} {entry}{' wrapped data' if wrapped else ''}"
                ctx.reject({"templates": ts, "env": cname, "undefined": uname, "autoescape": AUTOESCAPE[0] if isinstance(AUTOESCAPE[0], bool) else "selector", "entry": entry, "mode": mode, "wrapped": wrapped, "expected": expect[:300],
                            "got": out[:300], "tgen_data": repr(extra) if extra else None},
                           f"{mode} {entry} on {cname}{' with async-wrapped data' if wrapped else ''} gives {out[:80]!r}, "
                           f"sync render gives {expect[:80]!r}", sig)
            else:
                ctx.validated()


def replay(ctx, data):
    jinja2 = lib.use_repo_jinja()
    case = data.get("case")
    if data.get("kind") != "failing-input" or case is None:
        print("replay: names a broken theorem / obligation / correspondence:", data.get("broken"))
        return run(ctx)
    loop = asyncio.new_event_loop()
    try:
        if "chain" in case:
            src = case["template"] if case["template"].endswith("}}") else case["template"]
            outs = {}
            for mode, is_async in (("sync", False), ("async", True)):
                try:
                    outs[mode] = jinja2.Environment(enable_async=is_async).from_string(src).render(x=list(case["input"]))
                except Exception as e:  # noqa
                    outs[mode] = "ERR:" + type(e).__name__
            print(src, outs)
            if outs["sync"] != outs["async"]:
                ctx.reject(case, "filter chain renders differently in async mode", data.get("signature"))
            return
        if case.get("kgen"):
            print("compile parity case:", case["template"][:200])
            return run(ctx)
        cls = dict(env_classes(jinja2))[case["env"]]
        UNDEFINED[0] = getattr(jinja2, case.get("undefined", "Undefined"))
        AUTOESCAPE[0] = case.get("autoescape", False)
        if AUTOESCAPE[0] == "selector":
            AUTOESCAPE[0] = lambda name: name is not None and not name.startswith("main")
        extra = eval(case["tgen_data"]) if case.get("tgen_data") else None  # noqa: written by this harness
        ts = case["templates"]
        ref = run_entry(make_env(jinja2, cls, ts, False), loop, "main.html", make_data(False, extra), "render")
        out = run_entry(make_env(jinja2, cls, ts, case.get("mode", "async") == "async"), loop, "main.html",
                        make_data(case.get("wrapped", False), extra), case["entry"])
        print("sync render:", ref[:200], "\n" + case.get("mode", "async"), case["entry"] + ":", out[:200])
        if out != ref and not (case["env"] == "NativeEnvironment" and case["entry"].startswith("generate")):
            ctx.reject(case, "async mode differs from sync mode", data.get("signature"))
    finally:
        loop.close()
