"""C14 — template literals denote the same values as Python literals.

proof : Properties/C14.v (int_token_value, float_token_python, number_token_unique,
        string_roundtrip, adjacent_concat)
tie   : T5    gen/lit_translate.py turns the current source of lexer.wrap's TOKEN_STRING / TOKEN_INTEGER /
        TOKEN_FLOAT branches into terms of Lib/LitPy; build/C14/Gen_lit.v proves  interpreted branch = model
        conversion  for every token text (and pins _normalize_newlines, newline_re, the tag rule order);
        K-lex  extracted Lit.lex_number / jinja_int / convert / lex_string / parse_strings against
        the REAL lexer (Lexer.tokeniter raw tokens + Lexer.wrap conversion, compile_expression):
        every spelling up to length L over [0-9_.eExXoObB+-] (first number token: kind, length;
        value when the spelling is one token), the same after a dot (look-behind), big integers
        to 4000+ digits, random floats, strings over all code-point classes in four spelling
        styles and two quote characters, escape soups incl. malformed escapes, raw line breaks
        under two newline_sequence settings, adjacent strings.
oracle: whenever the real lexer reads a spelling as ONE number token its value must be the value
        Python assigns (ast.parse of the spelling is a Constant of the same type and value);
        a value written in any style must come back unchanged; Python-made spellings
        (repr / ascii) must denote what ast.literal_eval says.  The extracted spec (py_int /
        py_float_ok) is itself cross-checked against Python's parser on every spelling.
"""
import ast
import itertools
import sys
import warnings

from . import lib

ALPHABET = "0123456789_.eExXoObB+-"
RULE = ("numbers: every spelling of length 1..L over [0-9_.eExXoObB+-] (L=4 quick with digits 0,1,7,9 at length 4; 5 thorough, all digits), lexed inside "
        "`{{ s }}` and, for L-1, after `x.`; every spelling starting with a digit over [01_.e] up to length 7 (9 thorough); "
        " distinct = the spelling (+ context); non-trivial = the real lexer's first "
        "token is an integer or float token. Plus random integers (all four bases, random underscores, up to 4400 "
        "digits), random floats (repr, exponent and underscore variants), spellings with non-ASCII decimal digits. "
        "strings: code-point lists of length 0..8 drawn from 12 classes (printable, quotes, backslash, C0 controls, "
        "CR, LF, DEL, Latin-1, BMP, surrogates, astral, boundaries, escape-significant letters and digits) written in "
        "4 styles x 2 quotes by the extracted encoder, plus repr()/ascii() spellings, escape soups (well- and "
        "malformed), raw line breaks with newline_sequence in {LF, CRLF}, adjacent literals, groups of 2-4 literals of "
        "equal value and different type in one template (list / call arguments / set); non-trivial = body "
        "contains a backslash or a non-ASCII / control character.")


def cps(s):
    return "-" if len(s) == 0 else ",".join(str(ord(ch)) for ch in s)


def uncps(t):
    return "" if t == "-" else "".join(chr(int(x)) for x in t.split(","))


import re as _re
_DG = r"[0-9](?:_?[0-9])*"
DOCUMENTED_NUMBER = _re.compile(
    rf"(?:{_DG}(?:\.{_DG})?(?:[eE][+-]?{_DG})?|0[bB](?:_?[01])+|0[oO](?:_?[0-7])+|0[xX](?:_?[0-9a-fA-F])+)")


def py_literal(s):
    """Python's own reading of the spelling as ONE numeric literal -> ('int', v) | ('float', v) | None"""
    try:
        with warnings.catch_warnings():
            warnings.simplefilter("ignore")
            node = ast.parse(s, mode="eval").body
    except (SyntaxError, ValueError, MemoryError, RecursionError):
        return None
    if isinstance(node, ast.Constant) and type(node.value) in (int, float):
        # ast.parse strips surrounding blanks only; the alphabet has none
        return ("int" if type(node.value) is int else "float", node.value)
    return None


class Real:
    def __init__(self, jinja2):
        self.jinja2 = jinja2
        self.env = jinja2.Environment()
        self.env_crlf = jinja2.Environment(newline_sequence="\r\n")
        self.TSE = jinja2.TemplateSyntaxError

    def first_token(self, prefix, s, env=None):
        """raw first token after the prefix -> (kind, rawlen, value-or-'ERR'-or-None)"""
        env = env or self.env
        lx = env.lexer
        src = "{{ " + prefix + s + " }}"
        skip = 1 + (2 if prefix else 0)  # variable_begin (+ name, dot)
        try:
            raw = [t for t in lx.tokeniter(src, None) if t[1] != "whitespace"]
        except self.TSE:
            raw = None
        except Exception as e:  # noqa
            return ("X:" + type(e).__name__, 0, None, False)
        if raw is None:
            # an error later in the source: re-lex the head only (tokeniter is a generator)
            raw = []
            try:
                for t in lx.tokeniter(src, None):
                    if t[1] != "whitespace":
                        raw.append(t)
            except self.TSE:
                pass
            complete = False
        else:
            complete = True
        if len(raw) <= skip:
            return ("none", 0, None, False)
        tok = raw[skip]
        if tok[1] not in ("integer", "float", "string"):
            return ("none", 0, None, False)
        whole = complete and len(raw) == skip + 2 and raw[-1][1] == "variable_end" and tok[2] == s
        try:
            val = next(lx.wrap(iter([tok]))).value
        except self.TSE:
            val = "ERR"
        except Exception as e:  # noqa
            val = "X:" + type(e).__name__
        return (tok[1], len(tok[2]), val, whole)

    def value(self, lit, env=None):
        """value of the literal expression: the Const node the parser builds (every 8th call
        also compiles and evaluates the expression and insists on the same value)"""
        env = env or self.env
        self.n = getattr(self, "n", 0) + 1
        try:
            node = env.parse("{{ " + lit + " }}").body[0].nodes[0]
            if type(node).__name__ == "Const" and self.n % 8:
                return ("ok", node.value)
            v = env.compile_expression(lit, undefined_to_none=False)()
            if type(node).__name__ == "Const" and (type(v) is not type(node.value) or v != node.value):
                return ("X", f"compiled value {v!r} differs from parsed constant {node.value!r}")
            return ("ok", v)
        except self.TSE as e:
            return ("err", str(e).split("\n")[0])
        except Exception as e:  # noqa
            return ("X", type(e).__name__ + ": " + str(e)[:80])


def hexv(v):
    return format(v, "x")


# ------------------------------------------------------------------------------ numbers
def check_numbers(ctx, R, spellings, prefix, limit):
    prev = "46" if prefix else "32"
    lines = [f"N {limit} {prev} {cps(s)}" for s in spellings]
    out = ctx.driver("lit", lines)
    for s, ln in zip(spellings, out):
        head, pyint, pyfloat = ln.rsplit(" ", 2)
        mkind, mlen, mval = head.split(" ")
        mlen = int(mlen)
        kind, rlen, val, whole = R.first_token(prefix, s)
        case = {"spelling": s, "context": "after-dot" if prefix else "plain"}
        nontriv = kind in ("integer", "float")
        ctx.case(sample=dict(case, real=[kind, rlen, repr(val)], model=head) if (nontriv and hash(s) % 5003 == 0) else None,
                 key=(prefix, s) if nontriv else None)
        ctx.count("num/" + ("after-dot/" if prefix else "") + (kind if nontriv else "no-number"))
        # --- the spec is kept honest: extracted py_int / py_float_ok vs Python's parser
        if not prefix:
            pl = py_literal(s)
            spec_says = ("int", pyint.split("=")[1]) if pyint != "pyint=none" else (("float", None) if pyfloat == "pyfloat=1" else None)
            py_says = None if pl is None else (("int", hexv(pl[1])) if pl[0] == "int" else ("float", None))
            over = limit and s[1:2] not in tuple('bBoOxX') and sum(ch.isdigit() for ch in s) > limit     # CPython's parser refuses overlong decimal literals
            if spec_says != py_says and not over:
                ctx.model_mismatch("S-honesty: Spec.LitSpec vs CPython's parser", case, str(spec_says), str(py_says), None)
        # --- oracle: one number token => Python's value
        why = None
        if whole and nontriv and val != "ERR" and not (isinstance(val, str) and val.startswith("X:")):
            pl = py_literal(s)
            if pl is None:
                why = f"the lexer reads {s!r} as one {kind} token with value {val!r} but it is not a Python literal"
            elif (pl[0] == "int") != (kind == "integer") or type(pl[1]) is not type(val) or \
                    (pl[1] != val if kind == "integer" else float.hex(pl[1]) != float.hex(val)):
                why = f"the lexer reads {s!r} as {val!r}, Python as {pl[1]!r}"
        # the other direction (first sentence of the property): a Python number literal written in the documented
        # template syntax -- digit groups separated by single underscores, a point with digits on both sides, an
        # exponent; 0b / 0o / 0x integers -- must be read as ONE number with Python's value
        if not prefix and why is None and DOCUMENTED_NUMBER.fullmatch(s):
            pl = py_literal(s)
            over = limit and s[1:2] not in tuple("bBoOxX") and sum(ch.isdigit() for ch in s) > limit
            if pl is not None and not over and not (whole and nontriv and val != "ERR"):
                why = f"{s!r} is the Python literal {pl[1]!r} in the documented template syntax but the lexer does not read it as one number (first token {kind} of length {rlen})"
        if isinstance(val, str) and val.startswith("X:"):
            why = f"number conversion of {s!r} raised {val[2:]} (not a TemplateSyntaxError)"
        if why:
            ctx.reject(case, why, f"C14:number:{s}")
        # --- K-lex: model vs real
        rk = {"integer": "int", "float": "float"}.get(kind, "none")
        if rk == "int":
            rv = "ERR" if val == "ERR" else (hexv(val) if isinstance(val, int) else "?")
            real = f"int {rlen} {rv}"
        elif rk == "float":
            tok = s[:rlen].replace("_", "")
            real = f"float {rlen} {cps(tok)}"
            # dec2float oracle applied to the spelling the model hands over
            if val != "ERR" and mkind == "float" and float.hex(float(uncps(mval))) != float.hex(val):
                ctx.model_mismatch("K-lex float value", case, mval, repr(val), why)
        else:
            real = "none 0 -"
        if real != head:
            ctx.model_mismatch("K-lex number token (model vs Lexer.tokeniter/wrap)", case, head, real, why)
        elif not why:
            ctx.validated()


def random_numbers(ctx, R, limit):
    rng = ctx.rng
    cases = []

    def underscored(digs):
        out = digs[0]
        for d in digs[1:]:
            out += ("_" if rng.random() < 0.15 else "") + d
        return out

    for _ in range(ctx.size(400, 4000)):
        nd = rng.choice([1, 2, 5, 17, 60, 300]) if rng.random() < 0.5 else rng.randint(1, 40)
        base = rng.choice([10, 10, 2, 8, 16])
        if base == 10:
            d = str(rng.randint(1, 9)) + "".join(rng.choice("0123456789") for _ in range(nd - 1))
            s = underscored(d)
        else:
            dig = {2: "01", 8: "01234567", 16: "0123456789abcdefABCDEF"}[base]
            pre = {2: "0b", 8: "0o", 16: "0x"}[base]
            if rng.random() < 0.5:
                pre = pre.upper()
            d = "".join(rng.choice(dig) for _ in range(nd))
            s = pre + ("_" if rng.random() < 0.2 else "") + underscored(d)
        cases.append(s)
    for _ in range(ctx.size(400, 4000)):
        f = rng.choice([rng.random(), rng.uniform(-1e300, 1e300), rng.random() * 10 ** rng.randint(-320, 308),
                        float(rng.randint(0, 10 ** 18)), 5e-324, 1.7976931348623157e308, 2.2250738585072014e-308, 0.1, 1e22, 1e23])
        s = repr(abs(f))
        if s in ("inf", "nan"):
            continue
        v = rng.random()
        if v < 0.2:
            s = s.replace("e", "E")
        elif v < 0.4 and "e" not in s:
            s = s + "e" + rng.choice(["0", "+0", "-0", "00"])
        elif v < 0.6:
            a, _, b = s.partition(".")
            s = underscored(a) + ("." + b if b else "")
        cases.append(s)
    # big integers: up to and across CPython's digit limit (the extracted model multiplies unary-built binary numbers:
    # a few dozen of these cost seconds)
    for nd in (([1500, 4299, 4300, 4301]) if ctx.tier != "thorough" else [1500, 4000, 4299, 4300, 4301, 4400] * 10):
        d = str(rng.randint(1, 9)) + "".join(rng.choice("0123456789") for _ in range(nd - 1))
        cases.append(d if rng.random() < 0.5 else underscored(d))
        dig = rng.choice(["01", "01234567", "0123456789abcdefABCDEF"])
        cases.append({2: "0b", 8: "0O", 22: "0x"}[len(dig)] + underscored("".join(rng.choice(dig) for _ in range(nd))))
    # zeros and leading-zero forms, digit-limit boundary
    cases += ["0", "00", "0_0", "000_000", "0" * 5000, "9" * 4300, "9" * 4301, "1" + "0" * 4300, "0x" + "f" * 5000,
              "0b" + "1" * 5000, "0o" + "7" * 5000, "1e400", "1e-400", "0.0", "00.5", "0_0.0_0", "09.5", "1_0e1_0"]
    check_numbers(ctx, R, cases, "", limit)
    ctx.count("num/random", len(cases))


def non_ascii_digits(ctx, R):
    """hypothesis probe: digits outside 0-9 (\\d of the regexes matches every Nd character)"""
    nd = ["٣", "٩", "१", "１", "\U0001d7d8", "²", "Ⅰ"]
    sp = []
    for d in nd:
        sp += [d, "1" + d, d + "1", "1_" + d, "0x" + d, "0b" + d, "0o" + d, "0" + d, d + "." + d, "1." + d, d + ".5",
               "1e" + d, d + "e1", "1" + d + ".5", "1.5e" + d, "0x1" + d]
    for s in sp:
        kind, rlen, val, whole = R.first_token("", s)
        ctx.case(key=("nonascii", s))
        ctx.count("num/non-ascii-digit")
        if whole and kind in ("integer", "float") and val != "ERR":
            pl = py_literal(s)
            if pl is None or pl[1] != val:
                ctx.reject({"spelling": s}, f"the lexer reads {s!r} as one {kind} token with value {val!r}; Python: {pl}",
                           f"C14:number:non-ascii-digit:{kind}")
                continue
        if isinstance(val, str) and val.startswith("X:"):
            ctx.reject({"spelling": s}, f"conversion of {s!r} raised {val[2:]}", f"C14:number:non-ascii-digit:crash")
            continue
        ctx.validated()


# ------------------------------------------------------------------------------ strings
CLASSES = [
    lambda r: r.randint(32, 126), lambda r: r.choice([39, 34]), lambda r: 92, lambda r: r.randint(0, 31),
    lambda r: 13, lambda r: 10, lambda r: 127, lambda r: r.randint(128, 255), lambda r: r.randint(256, 0xFFFF),
    lambda r: r.randint(0xD800, 0xDFFF), lambda r: r.randint(0x10000, 0x10FFFF),
    lambda r: r.choice([0, 7, 8, 0x7F, 0x80, 0xFF, 0x100, 0x1FF, 0x200, 0xFFFF, 0x10000, 0x10FFFF, 0x2028, 0x85]),
    lambda r: ord(r.choice("0123456789abcdefxuUNnrt{}")),
]
STYLES = ["repr", "uni", "hex", "oct"]


def gen_values(ctx):
    rng = ctx.rng
    vals = [[], [39], [34], [92], [13, 10], [10], [13], [92, 110], [39, 34, 92], [0], [0x10FFFF], [0xD800], [0xDFFF, 0xD800]]
    vals += [[c] for c in range(0, 300)]                      # every code point of the dense low range
    vals += [[c, ord("7")] for c in (0, 1, 7, 8, 63, 64, 255, 256, 511, 512)]   # octal followed by a digit
    vals += [[c, ord("a")] for c in (0, 15, 16, 255, 256, 0xFFF, 0x1000, 0xFFFF, 0x10000)]  # hex followed by a hex letter
    for _ in range(ctx.size(900, 20000)):
        n = rng.randint(1, 8)
        vals.append([rng.choice(CLASSES)(rng) for _ in range(n)])
    return vals


def src_norm(text):
    """Lexer.tokeniter splits the source at \\r\\n, \\r, \\n and joins the lines with \\n before any
    rule is applied (C39's subject); string_re therefore sees this text"""
    import re
    return re.sub(r"\r\n|\r|\n", "\n", text)


def s_of(v):
    return "".join(chr(c) for c in v)


def check_strings(ctx, R):
    vals = gen_values(ctx)
    enc_lines, keys = [], []
    for v in vals:
        for st in STYLES:
            for q in (39, 34):
                enc_lines.append(f"E {st} {q} {cps(s_of(v))}")
                keys.append((v, st, q))
    lits = [uncps(x) for x in ctx.driver("lit", enc_lines)]
    conv_lines = [f"S 10 {cps(l[1:-1])}" for l in lits] + [f"L {cps(src_norm(l) + ' ~ x')}" for l in lits]
    out = ctx.driver("lit", conv_lines)
    conv, lexed = out[:len(lits)], out[len(lits):]
    for (v, st, q), lit, m, ml in zip(keys, lits, conv, lexed):
        want = s_of(v)
        case = {"value_code_points": v, "style": st, "quote": chr(q), "literal": lit}
        body = lit[1:-1]
        nontriv = ("\\" in body) or any(ord(ch) > 126 or ord(ch) < 32 for ch in body)
        ctx.case(sample=case if (nontriv and len(ctx.samples) < 5 and len(v) > 3) else None, key=(tuple(v), st, q) if nontriv else None)
        ctx.count("str/" + st)
        r = R.value(lit)
        why = None
        if r != ("ok", want):
            why = f"value {v} written as {lit!r} came back as {r!r}"
            ctx.reject(case, why, f"C14:string:{st}:{v[:3]}")
        mreal = ("ok " + cps(r[1])) if r[0] == "ok" and isinstance(r[1], str) else "err"
        if m.split(" ")[0] == "err":
            m = "err"
        kind, rlen, val, whole = R.first_token("", lit + " ~ x")
        rl = str(rlen) if kind == "string" else "none"
        if m != mreal or ml != rl:
            ctx.model_mismatch("K-lex string token (model vs string_re / wrap)", case, m + " len=" + ml, mreal + " len=" + rl, why)
        elif not why:
            ctx.validated()
    # --- Python-made spellings: repr / ascii must denote what Python says
    for v in vals[:ctx.size(1200, 8000)]:
        w = s_of(v)
        for lit in {repr(w), ascii(w)}:
            case = {"value_code_points": v, "literal": lit, "style": "python-repr"}
            ctx.case(key=("pyrepr", lit) if "\\" in lit else None)
            ctx.count("str/python-repr")
            try:
                want = ast.literal_eval(lit)
            except Exception:  # noqa
                continue
            r = R.value(lit)
            if r != ("ok", want):
                ctx.reject(case, f"{lit!r} denotes {want!r} in Python, the template gives {r!r}", f"C14:string:pyrepr:{v[:3]}")
            else:
                ctx.validated()


SOUP = list("\\\\\\\\'\"xuUN01789abfnrtvz{} \n\r") + ["é", "\U0001F600"]


def python_value(lit, b, q, nl="\n"):
    """Python's value of the quoted text, or None.  A body with raw line breaks is read as a triple-quoted
    literal; a raw break that is not the tail of a backslash-newline continuation stands for the environment's
    newline_sequence (documented normalisation of template text), so it is carried through Python's reading as a
    private-use character and replaced afterwards."""
    import re
    try:
        with warnings.catch_warnings():
            warnings.simplefilter("ignore")
            if "\n" not in b and "\r" not in b:
                return ast.literal_eval(lit)
            if q in b or b.endswith("\\") or "\ue000" in b:
                return None
            t = re.sub(r"\r\n|\r", "\n", b)
            t = re.sub(r"(?<!\\)((?:\\\\)*)\n", "\\1\ue000", t)      # breaks after an even run of backslashes
            return ast.literal_eval(q * 3 + t + q * 3).replace("\ue000", nl)
    except Exception:  # noqa
        return None
    return None


def literal_groups(ctx, R):
    """several literals in ONE template: each must keep its own type and value (a compiled template
    holds all its constants together)"""
    rng = ctx.rng
    pool = ["1", "1.0", "1e0", "0", "0.0", "0e0", "10", "1e1", "10.0", "1_0", "0x10", "16", "16.0", "0b11", "3", "3.0",
            "9007199254740993", "9007199254740992.0", "2", "2.0", "'1'", "'1.0'", "'a'", '"a"', "'\\x61'", "true", "false",
            "100", "1e2", "0o7", "7.0", "0.5", "5e-1", "255", "0xff", "2.55e2"]
    n = ctx.size(1500, 15000)
    for i in range(n):
        items = [rng.choice(pool) for _ in range(rng.randint(2, 4))]
        if i < len(pool) * len(pool):
            items = [pool[i // len(pool)], pool[i % len(pool)]]
        form = rng.choice(["list", "call", "set"])
        try:
            want = [ast.literal_eval({"true": "True", "false": "False"}.get(x, x)) for x in items]
        except Exception:  # noqa
            continue
        case = {"literals": items, "form": form}
        ctx.case(key=("group", form, tuple(items)))
        ctx.count("group/" + form)
        try:
            if form == "list":
                got = R.env.compile_expression("[" + ", ".join(items) + "]")()
            elif form == "call":
                got = R.env.compile_expression("grab(" + ", ".join(items) + ")")(grab=lambda *a: list(a))
            else:
                src = "".join("{%% set v%d = %s %%}" % (k, x) for k, x in enumerate(items))
                src += "{{ grab(" + ", ".join("v%d" % k for k in range(len(items))) + ") }}"
                box = []
                R.env.from_string(src).render(grab=lambda *a: box.append(list(a)) or "")
                got = box[0]
        except Exception as e:  # noqa
            got = "raised " + type(e).__name__
        if not (isinstance(got, list) and [(type(a), a) for a in got] == [(type(a), a) for a in want]):
            ctx.reject(case, f"literals {items} in one template ({form}) denote {got!r}, Python: {want!r}",
                       "C14:group:" + form + ":" + ",".join(items))
        else:
            ctx.validated()


POSITIONS = {
    "print": "«V grab(LIT) V»",
    "filter-arg": "«V grab(0|cap(LIT)) V»", "filter-kwarg": "«V grab(0|cap(a=LIT)) V»", "test-arg": "«V grab(0 is capt(LIT)) V»",
    "default-filter": "«V grab(nothere|default(LIT)) V»", "macro-default": "«B macro m(a=LIT) B»«V grab(a) V»«B endmacro B»«V m() V»",
    "call-kwarg": "«V grab(k=LIT) V»", "subscript": "«V grab(K[LIT]) V»", "slice": "«V grab(K[LIT:LIT]) V»",
    "dict-key": "«V grab({LIT: 0}|list|first) V»", "dict-value": "«V grab({'k': LIT}['k']) V»", "list-item": "«V grab([0, LIT][1]) V»",
    "tuple-item": "«V grab((LIT, 0)[0]) V»", "set": "«B set v = LIT B»«V grab(v) V»", "with": "«B with v = LIT B»«V grab(v) V»«B endwith B»",
    "for-iter": "«B for i in [LIT] B»«V grab(i) V»«B endfor B»", "if-cond": "«B if grab(LIT) is none B»«B endif B»",
    "cond-expr": "«V grab(LIT if true else 0) V»", "compare-rhs": "«V grab(K == LIT) V»", "call-block-arg": "«B macro w(a) B»«V grab(a) V»«V caller() V»«B endmacro B»«B call w(LIT) B»«B endcall B»",
    "set-block-filter": "«B set x | capg(LIT) B»«B endset B»", "filter-block": "«B filter capg(LIT) B»«B endfilter B»",
    "nested": "«V grab([{'a': (LIT,)}][0]['a'][0]) V»", "line-statement": "LS",
}


class _Key:
    """subscript / comparison target that hands back what it was given"""
    def __getitem__(self, k):
        return (k.start, k.stop) if isinstance(k, slice) else k

    def __eq__(self, other):
        return other

    __hash__ = None


def literal_positions(ctx, R):
    """a literal in every syntactic position, under every environment configuration the property does not
    exclude, on ONE long-lived environment per configuration (lexer / template caches accumulate) with a
    sample re-evaluated on a fresh environment"""
    import asyncio
    jinja2 = R.jinja2
    from jinja2.sandbox import SandboxedEnvironment
    from jinja2.nativetypes import NativeEnvironment
    rng = ctx.rng
    box = []

    def grab(*a, **k):
        box.append(list(a) + [k[x] for x in sorted(k)])
        return None

    def cap(v, a=None):
        return a

    def capt(v, a=None):
        return a

    def mk(name):
        kw = {}
        cls = jinja2.Environment
        if name == "unoptimized":
            kw["optimized"] = False
        elif name == "sandboxed":
            cls = SandboxedEnvironment
        elif name == "native":
            cls = NativeEnvironment
        elif name == "async":
            kw["enable_async"] = True
        elif name == "delimiters":
            kw.update(block_start_string="<%", block_end_string="%>", variable_start_string="${", variable_end_string="}",
                      comment_start_string="<#", comment_end_string="#>")
        elif name == "line":
            kw.update(line_statement_prefix="%%", line_comment_prefix="%#")
        elif name == "autoescape":
            kw["autoescape"] = True
        env = cls(**kw)
        env.filters["cap"] = cap
        env.filters["capg"] = lambda v, a=None: grab(a) or ""
        env.tests["capt"] = capt
        env.globals.update(grab=grab, K=_Key())
        return env

    configs = ["plain", "unoptimized", "sandboxed", "native", "async", "delimiters", "line", "autoescape"]
    envs = {c: mk(c) for c in configs}
    numbers = ["0", "7", "1_000", "0b1_01", "0B11", "0o1_7", "0O7", "0xA_f", "0XfF", "1.5", "1e5", "1E5", "1e+5", "1e-5", "1_0.0_1e+1_0",
               "2.5E-3", "00", "0_0", "9" * 30, "1.0", "1", "0.1", "123456789012345678901234567890.5"]
    strings = ["'a'", '"a"', "'it\\'s'", "'a' \"b\"", "'a' 'b' 'c'", "'\\n\\t\\x41\\u00e9'", "'é😀'", "'\\\\'", "''", "'1'", "'a\\\nb'", "\"q'q\""]
    n = ctx.size(1200, 25000)
    for i in range(n):
        pos = rng.choice(list(POSITIONS))
        cfg = rng.choice(configs)
        lit = rng.choice(numbers if rng.random() < 0.6 else strings)
        if i < len(POSITIONS) * len(configs):          # every position under every configuration at least once
            pos = list(POSITIONS)[i % len(POSITIONS)]
            cfg = configs[i // len(POSITIONS)]
        try:
            want = ast.literal_eval(lit)
        except Exception:  # noqa
            continue
        if pos == "dict-key" and isinstance(want, float) and want != want:
            continue
        tmpl = POSITIONS[pos]
        if pos == "line-statement":
            if cfg != "line":
                cfg = "line"
            src = "%% set v = " + lit + "\n{{ grab(v) }}"
        else:
            vs, ve, bs, be = ("${", "}", "<%", "%>") if cfg == "delimiters" else ("{{", "}}", "{%", "%}")
            src = tmpl.replace("«V", vs).replace("V»", ve).replace("«B", bs).replace("B»", be).replace("LIT", lit)
        expect = [want, want] if pos == "slice" else [want]
        case = {"position": pos, "configuration": cfg, "literal": lit, "source": src}
        ctx.case(key=("position", pos, cfg, lit), sample=case if len(ctx.samples) < 6 and i % 401 == 0 else None)
        ctx.count("position/" + pos)
        ctx.count("config/" + cfg)

        def evaluate(env):
            del box[:]
            try:
                t = env.from_string(src)
                if env.is_async:
                    asyncio.run(t.render_async())
                else:
                    t.render()
            except Exception as e:  # noqa
                return "raised " + type(e).__name__ + ": " + str(e)[:60]
            got = box[-1] if box else "nothing captured"
            if pos == "slice" and isinstance(got, list) and len(got) == 1 and isinstance(got[0], tuple):
                got = list(got[0])
            return got

        got = evaluate(envs[cfg])
        ok = isinstance(got, list) and [(type(a), a) for a in got] == [(type(a), a) for a in expect]
        if not ok:
            ctx.reject(case, f"literal {lit} in position {pos} ({cfg}) denotes {got!r}, Python: {expect!r}", f"C14:position:{pos}:{cfg}:{lit}")
            continue
        if i % 10 == 0:
            fresh = evaluate(mk(cfg))
            if fresh != got:
                ctx.reject(case, f"long-lived environment gives {got!r}, a fresh one {fresh!r}", f"C14:history:{pos}:{cfg}:{lit}")
                continue
        ctx.validated()


def escape_soup(ctx, R):
    rng = ctx.rng
    bodies = ["a\nb", "a\rb", "a\r\nb", "\r", "\n\n", "a\r\rb", "x\n\ry", "\\n\n", "é\r\n😀", "\\x4", "\\x4g", "\\u12", "\\U0011000", "\\U00110000", "\\U0010ffff", "\\777", "\\8", "\\0", "\\1a", "\\z",
              "\\\n", "a\\\nb", "\\N{DASH}", "\\N", "\\", "\\\\", "\\xZZ", "\\u00e9", "\\ud800", "\\x41\\101\\u0041",
              "\r\n", "a\rb", "a\r\nb", "\n\r", "\\\r\n", "\\\r"]
    # runs of 0..7 backslashes in front of every class of following character, in three contexts
    for k in range(0, 8):
        for nxt in ("é", "\U0001F600", "\u0416", "z", "n", "x41", "u00e9", "\n", "'", '"', "7", " ", ""):
            for pre, post in (("", ""), ("a", "b"), ("é", "\\é")):
                bodies.append(pre + "\\" * k + nxt + post)
    for _ in range(ctx.size(1800, 40000)):
        bodies.append("".join(rng.choice(SOUP) for _ in range(rng.randint(1, 7))))
    # third pass: the default environment AFTER an environment with another newline_sequence has lexed the same
    # literals (history across configurations: anything memoised per spelling would show here)
    for nl, env, nlname in (("\n", R.env, "LF"), ("\r\n", R.env_crlf, "CRLF"), ("\n", R.env, "LF-after-CRLF")):
        lines, items = [], []
        for b in (bodies if nlname != "LF-after-CRLF" else [x for x in bodies if "\n" in x or "\r" in x]):
            for q in "'\"":
                lines.append(f"L {cps(src_norm(q + b + q) + ' ~ x')}")
                items.append((b, q))
        lens = ctx.driver("lit", lines)
        conv = ctx.driver("lit", [f"S {cps(nl)} {cps(b)}" for b, q in items])
        for (b, q), ml, mc in zip(items, lens, conv):
            lit = q + b + q
            case = {"literal": lit, "newline_sequence": nlname}
            ctx.case(key=("soup", lit, nlname) if "\\" in b else None)
            ctx.count("str/soup-" + nlname)
            kind, rlen, val, whole = R.first_token("", lit + " ~ x", env)
            rl = str(rlen) if kind == "string" else "none"
            if rl != ml:
                # a literal Python reads (one-line, or triple-quoted for raw line breaks) that the lexer does not
                # read as one string token of the same text: the property fails on it
                pyv0 = python_value(lit, b, q, nl)
                why0 = None
                if pyv0 is not None and "\\N" not in b and (rl == "none" or rlen != len(src_norm(lit))):
                    why0 = f"Python reads {lit!r} as {pyv0!r}; the template lexer does not read it as one string literal"
                    ctx.reject(case, why0, "C14:string:not-lexed:" + lit[:20])
                ctx.model_mismatch("K-lex string_re (model vs tokeniter)", case, ml, rl, why0)
                continue
            if rl == "none" or rlen != len(src_norm(lit)):
                ctx.validated()          # the literal ends earlier / is no literal: lengths agree, nothing to convert
                continue
            if mc == "err unsupported-name":
                ctx.count("str/soup-skipped-named-escape")
                continue
            real = "err" if val == "ERR" else ("ok " + cps(val) if isinstance(val, str) and not val.startswith("X:") else str(val))
            if isinstance(val, str) and val.startswith("X:") and len(val) < 40 and val[2:].isidentifier():
                ctx.reject(case, f"string conversion raised {val[2:]} (not a TemplateSyntaxError)", f"C14:string:crash:{lit}")
                continue
            model = "err" if mc.startswith("err") else mc
            # oracle: a body that is also a Python literal body must denote Python's value
            why = None
            try:
                with warnings.catch_warnings():
                    warnings.simplefilter("ignore")
                    pyv = python_value(lit, b, q, nl)
                    if pyv is not None and ("\n" in b or "\r" in b):
                        ctx.count("str/raw-break-vs-python")
            except Exception:  # noqa
                pyv = None
            if pyv is not None and real.startswith("ok ") and uncps(real[3:]) != pyv and "\\N" not in b:
                why = f"{lit!r}: template value {uncps(real[3:])!r}, Python value {pyv!r}"
                import re
                fam = re.search(r"\\[^\x00-\x7f]", re.sub(r"\\\\", "", b)) is not None   # backslash before a raw non-ASCII character
                ctx.reject(case, why, "C14:string:backslash-before-non-ascii" if fam else f"C14:string:soup:{lit}")
            if model != real:
                ctx.model_mismatch("K-lex string conversion (model vs wrap)", case, model, real, why)
            elif not why:
                ctx.validated()


def adjacent(ctx, R):
    rng = ctx.rng
    groups = []
    for _ in range(ctx.size(300, 3000)):
        groups.append([[rng.choice(CLASSES)(rng) for _ in range(rng.randint(0, 4))] for _ in range(rng.randint(2, 4))])
    enc = [f"E {rng.choice(STYLES)} {rng.choice([39, 34])} {cps(s_of(v))}" for parts in groups for v in parts]
    lits = iter(ctx.driver("lit", enc))
    joined = ctx.driver("lit", ["J " + "|".join(cps(s_of(v)) for v in parts) for parts in groups])
    for parts, j in zip(groups, joined):
        src = rng.choice([" ", "", "  ", "\n"]).join(uncps(next(lits)) for _ in parts)
        want = "".join(s_of(v) for v in parts)
        model = uncps(j)
        case = {"source": src, "parts": parts}
        ctx.case(key=("adjacent", src))
        ctx.count("str/adjacent")
        r = R.value(src)
        if r != ("ok", want):
            ctx.reject(case, f"adjacent literals {src!r} give {r!r}, expected the concatenation {want!r}", f"C14:adjacent:{src}")
        elif model != want:
            ctx.model_mismatch("parse_strings", case, model, want, None)
        else:
            ctx.validated()


def run(ctx):
    jinja2 = lib.use_repo_jinja()
    ctx.extra["rule"] = RULE
    limit = sys.get_int_max_str_digits() if hasattr(sys, "get_int_max_str_digits") else 0
    ctx.assumptions += [
        "decimal -> double conversion (dec2float) is one external function applied by both sides to the same "
        "underscore-free spelling (validated: float(model spelling) == real token value == ast value)",
        f"CPython's integer string digit limit is {limit} (sys.get_int_max_str_digits); longer decimal spellings are "
        "refused by both CPython's parser and the template lexer (TemplateSyntaxError)",
        "number spellings are ASCII; non-ASCII decimal digits are probed on the real engine only",
        "\\N{name} escapes need the Unicode name table and are outside the model (skipped in the tie)",
    ]
    ctx.proof("C14")
    # T5 tie: the current source of wrap's TOKEN_STRING / TOKEN_INTEGER / TOKEN_FLOAT branches, translated into
    # Lib/LitPy terms, is proved equal to the model conversions for every token text
    import os
    sys.path.insert(0, os.path.join(lib.ROOT, "gen"))
    import lit_translate
    try:
        ok, out = ctx.coq_obligation("Gen_lit", lit_translate.emit(lib.SRC), n_obligations=3)
        if ok:
            ctx.trusted.append("Gen_lit (source = model equations): " + " ".join(out.split()))
    except lit_translate.Untranslatable as e:
        ctx.obligations += 3
        ctx.obligation_names.append("Gen_lit (regenerated, 3)")
        ctx.broken.append(f"translator gen/lit_translate.py: lexer.wrap's literal branches left the translatable vocabulary: {e}")
    R = Real(jinja2)
    L = ctx.size(4, 5)
    sp = []
    for n in range(1, L + 1):
        # quick tier: the longest length uses four representative digits (0 1 7 9) instead of ten
        alpha = ALPHABET if (n < L or ctx.tier == "thorough") else "0179_.eExXoObB+-"
        sp += ["".join(t) for t in itertools.product(alpha, repeat=n)]
    check_numbers(ctx, R, sp, "", limit)
    # longer spellings over a small alphabet: placement of (repeated) underscores around the point and the exponent
    # only shows from length 6 on (1__0.5, 1.0__1, 1e1__0)
    SMALL = "01_.e"
    long_sp = []
    for n in range(L + 1, ctx.size(7, 9) + 1):
        long_sp += ["".join(t) for t in itertools.product(SMALL, repeat=n) if t[0] in "01"]
    check_numbers(ctx, R, long_sp, "", limit)
    ctx.count("num/long-small-alphabet", len(long_sp))
    sp2 = []
    for n in range(1, L):
        sp2 += ["".join(t) for t in itertools.product(ALPHABET, repeat=n)]
    check_numbers(ctx, R, sp2, "x.", limit)
    random_numbers(ctx, R, limit)
    non_ascii_digits(ctx, R)
    check_strings(ctx, R)
    escape_soup(ctx, R)
    adjacent(ctx, R)
    literal_groups(ctx, R)
    literal_positions(ctx, R)


def replay(ctx, data):
    jinja2 = lib.use_repo_jinja()
    case = data.get("case")
    if data.get("kind") != "failing-input" or case is None:
        print("replay: names a broken theorem/correspondence:", data.get("broken"))
        return run(ctx)
    R = Real(jinja2)
    limit = sys.get_int_max_str_digits()
    if "spelling" in case:
        s = case["spelling"]
        print("real first token:", R.first_token("x." if case.get("context") == "after-dot" else "", s), " python:", py_literal(s))
        if all(ord(c) < 128 for c in s):
            check_numbers(ctx, R, [s], "x." if case.get("context") == "after-dot" else "", limit)
        else:
            non_ascii_digits(ctx, R)
    elif "literal" in case:
        lit = case["literal"]
        r = R.value(lit)
        print("template value:", r)
        if "value_code_points" in case:
            want = s_of(case["value_code_points"])
            if case.get("style") == "python-repr":
                want = ast.literal_eval(lit)
            if r != ("ok", want):
                ctx.reject(case, f"{lit!r} gives {r!r}, expected {want!r}", data.get("signature"))
        else:
            try:
                pyv = ast.literal_eval(lit)
            except Exception:  # noqa
                pyv = None
            print("python value:", repr(pyv))
            if pyv is not None and r != ("ok", pyv):
                ctx.reject(case, f"{lit!r} gives {r!r}, Python {pyv!r}", data.get("signature"))
    elif "literals" in case:
        literal_groups(ctx, R)
    elif "position" in case:
        literal_positions(ctx, R)
    elif "source" in case:
        r = R.value(case["source"])
        want = "".join(s_of(v) for v in case["parts"])
        print("template value:", r, "expected:", repr(want))
        if r != ("ok", want):
            ctx.reject(case, "adjacent literals are not concatenated", data.get("signature"))
    ctx.case()
