"""C17 — a sandboxed template cannot obtain private or internal attributes.

proof : Properties/C17.v (no_private_attr, handout_is_hop / hop_is_public, format_fields_sandboxed,
        filters_route_through_env, codegen_no_raw_attr) — for every table, object tree, name, path
        and expression; regenerated per run: build/C17/SbxGenC17.v (UNSAFE_* tables from sandbox.py:
        frame / code attributes of generators, coroutines and async generators stay internal)
tie   : T5      gen/sbx_translate.py: current source of is_internal_attribute / is_safe_attribute /
                getattr / getitem as terms of Lib/PySbx.v; build/C17/Gen_sbx_src.v proves
                source term = model function for every argument
        T1      UNSAFE_* tables + pinned shape of unsafe_undefined / wrap_str_format / get_field /
                compiler.visit_Getattr / visit_Getitem
        K-attr  extracted is_internal_attribute / is_safe_attribute == the real functions on real
                objects of every isinstance branch x their dir() + table + probe names
        K-rt    extracted sandbox_getattr / sandbox_getitem / do_attr == SandboxedEnvironment.getattr /
                getitem / filters.do_attr on synthetic objects (kind x name x attribute state x item
                state); extracted walk == SandboxedFormatter.get_field and make_attrgetter on chains
        K-gen   Model/SbxGen.show (gen m e) == routing skeleton of the real generated Python for
                generated expressions (sandboxed / async / plain); scan of the real generated code
                of generated templates for raw attribute / subscript / call on template values
        K-fold  literal-rooted attribute / subscript chains ('abc'.__doc__, (1).__class__.__name__): the
                optimized (constant-folding) compile renders what the unoptimized compile renders
                (Model/SbxFold.as_const == run_chain), sandboxed and immutable, sync and async
oracle: (API) a handed-out attribute value never has an underscore / internal name;
        (render) tracer data: the sentinel never appears, and an access to an unsafe name is
        indistinguishable from an access to a missing name unless it raises SecurityError
"""
import itertools
import re

from . import lib
from . import sbx_codegen as cg
from . import sbx_objects as ob
from . import sbx_src_tie

RULE = ("K-attr: 11 real objects (one per isinstance branch) x (dir(obj) + UNSAFE tables + probe names). K-rt: kinds "
        "{other, function, method, type, str} x 14 names x attribute state {none, plain, fmt, fmtmap} x item state x "
        "{getattr, getitem, attr filter}; chains of 1..4 objects walked by SandboxedFormatter.get_field (attr / str item / "
        "int item steps) and make_attrgetter; distinct = the tuple; non-trivial = the name is private or internal and the "
        "attribute exists. K-gen: random expression trees (depth <= 4) over Getattr / Getitem / Slice / Call / Filter / "
        "Test / operators in 3 modes + generated templates with expressions in every statement position. Render: 8 base "
        "objects x 24 private/internal + 5 public names x 33 access paths x {sync, async}; non-trivial = the attribute "
        "exists on the base object and is unsafe. Literals: 10 template literals x 40 names x {dot, subscript, attr filter} single "
        "steps + random chains of 2..3 names x 4 access forms x 6 wrappers, each compiled with and without the optimizer; "
        "non-trivial = the chain contains a name that is unsafe for the object it is applied to.")

# functions that are NOT translated (Gen_sbx_src.v covers is_internal_attribute, is_safe_attribute, getattr,
# getitem): their canonical text stays pinned
SHAPES = ("SandboxedEnvironment.wrap_str_format",)

SYN_NAMES = ["pub", "x1", "_priv", "__zz", "__zz__", "_", "mro", "gi_frame", "gi_code", "cr_frame", "ag_frame", "format",
             "format_map", "f_globals"]

_SEEN = set()
ADDR = re.compile(r"0x[0-9a-f]+")


def reject_once(ctx, case, what, sig):
    ctx.extra["rejections"] = ctx.extra.get("rejections", 0) + 1
    if sig in _SEEN:
        return
    _SEEN.add(sig)
    ctx.reject(case, what, sig)


# the attributes the sandbox documentation calls internal, independent of the tables in sandbox.py
# (same list as the regenerated obligation frames_and_code_internal)
SPEC_INTERNAL = {"generator": {"gi_frame", "gi_code"}, "coroutine": {"cr_frame", "cr_code"},
                 "asyncgen": {"ag_frame", "ag_code"}, "type": {"mro"}}


def spec_internal(obj, name):
    k = ob.kind_of(obj)
    return k in ("code", "frame", "traceback") or name in SPEC_INTERNAL.get(k, ())


def hexname(s):
    return s.encode("utf-8").hex() or "-"


def tables_line(u):
    return "tables " + " ".join(",".join(hexname(n) for n in u[f]) or "-" for f in
                                ("t_function", "t_method", "t_generator", "t_coroutine", "t_asyncgen"))


# ------------------------------------------------------------------ regenerated obligation
def regenerate(ctx):
    from gen import sbx_tables
    try:
        facts = sbx_tables.runtime_facts(sbx_tables.read_source(lib.SRC))
    except sbx_tables.TranslatorError as e:
        ctx.obligations += 2
        ctx.obligation_names.append("SbxGenC17 (regenerated, 1) + shapes")
        ctx.broken.append(f"T1 translator gen/sbx_tables.py does not recognise sandbox.py: {e}")
        return None
    if not facts["live_table_matches_source"]:
        ctx.broken.append("T1: the UNSAFE_* objects of the imported module differ from the source text")
    bad = [q for q in sbx_tables.shape_mismatches(facts) if q in SHAPES]
    try:
        bad += sbx_tables.filters_shape_mismatches(lib.SRC)
    except sbx_tables.TranslatorError as e:
        bad.append(str(e))
    ctx.obligations += 1
    ctx.obligation_names.append("text pins of the two untranslated functions: wrap_str_format (closure construction), make_multi_attrgetter (list mutation)")
    if bad:
        ctx.broken.append("T1: source shape differs from the modelled one: " + ", ".join(bad))
        ctx.extra["shape_changed"] = {q: facts["shapes"].get(q, "(see compiler.py / nodes.py)") for q in bad}
    else:
        ctx.discharged += 1
    v = f"""(* regenerated from {lib.SRC}/jinja2/sandbox.py by gen/sbx_tables.py *)
From Coq Require Import List Bool String.
Import ListNotations.
From JV Require Import Model.SbxAttr.
Open Scope string_scope.

{sbx_tables.tables_to_coq(facts)}

(* the frame and code objects of generators / coroutines / async generators are internal, every
   attribute of code / frame / traceback objects is internal, and type.mro is internal: predicates over
   the regenerated tables (additions to the tables pass) *)
Theorem frames_and_code_internal :
  forallb (fun a => is_internal_attribute gen_tables KGenerator a) ["gi_frame"; "gi_code"]
  && forallb (fun a => is_internal_attribute gen_tables KCoroutine a) ["cr_frame"; "cr_code"]
  && forallb (fun a => is_internal_attribute gen_tables KAsyncGen a) ["ag_frame"; "ag_code"]
  && forallb (fun k => is_internal_attribute gen_tables k "anything") [KCode; KFrame; KTraceback]
  && is_internal_attribute gen_tables KType "mro"
  && forallb (fun k => negb (is_safe_attribute gen_tables k "__globals__") && negb (is_safe_attribute gen_tables k "_x"))
       [KFunction; KMethod; KType; KCode; KTraceback; KFrame; KGenerator; KCoroutine; KAsyncGen; KOther] = true.
Proof. vm_compute. reflexivity. Qed.
"""
    sbx_src_tie.checked_obligation(ctx, "SbxGenC17", v, 1)
    return facts


# ------------------------------------------------------------------ K-attr
def k_attr(ctx, facts, env):
    from jinja2 import sandbox as sb
    objs, close = ob.real_objects()
    try:
        extra = sorted({n for f in facts["unsafe"].values() for n in f} | set(ob.PRIVATE_NAMES) | set(SYN_NAMES))
        queries = []
        for kind, o in objs.items():
            for n in sorted(set(dir(o)) | set(extra)):
                queries.append((kind, o, n))
        # class objects whose type is a metaclass (Enum classes, ABCs, custom metaclasses): the `type` branch by isinstance
        for label, o in ob.metaclass_bearing_classes().items():
            for n in sorted(set(dir(o)) | set(extra)):
                queries.append((ob.kind_of(o), o, n))
        out = ctx.driver("sbx", [tables_line(facts["unsafe"])] + [
            f"attr {'other' if k == 'str' else k} {hexname(n)}" for k, _, n in queries])[1:]
        for (kind, o, n), ln in zip(queries, out):
            bits = {k: v == "1" for k, v in (p.split("=") for p in ln.split())}
            assert ob.kind_of(o) == kind, (kind, ob.kind_of(o))
            real_int = bool(sb.is_internal_attribute(o, n))
            real_safe = bool(env.is_safe_attribute(o, n, None))
            case = {"kind": "attr", "object": kind, "name": n}
            ctx.case(key=("attr", kind, n) if (real_int or n.startswith("_")) and hasattr(o, n) else None)
            ctx.count("k_attr")
            if (bits["internal"], bits["safe"]) != (real_int, real_safe):
                of = None
                if real_safe and n.startswith("_"):
                    of = f"is_safe_attribute accepts the underscore name {n!r} on a {kind} object"
                elif real_safe and spec_internal(o, n) and hasattr(o, n):
                    of = f"is_safe_attribute accepts the internal attribute {n!r} of a {kind} object"
                ctx.model_mismatch("K-attr is_internal_attribute/is_safe_attribute", case,
                                   f"internal={bits['internal']} safe={bits['safe']}", f"internal={real_int} safe={real_safe}", of,
                                   f"C17:policy:{kind}.{n}")
            else:
                ctx.validated()
    finally:
        close()


# ------------------------------------------------------------------ K-rt single step
def api_oracle(name, cls):
    """a handed-out attribute value / format wrapper must not come from an underscore name"""
    if cls in ("value", "format") and name.startswith("_"):
        return f"the value of the underscore attribute {name!r} was handed out ({cls})"
    return None


def k_rt_single(ctx, facts, env):
    from jinja2 import filters as jf
    from jinja2 import sandbox as sb
    cases = []
    for kind, name, astat, istat in itertools.product(("other", "function", "method", "type"), SYN_NAMES,
                                                      ("none", "plain", "fmt", "fmtmap"), ("0", "1")):
        av, iv = ob.Val("ATTR"), ob.Val("ITEM")
        o = ob.make_obj(kind, name, astat, istat, av, iv)
        if o is None:
            continue
        # the object may carry the name already (type.mro, function.__zz__ ...): use the real state
        ra, ri = ob.attrstat(o, name), ob.itemstat(o, name)
        if ra is None or ri is None:
            continue
        cases.append((kind, name, ra, ri, o, getattr(o, name, None) if ra != "none" else None, iv))
    # subscript keys that are instances of a str subclass: content "pubkey", str() = the name under test
    subcases = []
    for kind, name, astat in itertools.product(("other", "type", "function"), SYN_NAMES, ("none", "plain", "fmt")):
        av = ob.Val("ATTR")
        o = ob.make_obj(kind, name, astat, "0", av, None)
        if o is None:
            continue
        ra = ob.attrstat(o, name)
        if ra is None or ob.itemstat(o, "pubkey") != "0":
            continue
        subcases.append((kind, name, ra, o, getattr(o, name, None) if ra != "none" else None))
    sub_out = ctx.driver("sbx", [tables_line(facts["unsafe"])] + [f"gs {k} {hexname('pubkey')} {hexname(n)} {ra} 0" for k, n, ra, _, _ in subcases])[1:]
    for (kind, name, ra, o, av), model in zip(subcases, sub_out):
        r, exc = ob.call_classified(lambda: env.getitem(o, ob.StrSub("pubkey", name)))
        real = exc or ob.classify(r, av, None)
        if real == "handout":
            real = "value"
        case = {"kind": "access", "fn": "gi-strsubclass", "object": kind, "name": name, "attr": ra, "item": "0"}
        unsafe_name = name.startswith("_") or bool(sb.is_internal_attribute(o, name))
        ctx.case(sample=case if unsafe_name and ra == "plain" else None, key=("rt-sub", kind, name, ra) if unsafe_name and ra != "none" else None)
        ctx.count("k_rt_gi_strsubclass")
        of = api_oracle(name, real) or (f"the value of the internal attribute {name!r} was handed out" if real in ("value", "format") and unsafe_name else None)
        if of:
            reject_once(ctx, case, f"getitem with a str-subclass key whose str() is {name!r} on a {kind} object: {of}", f"C17:access:gi-strsubclass:{ra}:{name}")
        elif real != model:
            ctx.model_mismatch("K-rt sandbox_getitem (str-subclass key)", case, model, real, None)
        else:
            ctx.validated()

    # attribute NAMES that are instances of lying str subclasses, handed to getattr / getitem / the attr filter
    from jinja2.sandbox import ImmutableSandboxedEnvironment
    imm = ImmutableSandboxedEnvironment()
    lying_cases = []
    for kind, name, astat in itertools.product(("other", "type", "function"), SYN_NAMES, ("plain", "fmt")):
        o = ob.make_obj(kind, name, astat, "0", ob.Val("ATTR"), None)
        if o is None or ob.attrstat(o, name) in (None, "none"):
            continue
        lying_cases.append((kind, name, o, None))
    for cont, mname in (([1], "append"), ({"a": 1}, "update"), ({1}, "add"), ([1], "index"), ([1], "__class__")):
        lying_cases.append(("container:" + type(cont).__name__, mname, cont, "immutable"))
    for (kind, name, o, which), (nkind, mk) in itertools.product(lying_cases, ob.NAME_KINDS.items()):
        e = imm if which == "immutable" else env
        lname = mk(name)
        for fn_name, fn in (("ga", lambda: e.getattr(o, lname)), ("gi", lambda: e.getitem(o, lname)), ("da", lambda: jf.do_attr(e, o, lname))):
            if nkind == "str-returns-lying" and fn_name != "gi":
                continue      # only getitem calls str() on the name; getattr / the attr filter use its content ("safe")
            r, exc = ob.call_classified(fn)
            real = exc or ob.classify(r)
            unsafe_name = name.startswith("_") or bool(sb.is_internal_attribute(o, name)) or spec_internal(o, name) \
                or (which == "immutable" and bool(sb.modifies_known_mutable(o, name)))
            case = {"kind": "access", "fn": fn_name + "-" + nkind, "object": kind, "name": name, "attr": "plain", "item": "0"}
            ctx.case(sample=case if unsafe_name and fn_name == "da" and len(ctx.samples) < 6 else None,
                     key=("rt-lying", fn_name, nkind, kind, name) if unsafe_name else None)
            ctx.count("k_rt_lying_name")
            if unsafe_name and real in ("handout", "value", "format"):
                reject_once(ctx, case, f"{fn_name} with the name {name!r} given as a {nkind} str subclass on a {kind}: the value of an unsafe "
                                       f"attribute was handed out ({real})", f"C17:access:{fn_name}:{nkind}:{name}")
            else:
                ctx.validated()

    objs, close = ob.real_objects()
    try:
        for kind, o in objs.items():
            for name in sorted(set(dir(o)) | {"format", "format_map", "nosuch", "_x"}):
                ra, ri = ob.attrstat(o, name), ob.itemstat(o, name)
                if ra is None or ri is None:
                    continue
                cases.append((kind, name, ra, ri, o, None, None))
        lines = [tables_line(facts["unsafe"])]
        for kind, name, ra, ri, *_ in cases:
            for cmd in ("ga", "gi", "da"):
                # the model's VStr carries only format / format_map; any other attribute of a real str
                # is an ordinary attribute of an object of the last isinstance branch
                mk = "other" if kind == "str" and name not in ("format", "format_map") else kind
                lines.append(f"{cmd} {mk} {hexname(name)} {ra} {ri}")
        out = ctx.driver("sbx", lines)[1:]
        i = 0
        for kind, name, ra, ri, o, av, iv in cases:
            for cmd, fn in (("ga", lambda: env.getattr(o, name)), ("gi", lambda: env.getitem(o, name)),
                            ("da", lambda: jf.do_attr(env, o, name))):
                model = out[i]
                i += 1
                r, exc = ob.call_classified(fn)
                real = exc or ob.classify(r, av, iv)
                if real == "handout":      # real objects: exactly one of attribute / item exists
                    real = "value" if ra != "none" and (ri == "0" or cmd != "gi") else "item"
                case = {"kind": "access", "fn": cmd, "object": kind, "name": name, "attr": ra, "item": ri}
                unsafe_name = name.startswith("_") or bool(sb.is_internal_attribute(o, name))
                ctx.case(sample=case if unsafe_name and ra == "fmt" else None,
                         key=("rt", cmd, kind, name, ra, ri) if unsafe_name and ra != "none" else None)
                ctx.count("k_rt_" + cmd)
                of = api_oracle(name, real)
                if of:
                    reject_once(ctx, case, f"{cmd} on a {kind} object: {of}", f"C17:access:{cmd}:{ra}:{name}")
                elif real != model:
                    ctx.model_mismatch("K-rt sandbox_getattr/getitem/do_attr", case, model, real, None)
                else:
                    ctx.validated()
    finally:
        close()


# ------------------------------------------------------------------ K-rt paths
def k_rt_paths(ctx, facts, env):
    from jinja2 import filters as jf
    from jinja2.sandbox import SandboxedFormatter
    rng = ctx.rng
    names = ["pub", "x1", "_priv", "__zz", "mro", "gi_frame", "format", "k"]
    n_cases = ctx.size(1500, 15000)
    specs = []
    for _ in range(n_cases):
        depth = rng.randint(1, 4)
        mode = rng.choice(["field", "getter"])
        levels = []
        for _ in range(depth):
            kind = rng.choice(["other", "other", "type", "function"])
            st = rng.choice(["A", "I", "N"]) if mode == "field" else rng.choice(["I", "I", "N"])
            name = str(rng.randint(0, 2)) if st == "N" else rng.choice(names)
            astat = "none" if st == "N" else rng.choice(["none", "plain", "plain"])
            istat = "0" if kind == "function" else rng.choice(["0", "1"])
            levels.append((kind, name, st, astat, istat))
        specs.append((mode, levels))
    lines = [tables_line(facts["unsafe"])]
    built = []
    for mode, levels in specs:
        final_attr, final_item = ob.Val("ATTR"), ob.Val("ITEM")
        nxt_a, nxt_i = final_attr, final_item
        root = None
        ok = True
        real_levels = []
        for kind, name, st, astat, istat in reversed(levels):
            key = int(name) if st == "N" else name
            o = ob.make_obj(kind, name, astat, istat, nxt_a, nxt_i, item_key=key)
            if o is None:
                ok = False
                break
            ra = "none" if st == "N" else ob.attrstat(o, name)
            real_levels.append((kind, name, st, ra, istat))
            nxt_a = nxt_i = o
            root = o
        if not ok or any(l[3] in (None, "fmt", "fmtmap") for l in real_levels):
            built.append(None)
            lines.append("attr other 78")
            continue
        real_levels.reverse()
        built.append((mode, real_levels, root, final_attr, final_item))
        lines.append(f"walk {len(real_levels)} " + " ".join(
            f"{k} {n if st == 'N' else hexname(n)} {st} {a} {i}" for k, n, st, a, i in real_levels))
    out = ctx.driver("sbx", lines)[1:]
    fmt = SandboxedFormatter(env)
    for b, model in zip(built, out):
        if b is None:
            continue
        mode, levels, root, fa, fi = b
        if mode == "field":
            field = "0" + "".join(("." + n) if st == "A" else f"[{n}]" for _, n, st, _, _ in levels)
            r, exc = ob.call_classified(lambda: fmt.get_field(field, (root,), {})[0])
            desc = field
        else:
            attr = ".".join(n for _, n, _, _, _ in levels)
            r, exc = ob.call_classified(lambda: jf.make_attrgetter(env, attr)(root))
            desc = attr
        real = exc or ob.classify(r, fa, fi)
        if real == "handout":
            real = "value"       # an intermediate-level object: compare as handed out
            model = "value" if model in ("value", "item") else model
        last = levels[-1]
        case = {"kind": "path", "mode": mode, "path": desc, "levels": levels}
        nontriv = any((n.startswith("_") or n in ("mro", "gi_frame")) and a != "none" for _, n, _, a, _ in levels)
        ctx.case(sample=case if nontriv and len(levels) > 2 else None, key=("path", mode, str(levels)) if nontriv else None)
        ctx.count("k_rt_path_" + mode)
        if real == "value" and last[2] != "N" and last[1].startswith("_") and last[3] != "none" and r is fa:
            reject_once(ctx, case, f"{mode} path {desc!r} handed out the value of an underscore attribute", f"C17:path:{mode}:{last[1]}")
        elif real != model:
            ctx.model_mismatch("K-rt walk (get_field / make_attrgetter)", case, model, real, None)
        else:
            ctx.validated()


# ------------------------------------------------------------------ K-gen
def make_codegen_envs(jinja2):
    from jinja2.sandbox import SandboxedEnvironment
    return {(1, 0): SandboxedEnvironment(optimized=False), (1, 1): SandboxedEnvironment(optimized=False, enable_async=True),
            (0, 0): jinja2.Environment(optimized=False), "opt": SandboxedEnvironment(),
            "opt-async": SandboxedEnvironment(enable_async=True)}


def k_gen(ctx, jinja2, n_expr, n_tmpl, prop):
    """shared by C17 and C18: model skeleton == real skeleton; scan of generated templates"""
    envs = make_codegen_envs(jinja2)
    eg = cg.EGen(ctx.rng)
    cases = []
    for _ in range(n_expr):
        src, toks = eg.expr(ctx.rng.randint(1, 4))
        cases.append((ctx.rng.choice([(1, 0), (1, 1), (1, 0), (0, 0)]), src, toks))
    out = ctx.driver("sbx", [f"gen {m[0]} {m[1]} " + " ".join(t) for m, s, t in cases])
    for (m, src, toks), ln in zip(cases, out):
        model, facts = ln.split(" | ")
        bits = dict(p.split("=") for p in facts.split())
        case = {"kind": "expr", "sandboxed": m[0], "async": m[1], "expr": src}
        try:
            real, code = cg.real_skeleton(envs[m], src)
        except Exception as e:  # noqa: BLE001
            real, code = "compile-error:" + type(e).__name__, ""
        nontriv = bits["calls"] != "0" if prop == "C18" else ("GA(" in model or "GI(" in model)
        ctx.case(sample=case if nontriv and len(src) < 80 else None, key=("expr", m, src) if nontriv else None)
        ctx.count("k_gen_expr")
        if real != model:
            of = None
            if m[0] and ("RAWATTR" in real or "RAWSUB" in real or "DIRECTCALL" in real or "CTXCALL" in real):
                of = "the sandboxed compile of the expression contains " + real[:200]
            ctx.model_mismatch("K-gen routing skeleton (Model/SbxGen.gen)", case, model, real, of, f"{prop}:codegen:expr")
        else:
            ctx.validated()
    for i in range(n_tmpl):
        sg = cg.SGen(ctx.rng)
        t = sg.template()
        for m in ((1, 0), (1, 1), "opt", "opt-async"):
            case = {"kind": "template", "mode": str(m), "template": t}
            try:
                code = envs[m].compile(t, raw=True)
                nodes = envs[m].parse(t)
            except Exception as e:  # noqa: BLE001
                ctx.count("k_gen_template_compile_error")
                continue
            problems, counts = cg.scan_generated(code, sandboxed=True)
            from jinja2 import nodes as jn
            n_call = sum(1 for _ in nodes.find_all(jn.Call))
            # visit_Output folds a child whose as_const succeeds even with optimized=False; a Call inside
            # such a child sits behind a constant short-circuit ('k' or f()) and is never evaluated
            folded = 0
            ectx = jn.EvalContext(envs[m], None)
            for outn in nodes.find_all(jn.Output):
                for child in outn.nodes:
                    try:
                        child.as_const(ectx)
                    except Exception:  # noqa: BLE001 - Impossible or anything else: not folded
                        continue
                    folded += sum(1 for _ in child.find_all(jn.Call)) + (1 if isinstance(child, jn.Call) else 0)
            ctx.case(key=("tmpl", t, str(m)) if counts["call"] + counts["getattr"] else None)
            ctx.count("k_gen_template")
            if problems:
                reject_once(ctx, dict(case, problems=problems[:5]),
                            f"generated sandboxed code operates on a template value outside the sandbox: {problems[0]}",
                            f"{prop}:codegen:{problems[0][0]}")
            elif m in ((1, 0), (1, 1)) and not (n_call - folded <= counts["call"] <= n_call):
                ctx.model_mismatch("K-gen gate count (environment.call sites == Call nodes)", case, str(n_call), str(counts["call"]),
                                   "a Call node of the template is not compiled to environment.call" if counts["call"] < n_call else None,
                                   f"{prop}:codegen:call-count")
            else:
                ctx.validated()


# ------------------------------------------------------------------ render oracle
def render_outcome(env, cache, src, data, entry="render"):
    """entry: render / generate / stream / render_async (driven by asyncio.run) / make_module"""
    import asyncio
    from jinja2.exceptions import SecurityError, UndefinedError
    try:
        t = cache.get(src)
        if t is None:
            t = cache[src] = env.from_string(src)
        is_async = bool(env.is_async)
        if entry == "generate" and not is_async:
            out = "".join(t.generate(**data))
        elif entry == "stream" and not is_async:
            out = "".join(t.stream(**data))
        elif entry == "render_async" and is_async:
            out = asyncio.run(t.render_async(**data))
        elif entry == "make_module" and not is_async:
            out = str(t.make_module(data))
        else:
            out = t.render(**data)
        return "ok:" + ADDR.sub("0x", out)
    except SecurityError:
        return "SecurityError"
    except UndefinedError:
        return "UndefinedError"
    except Exception as e:  # noqa: BLE001
        return "exc:" + type(e).__name__


def judge_render(ctx, envs, case):
    from jinja2 import sandbox as sb
    b, n, path, mode = case["base"], case["name"], case["path"], case["mode"]
    key = mode + (":" + case["config"] if case.get("config") else "")
    entry = case.get("entry", "render")
    env, cache = envs[key]
    src = ob.ACCESS[path] % {"b": b, "n": n}
    ctl = ob.ACCESS[path] % {"b": b, "n": "nosuchattr_zz"}
    data, close = ob.tracer_data()
    try:
        base_obj = dict(ob.BASES)[b](data)
        exists = ob.attrstat(base_obj, n) not in ("none", None)
        unsafe = n.startswith("_") or bool(sb.is_internal_attribute(base_obj, n)) or spec_internal(base_obj, n)
        out = render_outcome(env, cache, src, data, entry)
        case.update(template=src, outcome=out[:200], exists=exists, unsafe=unsafe)
        if case.get("fresh"):
            # history: the long-lived environment (thousands of earlier renders) against a brand-new one
            data3, close3 = ob.tracer_data()
            try:
                out3 = render_outcome(fresh_env_like(key), {}, src, data3, entry)
            finally:
                close3()
            if out3 != out:
                ctx.model_mismatch("history: a used environment renders what a fresh environment renders", case, out3[:120], out[:120],
                                   "the sentinel appears only with history" if ob.SENT in out else None, f"C17:render:history:{path}:{n}")
                return False
        if ob.SENT in out:
            reject_once(ctx, case, f"the sentinel of a private attribute appears in the output of {src!r} ({mode})",
                        f"C17:render:sentinel:{path}:{n}")
            return False
        if b == "rz" and out == "exc:RuntimeError":
            return True       # the data's own attribute protocol raised: its exception propagates, nothing is handed out
        if unsafe and out != "SecurityError":
            data2, close2 = ob.tracer_data()
            try:
                ctl_out = render_outcome(env, cache, ctl, data2, entry)
            finally:
                close2()
            norm = lambda s: s.replace("nosuchattr_zz", n)   # noqa: E731 - messages mention the name
            if norm(ctl_out) != out:
                reject_once(ctx, case, f"access to the unsafe name {n!r} through {path!r} is distinguishable from a missing "
                                       f"attribute: {out[:80]!r} vs {ctl_out[:80]!r}", f"C17:render:observable:{path}:{n}")
                return False
        return True
    finally:
        close()


def judge_host_format(ctx, envs, case):
    """a bound str.format supplied by the host must still run through the sandboxed formatter"""
    env, cache = envs[case["mode"]]
    src = ob.HOST_FORMAT[case["path"]]
    data, close = ob.tracer_data()
    try:
        out = render_outcome(env, cache, src, data)
        case.update(template=src, outcome=out[:200])
        if ob.SENT in out:
            reject_once(ctx, case, f"a host-supplied bound format method ran natively: the sentinel of a private attribute "
                                   f"appears in the output of {src!r} ({case['mode']})", f"C17:render:host-format:{case['path']}")
            return False
        if not out.startswith("ok:") or "PUBLIC" not in out:
            ctx.model_mismatch("K-rt host-supplied format method is formatted by the sandboxed formatter", case,
                               "ok:|PUBLIC", out, None)
            return False
        return True
    finally:
        close()


# ------------------------------------------------------------------ literal-rooted chains (constant folding)
LITERALS = [("'abc'", "abc"), ("''", ""), ("(1)", 1), ("(1.5)", 1.5), ("[1, 2]", [1, 2]), ("{'a': 1}", {"a": 1}),
            ("(1, 2)", (1, 2)), ("true", True), ("none", None), ("'{0}'", "{0}")]
LIT_UNSAFE = ["__class__", "__doc__", "__name__", "__qualname__", "__module__", "__mro__", "__base__", "__bases__", "__len__",
              "__init__", "__subclasses__", "__dict__", "__self__", "__func__", "mro", "__add__", "__hash__", "__sizeof__",
              "__dir__", "__reduce__", "__format__", "__text_signature__", "_x"]
LIT_PUBLIC = ["upper", "real", "imag", "keys", "count", "index", "format", "numerator", "denominator", "conjugate", "items",
              "bit_length", "strip", "title", "lower", "a", "nosuch"]
LIT_FORMS = ("dot", "subscript", "attrf", "mixed")
LIT_WRAP = {"print": "{{ %s }}", "defined": "{{ (%s) is defined }}", "strlen": "{{ (%s)|string|length }}",
            "if": "{%% if %s %%}T{%% else %%}F{%% endif %%}", "set": "{%% set v = %s %%}{{ v }}",
            "eq": "{%% if (%s) == 'str' %%}LEAK{%% endif %%}"}


def lit_expr(lit, chain, form):
    e = lit
    for i, n in enumerate(chain):
        f = form if form != "mixed" else ("dot" if i % 2 == 0 else "subscript")
        if f == "dot":
            e = f"({e}).{n}"
        elif f == "subscript":
            e = f"({e})['{n}']"
        else:
            e = f"(({e})|attr('{n}'))"
    return e


def first_unsafe_step(value, chain, form):
    """index of the first step whose name is unsafe for the object it is applied to (walking the real objects
    the way the access form does), or None"""
    from jinja2 import sandbox as sb
    obj = value
    for i, n in enumerate(chain):
        if n.startswith("_") or bool(sb.is_internal_attribute(obj, n)) or spec_internal(obj, n):
            return i
        f = form if form != "mixed" else ("dot" if i % 2 == 0 else "subscript")
        nxt = None
        order = ("item", "attr") if f == "subscript" else (("attr",) if f == "attrf" else ("attr", "item"))
        for how in order:
            try:
                nxt = (getattr(obj, n),) if how == "attr" else (obj[n],)
                break
            except Exception:  # noqa: BLE001
                continue
        if nxt is None:
            return None
        obj = nxt[0]
    return None


SECONDARY_BASES = ("EnumMember", "AbcC", "EnumC", "MetaC", "dyn", "bm", "fr", "co", "tb", "cr", "ag", "rz", "dynall", "tup[0]", "d.o", "lst[0]")
CORE_PATHS = ("loop-over", "attr-filter-lying-startswith", "subscript-str-returns-lying", "macro-param-named-loop", "dot", "subscript",
              "attr-filter", "call", "format-attr", "format-stored", "map-attribute", "sort-multi")


def hash_of(*parts):
    import zlib
    return zlib.crc32("|".join(map(str, parts)).encode())


def make_literal_envs():
    from jinja2.sandbox import ImmutableSandboxedEnvironment, SandboxedEnvironment
    envs = {}
    for cname, cls in (("sandboxed", SandboxedEnvironment), ("immutable", ImmutableSandboxedEnvironment)):
        for mode in ("sync", "async"):
            for opt in (True, False):
                envs[(cname, mode, opt)] = (cls(enable_async=(mode == "async"), optimized=opt), {})
    return envs


def judge_literal(ctx, envs, case):
    """(a) an unsafe step of a literal-rooted chain is SecurityError or indistinguishable from a missing name;
    (b) the optimized (constant-folding) compile renders what the unoptimized one renders"""
    lit, value = LITERALS[case["literal"]]
    chain, form, wrap = case["chain"], case["form"], case["wrap"]
    key = (case["env"], case["mode"])
    src = LIT_WRAP[wrap] % lit_expr(lit, chain, form)
    case["template"] = src
    out_opt = render_outcome(*envs[key + (True,)], src, {})
    out_rt = render_outcome(*envs[key + (False,)], src, {})
    case["outcome"] = out_opt[:120]
    i = first_unsafe_step(value, chain, form)
    case["unsafe_step"] = i
    of = None
    if i is not None:
        ctl_chain = list(chain)
        ctl_chain[i] = "nosuchattr_zz"
        ctl = LIT_WRAP[wrap] % lit_expr(lit, ctl_chain, form)
        for label, out, opt in (("optimized", out_opt, True), ("unoptimized", out_rt, False)):
            if out != "SecurityError" and out != render_outcome(*envs[key + (opt,)], ctl, {}):
                of = (f"the {label} compile of {src!r} exposes the unsafe attribute {chain[i]!r} of a literal: {out[:80]!r} "
                      f"(a missing name gives {render_outcome(*envs[key + (opt,)], ctl, {})[:60]!r})")
                break
    if of:
        reject_once(ctx, case, of, f"C17:literal:{form}:{chain[i]}")
        return False
    if out_opt != out_rt:
        ctx.model_mismatch("K-fold constant folding == run-time lookup (Model/SbxFold.as_const)", case, out_rt[:100], out_opt[:100], None)
        return False
    return True


def literal_stream(ctx):
    envs = make_literal_envs()
    rng = ctx.rng
    cases = []
    for li in range(len(LITERALS)):
        for n in LIT_UNSAFE + LIT_PUBLIC:
            for form in ("dot", "subscript", "attrf"):
                for env, mode in (("sandboxed", "sync"), ("immutable", "async")):
                    cases.append({"kind": "literal", "literal": li, "chain": [n], "form": form, "wrap": "print", "env": env, "mode": mode})
    for _ in range(ctx.size(800, 12000)):
        depth = rng.randint(2, 3)
        chain = [rng.choice(LIT_UNSAFE + LIT_PUBLIC + LIT_UNSAFE) for _ in range(depth)]
        cases.append({"kind": "literal", "literal": rng.randrange(len(LITERALS)), "chain": chain, "form": rng.choice(LIT_FORMS),
                      "wrap": rng.choice(list(LIT_WRAP)), "env": rng.choice(["sandboxed", "immutable"]),
                      "mode": rng.choice(["sync", "async"])})
    for case in cases:
        ok = judge_literal(ctx, envs, case)
        nontriv = case.get("unsafe_step") is not None
        ctx.case(sample=case if nontriv and len(case["chain"]) == 2 and len(ctx.samples) < 6 else None,
                 key=("lit", case["literal"], tuple(case["chain"]), case["form"], case["wrap"], case["env"], case["mode"]) if nontriv else None)
        ctx.count("literal_chain_%d" % len(case["chain"]))
        if ok:
            ctx.validated()


# ------------------------------------------------------------------ from-import of module attributes
IMPORT_LIB = "{% macro hello() %}hi{% endmacro %}{% set pub = 'PUBLIC' %}{% set _priv = '" + ob.SENT + "9' %}{% macro _hidden() %}" + ob.SENT + "8{% endmacro %}"
IMPORT_NAMES = ["pub", "hello", "_priv", "_hidden", "__class__", "__dict__", "_body_stream", "__module__", "__name__", "__init__",
                "_TemplateModule__context", "__repr__", "__doc__"]
IMPORT_FORMS = {
    "from-as": '{%% from %(src)s import %(n)s as c %(ctx)s%%}{{ c }}',
    "from-plain": '{%% from %(src)s import %(n)s %(ctx)s%%}{{ %(n)s }}',
    "from-as-second": '{%% from %(src)s import pub, %(n)s as c %(ctx)s%%}{{ c }}',
    "from-as-call": '{%% from %(src)s import %(n)s as c %(ctx)s%%}{{ c() }}',
    "from-as-attr": '{%% from %(src)s import %(n)s as c %(ctx)s%%}{{ c.__name__ }}{{ c|list|length }}',
    "import-dot": '{%% import %(src)s as m %(ctx)s%%}{{ m.%(n)s }}',
    "import-subscript": "{%% import %(src)s as m %(ctx)s%%}{{ m['%(n)s'] }}",
}


def import_stream(ctx):
    """module attributes reached by {% from X import N as alias %} (generated code: builtin getattr guarded only by
    the parser) and {% import X as m %}{{ m.N }}: an underscore name is a compile-time error or behaves like a
    missing name"""
    from jinja2 import DictLoader
    from jinja2.sandbox import ImmutableSandboxedEnvironment, SandboxedEnvironment
    for cname, cls in (("sandboxed", SandboxedEnvironment), ("immutable", ImmutableSandboxedEnvironment)):
        for mode in ("sync", "async"):
            env = cls(loader=DictLoader({"lib": IMPORT_LIB}), enable_async=(mode == "async"))
            cache = {}
            lib_t = env.get_template("lib")
            for form, n, src, wctx in itertools.product(IMPORT_FORMS, IMPORT_NAMES, ('"lib"', "t"), ("", "with context ")):
                if ctx.tier != "thorough" and (cname, mode) in (("immutable", "sync"), ("sandboxed", "async")) and src == "t":
                    continue
                tmpl = IMPORT_FORMS[form] % {"src": src, "n": n, "ctx": wctx}
                ctl = IMPORT_FORMS[form] % {"src": src, "n": "nosuchattr_zz", "ctx": wctx}
                out = render_outcome(env, cache, tmpl, {"t": lib_t})
                case = {"kind": "import", "env": cname, "mode": mode, "form": form, "name": n, "template": tmpl, "outcome": out[:160]}
                unsafe = n.startswith("_")
                ctx.case(sample=case if unsafe and form == "from-as" and len(ctx.samples) < 6 else None,
                         key=("import", cname, mode, form, n, src, wctx) if unsafe else None)
                ctx.count("import_" + form)
                bad = None
                if ob.SENT in out:
                    bad = "the sentinel of an underscore name of the imported module appears in the output"
                elif unsafe and out not in ("SecurityError", "exc:TemplateAssertionError"):
                    ctl_out = render_outcome(env, cache, ctl, {"t": lib_t})
                    if ctl_out.replace("nosuchattr_zz", n) != out:
                        bad = (f"the underscore name {n!r} of the imported module is distinguishable from a missing name: "
                               f"{out[:70]!r} vs {ctl_out[:50]!r}")
                if bad:
                    reject_once(ctx, case, f"{tmpl!r} ({cname}, {mode}): {bad}", f"C17:import:{form}:{n}")
                else:
                    ctx.validated()


RENDER_CONFIGS = ("", "", "immutable", "autoescape", "noopt", "overlay")
RENDER_ENTRIES = ("render", "generate", "stream", "render_async", "make_module")


def make_render_envs():
    """sandboxed environments per (mode, configuration): the plain one, the immutable class, autoescape, the
    unoptimized compile, an overlay; all with the do / i18n / loopcontrols extensions"""
    from jinja2.sandbox import ImmutableSandboxedEnvironment, SandboxedEnvironment
    ext = ["jinja2.ext.do", "jinja2.ext.i18n", "jinja2.ext.loopcontrols"]
    envs = {}
    for mode in ("sync", "async"):
        kw = dict(enable_async=(mode == "async"), extensions=ext)
        base = SandboxedEnvironment(**kw)
        variants = {"": base, "immutable": ImmutableSandboxedEnvironment(**kw), "autoescape": SandboxedEnvironment(autoescape=True, **kw),
                    "noopt": SandboxedEnvironment(optimized=False, **kw), "overlay": base.overlay(trim_blocks=True)}
        for cfg, e in variants.items():
            e.install_null_translations()
            envs[mode if cfg == "" else mode + ":" + cfg] = (e, {})
    return envs


def fresh_env_like(key):
    from jinja2.sandbox import ImmutableSandboxedEnvironment, SandboxedEnvironment
    mode, _, cfg = key.partition(":")
    kw = dict(enable_async=(mode == "async"), extensions=["jinja2.ext.do", "jinja2.ext.i18n", "jinja2.ext.loopcontrols"])
    e = {"": lambda: SandboxedEnvironment(**kw), "immutable": lambda: ImmutableSandboxedEnvironment(**kw),
         "autoescape": lambda: SandboxedEnvironment(autoescape=True, **kw), "noopt": lambda: SandboxedEnvironment(optimized=False, **kw),
         "overlay": lambda: SandboxedEnvironment(**kw).overlay(trim_blocks=True)}[cfg]()
    e.install_null_translations()
    return e


def run(ctx):
    jinja2 = lib.use_repo_jinja()
    from jinja2.sandbox import SandboxedEnvironment
    ctx.extra["rule"] = RULE
    ctx.assumptions += [
        "objects are trees of (type tag, attribute map, item map): getattr / obj[key] have no side effects that expose other objects (properties are evaluated by the sandbox before the check; their value is not handed out)",
        "the type tag of an object is the branch of is_internal_attribute's isinstance chain it takes (computed in the harness with the same isinstance tests)",
        "C-level types expose only the attributes dir() lists (K-attr enumerates them on the running interpreter)",
        "an Undefined / SecurityError-undefined gives no access to the object it was created for (Undefined has no public attributes)",
    ]
    import time as _time
    _t0 = _time.time()
    timing = ctx.extra.setdefault("timing_s", {})

    def lap(name):
        nonlocal _t0
        timing[name] = round(_time.time() - _t0, 1)
        _t0 = _time.time()
    # T5: the current source of is_internal_attribute, is_safe_attribute, getattr and getitem, interpreted
    # in Coq, equals the model functions for every table, object tree and name / key.  coqc compiles the
    # regenerated files in worker threads while the proof re-check and the streams run; every obligation
    # is compiled on every run and joined (and judged) at the end of run()
    finish_equations = sbx_src_tie.start_source_equations_paths(ctx)
    # regenerated routing decision table of the compiler's visitors (what C17_codegen_no_raw_attr relies on)
    finish_routes = sbx_src_tie.start_routing_table(ctx)
    lap("translate_source")
    ctx.proof("C17")
    lap("proof")
    facts = regenerate(ctx)
    lap("regenerated_tables")
    env = SandboxedEnvironment()
    if facts is not None:
        k_attr(ctx, facts, env)
        k_rt_single(ctx, facts, env)
        k_rt_paths(ctx, facts, env)
    lap("k_attr_rt_paths")
    k_gen(ctx, jinja2, ctx.size(1000, 15000), ctx.size(200, 2500), "C17")
    lap("k_gen")
    envs = make_render_envs()
    names = ob.PRIVATE_NAMES + ob.PUBLIC_NAMES
    for (b, _), n, path, mode in itertools.product(ob.BASES, names, ob.ACCESS, ("sync", "async")):
        if ctx.tier != "thorough" and mode == "async" and path not in ("dot", "format-attr", "map-attribute", "attr-filter", "call", "format-stored"):
            continue
        if "%(b)s" not in ob.ACCESS[path] and b != "o":
            continue          # a path with a fixed base object is one case, not one per base
        h = hash_of(b, n, path, mode)
        if ctx.tier != "thorough" and path not in CORE_PATHS and (h % 24 != 0 or b in SECONDARY_BASES):
            continue          # quick tier: secondary bases along the core paths only
        if ctx.tier != "thorough" and path in CORE_PATHS and b in SECONDARY_BASES and h % 2 != 0:
            continue          # quick tier: the core paths for every (base, name), the other paths sampled
        case = {"kind": "render", "base": b, "name": n, "path": path, "mode": mode,
                "config": RENDER_CONFIGS[h % len(RENDER_CONFIGS)], "entry": RENDER_ENTRIES[(h // 7) % len(RENDER_ENTRIES)],
                "fresh": h % 40 == 0}
        ok = judge_render(ctx, envs, case)
        ctx.count("config_" + (case["config"] or "default"))
        ctx.count("entry_" + case["entry"])
        nontriv = case.get("exists") and case.get("unsafe")
        ctx.case(sample=case if nontriv and path == "format-stored" else None,
                 key=("render", b, n, path, mode) if nontriv else None)
        ctx.count("render_" + mode)
        if ok:
            ctx.validated()


    lap("render_stream")
    literal_stream(ctx)
    lap("literal_stream")
    import_stream(ctx)
    lap("import_stream")
    for path, mode in itertools.product(ob.HOST_FORMAT, ("sync", "async")):
        case = {"kind": "host-format", "path": path, "mode": mode}
        ok = judge_host_format(ctx, envs, case)
        ctx.case(sample=case if path == "dict-item" else None, key=("host-format", path, mode))
        ctx.count("render_host_format_" + mode)
        if ok:
            ctx.validated()
    lap("host_format_stream")
    finish_equations()
    finish_routes()
    lap("wait_for_source_equations_and_routes")


def replay(ctx, data):
    jinja2 = lib.use_repo_jinja()
    case = data.get("case")
    if data.get("kind") != "failing-input" or case is None:
        print("replay: names a broken theorem/correspondence:", data.get("broken"))
        return run(ctx)
    from jinja2.sandbox import SandboxedEnvironment
    kind = case.get("kind")
    if kind == "render":
        judge_render(ctx, make_render_envs(), {k: case[k] for k in ("kind", "base", "name", "path", "mode", "config", "entry") if k in case})
    elif kind == "literal":
        judge_literal(ctx, make_literal_envs(), {k: case[k] for k in ("kind", "literal", "chain", "form", "wrap", "env", "mode")})
    elif kind == "host-format":
        judge_host_format(ctx, make_render_envs(), {k: case[k] for k in ("kind", "path", "mode")})
    elif kind == "access":
        env = SandboxedEnvironment()
        from jinja2 import filters as jf
        av, iv = ob.Val("ATTR"), ob.Val("ITEM")
        o = ob.make_obj(case["object"], case["name"], case["attr"], case["item"], av, iv)
        if o is None:
            o = ob.real_objects()[0][case["object"]]
        fn = {"ga": lambda: env.getattr(o, case["name"]), "gi": lambda: env.getitem(o, case["name"]),
              "gi-strsubclass": lambda: env.getitem(o, ob.StrSub("pubkey", case["name"])),
              "da": lambda: jf.do_attr(env, o, case["name"])}[case["fn"]]
        r, exc = ob.call_classified(fn)
        real = exc or ob.classify(r, getattr(o, case["name"], None), iv)
        print("real result class:", real)
        of = api_oracle(case["name"], "value" if real == "handout" and case["attr"] != "none" and case["item"] == "0" else real)
        if of:
            ctx.reject(case, of, None)
    elif kind in ("template", "expr"):
        envs = make_codegen_envs(jinja2)
        if kind == "expr":
            real, code = cg.real_skeleton(envs[(case["sandboxed"], case["async"])], case["expr"])
            print("real skeleton:", real)
            if case["sandboxed"] and any(x in real for x in ("RAWATTR", "RAWSUB", "DIRECTCALL", "CTXCALL")):
                ctx.reject(case, "sandboxed compile contains a raw operation on a template value: " + real[:200], None)
        else:
            m = eval(case["mode"]) if case["mode"].startswith("(") else case["mode"]  # noqa: S307 - "(1, 0)" literal written by run()
            problems, counts = cg.scan_generated(envs[m].compile(case["template"], raw=True), sandboxed=True)
            print("scan:", problems[:5], counts)
            if problems:
                ctx.reject(case, f"generated sandboxed code operates on a template value outside the sandbox: {problems[0]}", None)
    else:
        print("replay: case kind", kind, "is re-checked by the full run")
        return run(ctx)
    print("replayed ->", "rejected" if ctx.violations else "accepted")
