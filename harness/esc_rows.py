"""C15: taint rows of ALL built-in filters, observed on the running jinja2.

For every filter in jinja2.filters.FILTERS one or more call shapes (SPECS) are run under an eval
context with autoescape on, once per combination of taints of the string-valued positions
(plain str with a metacharacter payload / Markup with clean text).  Observed per case:
  (taints, result is Markup?, flow per position: "esc" | "raw" | "none")
and, as a direct oracle, what the output path would emit for the result (escape(result)) must be
Clean once the documented markup of urlize / xmlattr / tojson is set aside, and must not contain a
payload raw.

EXPECTED is the row table of the model (frozen observation of the pinned tree after the `fix:`
commits); a filter of the running jinja2 that is missing from SPECS / EXPECTED is a broken tie.
"""
from __future__ import annotations

import itertools
import re
import types

PAY = ['<pAyLoAd0>&"\'', "<pAyLoAd1>'", '<pAyLoAd2>"']
SAFE = ["sAfE0 &lt;ok&gt;", "sAfE1 &amp;", "sAfE2"]

S = "S"      # a taintable string position
# value kinds: S | ("ls",) list of two S | ("ds",) dict {"k": S} | ("ns",) [namespace(k=S)] | ("fmt",) S + " %s|%s"
#              | ("lines",) "a\n" + S + "\nb" | ("url",) "see http://x.example/ " + S | ("long",) S * 3 | fixed value
SPECS = {
    "abs": [(-3, [], {})],
    "attr": [(("obj",), ["k"], {})],
    "batch": [(("ls",), [2, S], {})],
    "capitalize": [(S, [], {})],
    "center": [(S, [60], {})],
    "count": [(S, [], {})],
    "d": [(S, [S], {}), (("undef",), [S], {})],
    "default": [(S, [S], {}), (("undef",), [S], {}), (("empty",), [S, True], {})],
    "dictsort": [(("ds",), [], {})],
    "e": [(S, [], {})],
    "escape": [(S, [], {})],
    "filesizeformat": [(123456, [], {})],
    "first": [(S, [], {}), (("ls",), [], {})],
    "float": [(S, [], {})],
    "forceescape": [(S, [], {})],
    "format": [(("fmt",), [S, S], {})],
    "groupby": [(("ns",), ["k"], {})],
    "indent": [(("lines",), [S], {}), (("lines",), [S, True, True], {})],
    "int": [(S, [], {})],
    "join": [(("ls",), [S], {}), (("ls",), [], {})],
    "last": [(S, [], {}), (("ls",), [], {})],
    "length": [(S, [], {})],
    "list": [(S, [], {})],
    "lower": [(S, [], {})],
    "items": [(("ds",), [], {})],
    "map": [(("ls",), ["upper"], {}), (("ns",), [], {"attribute": "k"})],
    "min": [(("ls",), [], {})],
    "max": [(("ls",), [], {})],
    "pprint": [(S, [], {})],
    "random": [(("ls",), [], {})],
    "reject": [(("ls",), ["none"], {})],
    "rejectattr": [(("ns",), ["k", "none"], {})],
    "replace": [(S, [S, S], {}), (("rep",), ["zz", S], {})],
    "reverse": [(S, [], {})],
    "round": [(2.5, [], {})],
    "safe": [(S, [], {})],
    "select": [(("ls",), ["string"], {})],
    "selectattr": [(("ns",), ["k"], {})],
    "slice": [(("ls",), [2, S], {})],
    "sort": [(("ls",), [], {})],
    "string": [(S, [], {})],
    "striptags": [(S, [], {})],
    "sum": [([1, 2], [], {})],
    "title": [(S, [], {})],
    "trim": [(S, [], {}), (S, [S], {})],
    "truncate": [(("long",), [30, True, S], {}), (("long",), [30, False, S, 0], {})],
    "unique": [(("ls",), [], {})],
    "upper": [(S, [], {})],
    "urlencode": [(S, [], {})],
    "urlize": [(("url",), [], {}), (("url",), [], {"rel": S, "target": S}), (("url",), [10, True], {})],
    "wordcount": [(S, [], {})],
    "wordwrap": [(("long",), [7, True, S], {}), (("long",), [7], {})],
    "xmlattr": [(("ds",), [], {})],
    "tojson": [(S, [], {}), (("ds",), [], {})],
}

EXPLICIT_OPT_OUT = {"safe"}      # the documented way to mark a value safe


def positions(spec):
    value, args, kwargs = spec
    pos = []
    if value == S or (isinstance(value, tuple) and value[0] in ("ls", "ds", "ns", "obj", "fmt", "lines", "url", "long", "rep")):
        pos.append("v")
    pos += [("a", i) for i, a in enumerate(args) if a == S]
    pos += [("k", k) for k, a in sorted(kwargs.items()) if a == S]
    return pos


CARRIERS = ("list", "tuple", "dict", "obj", "strsub")


class _StrObj:
    """an object that is not a string but whose text is the payload"""

    def __init__(self, v):
        self.v = v

    def __str__(self):
        return self.v

    def __repr__(self):
        return "O(" + self.v + ")"


class _StrSub(str):
    """a plain str subclass (no __html__)"""


def carry(kind, s):
    if kind == "list":
        return [s, "b"]
    if kind == "tuple":
        return (s, 1)
    if kind == "dict":
        return {"k": s}
    if kind == "obj":
        return _StrObj(s)
    if kind == "strsub":
        return _StrSub(s)
    raise ValueError(kind)


def build(jinja2, spec, taints, carrier=None):
    from markupsafe import Markup
    value, args, kwargs = spec
    pos = positions(spec)
    tmap = dict(zip(pos, taints))
    idx = {p: i for i, p in enumerate(pos)}

    def s_for(p):
        i = idx[p]
        if tmap[p]:
            return Markup(SAFE[i])
        return carry(carrier, "x " + PAY[i]) if carrier else "x " + PAY[i]

    def wrap(kind, base):
        if not isinstance(base, str):
            return base
        cls = Markup if isinstance(base, Markup) else str
        if kind == "fmt":
            return base + cls(" %s|%s")
        if kind == "lines":
            return cls("a\n") + base + cls("\nb\n\nc")
        if kind == "url":
            return cls("see http://x.example/a?b=1 ") + base
        if kind == "long":
            return base + cls(" ") + base + cls(" ") + base
        if kind == "rep":
            return cls("zz ") + base + cls(" zz")
        raise ValueError(kind)

    if value == S:
        v = s_for("v")
    elif isinstance(value, tuple):
        k = value[0]
        if k == "undef":
            v = jinja2.Undefined(name="missing")
        elif k == "empty":
            v = ""
        else:
            b = s_for("v")
            if k == "ls":
                v = [b, (b + ("" if not isinstance(b, Markup) else Markup("")) + "2") if isinstance(b, str) else b]
            elif k == "ds":
                v = {"k": b}
            elif k == "ns":
                v = [types.SimpleNamespace(k=b), types.SimpleNamespace(k=b)]
            elif k == "obj":
                v = types.SimpleNamespace(k=b)
            else:
                v = wrap(k, b)
    else:
        v = value
    a = [s_for(("a", i)) if x == S else x for i, x in enumerate(args)]
    kw = {k: (s_for(("k", k)) if x == S else x) for k, x in kwargs.items()}
    return v, a, kw, pos


def strip_documented(name, text):
    if name == "urlize":
        text = re.sub(r'<a href="[^"<>]*"(?: rel="[^"<>]*")?(?: target="[^"<>]*")?>', " ", text)
        text = text.replace("</a>", " ")
    elif name == "xmlattr":
        text = re.sub(r'([^\s"\'<>=/]+)="([^"]*)"', r"\1 \2", text)
    elif name == "tojson":
        text = text.replace('"', " ")
    return text


def is_clean(text):
    return not any(c in text for c in "<>\"'")


def observe(jinja2, name, spec, taints, env=None, ctx=None, carrier=None):
    """-> dict(is_mk, flows, emitted, error)"""
    from markupsafe import Markup, escape
    env = env or jinja2.Environment(autoescape=True)
    tctx = ctx or env.from_string("").new_context({})
    ectx = tctx.eval_ctx
    ectx.autoescape = True
    v, a, kw, pos = build(jinja2, spec, taints, carrier)
    try:
        import random as _random
        _random.seed(7)
        r = env.call_filter(name, v, a, kw, context=tctx, eval_ctx=ectx)
        if not isinstance(r, str) and hasattr(r, "__iter__") and not isinstance(r, (dict, list, tuple)):
            r = list(r)
        is_mk = isinstance(r, Markup) or (hasattr(r, "__html__") and not isinstance(r, str))
        emitted = str(escape(r))
    except Exception as e:
        return {"error": type(e).__name__, "is_mk": False, "flows": ["none"] * len(pos), "emitted": ""}
    low = emitted.lower()
    raw_text = str(r).lower()
    flows = []
    for i, p in enumerate(pos):
        if taints[i]:
            flows.append("raw" if f"safe{i}" in raw_text else "none")
        else:
            if f"<payload{i}>" in raw_text:
                flows.append("raw")
            elif f"&lt;payload{i}&gt;" in raw_text:
                flows.append("esc")
            else:
                flows.append("none")
    return {"error": None, "is_mk": bool(is_mk), "flows": flows, "emitted": emitted}


def all_cases(jinja2):
    """yield (filter name, variant index, spec, taints) for every filter of the running jinja2;
    names without a spec are yielded with spec None"""
    from jinja2.filters import FILTERS
    for name in sorted(FILTERS):
        specs = SPECS.get(name)
        if specs is None:
            yield name, 0, None, ()
            continue
        for vi, spec in enumerate(specs):
            n = len(positions(spec))
            for taints in itertools.product((False, True), repeat=n):
                yield name, vi, spec, taints


def key(name, vi, taints, carrier=None):
    return f"{name}#{vi}:" + "".join("M" if t else "p" for t in taints) + ("@" + carrier if carrier else "")


def carrier_cases(jinja2):
    """every filter call shape again with each plain string position replaced by a NON-string value
    carrying the payload (list / tuple / dict / object with __str__ / str subclass); all-plain taints"""
    from jinja2.filters import FILTERS
    for name in sorted(FILTERS):
        for vi, spec in enumerate(SPECS.get(name) or []):
            n = len(positions(spec))
            if n == 0:
                continue
            for c in CARRIERS:
                yield name, vi, spec, (False,) * n, c


def coq_table(rows):
    """rows: list of (key, taints, is_mk, flows) -> Coq text of a list of (rcase)"""
    fl = {"esc": "FlEsc", "raw": "FlRaw", "none": "FlNone"}
    items = []
    for k, taints, is_mk, flows in rows:
        t = "[" + "; ".join("true" if x else "false" for x in taints) + "]"
        f = "[" + "; ".join(fl[x] for x in flows) + "]"
        items.append(f"  ({t}, {'true' if is_mk else 'false'}, {f}) (* {k} *)")
    return "[\n" + ";\n".join(items) + "\n]"


# key -> (result is Markup, flows e=through escape r=raw copy n=none)
EXPECTED = {'abs#0:': (False, ''),
 'attr#0:M': (True, 'r'),
 'attr#0:p': (False, 'r'),
 'batch#0:MM': (False, 'rn'),
 'batch#0:Mp': (False, 'rn'),
 'batch#0:pM': (False, 'rn'),
 'batch#0:pp': (False, 'rn'),
 'capitalize#0:M': (True, 'r'),
 'capitalize#0:p': (False, 'r'),
 'center#0:M': (True, 'r'),
 'center#0:p': (False, 'r'),
 'count#0:M': (False, 'n'),
 'count#0:p': (False, 'n'),
 'd#0:MM': (True, 'rn'),
 'd#0:Mp': (True, 'rn'),
 'd#0:pM': (False, 'rn'),
 'd#0:pp': (False, 'rn'),
 'd#1:M': (True, 'r'),
 'd#1:p': (False, 'r'),
 'default#0:MM': (True, 'rn'),
 'default#0:Mp': (True, 'rn'),
 'default#0:pM': (False, 'rn'),
 'default#0:pp': (False, 'rn'),
 'default#1:M': (True, 'r'),
 'default#1:p': (False, 'r'),
 'default#2:M': (True, 'r'),
 'default#2:p': (False, 'r'),
 'dictsort#0:M': (False, 'r'),
 'dictsort#0:p': (False, 'r'),
 'e#0:M': (True, 'r'),
 'e#0:p': (True, 'e'),
 'escape#0:M': (True, 'r'),
 'escape#0:p': (True, 'e'),
 'filesizeformat#0:': (False, ''),
 'first#0:M': (False, 'n'),
 'first#0:p': (False, 'n'),
 'first#1:M': (True, 'r'),
 'first#1:p': (False, 'r'),
 'float#0:M': (False, 'n'),
 'float#0:p': (False, 'n'),
 'forceescape#0:M': (True, 'r'),
 'forceescape#0:p': (True, 'e'),
 'format#0:MMM': (True, 'rrr'),
 'format#0:MMp': (True, 'rre'),
 'format#0:MpM': (True, 'rer'),
 'format#0:Mpp': (True, 'ree'),
 'format#0:pMM': (False, 'rrr'),
 'format#0:pMp': (False, 'rrr'),
 'format#0:ppM': (False, 'rrr'),
 'format#0:ppp': (False, 'rrr'),
 'groupby#0:M': (False, 'r'),
 'groupby#0:p': (False, 'r'),
 'indent#0:MM': (True, 'rr'),
 'indent#0:Mp': (True, 're'),
 'indent#0:pM': (False, 'er'),
 'indent#0:pp': (False, 'rr'),
 'indent#1:MM': (True, 'rr'),
 'indent#1:Mp': (True, 're'),
 'indent#1:pM': (True, 'er'),
 'indent#1:pp': (False, 'rr'),
 'int#0:M': (False, 'n'),
 'int#0:p': (False, 'n'),
 'items#0:M': (False, 'r'),
 'items#0:p': (False, 'r'),
 'join#0:MM': (True, 'rr'),
 'join#0:Mp': (True, 're'),
 'join#0:pM': (True, 'er'),
 'join#0:pp': (False, 'rr'),
 'join#1:M': (True, 'r'),
 'join#1:p': (False, 'r'),
 'last#0:M': (True, 'n'),
 'last#0:p': (False, 'n'),
 'last#1:M': (True, 'r'),
 'last#1:p': (False, 'r'),
 'length#0:M': (False, 'n'),
 'length#0:p': (False, 'n'),
 'list#0:M': (False, 'n'),
 'list#0:p': (False, 'n'),
 'lower#0:M': (True, 'r'),
 'lower#0:p': (False, 'r'),
 'map#0:M': (False, 'r'),
 'map#0:p': (False, 'r'),
 'map#1:M': (False, 'r'),
 'map#1:p': (False, 'r'),
 'max#0:M': (True, 'r'),
 'max#0:p': (False, 'r'),
 'min#0:M': (True, 'r'),
 'min#0:p': (False, 'r'),
 'pprint#0:M': (False, 'r'),
 'pprint#0:p': (False, 'r'),
 'random#0:M': (True, 'r'),
 'random#0:p': (False, 'r'),
 'reject#0:M': (False, 'r'),
 'reject#0:p': (False, 'r'),
 'rejectattr#0:M': (False, 'r'),
 'rejectattr#0:p': (False, 'r'),
 'replace#0:MMM': (True, 'rnn'),
 'replace#0:MMp': (True, 'rnn'),
 'replace#0:MpM': (True, 'rnn'),
 'replace#0:Mpp': (True, 'rnn'),
 'replace#0:pMM': (True, 'enn'),
 'replace#0:pMp': (True, 'enn'),
 'replace#0:ppM': (True, 'enn'),
 'replace#0:ppp': (False, 'rnn'),
 'replace#1:MM': (True, 'rr'),
 'replace#1:Mp': (True, 're'),
 'replace#1:pM': (True, 'er'),
 'replace#1:pp': (False, 'rr'),
 'reverse#0:M': (True, 'n'),
 'reverse#0:p': (False, 'n'),
 'round#0:': (False, ''),
 'safe#0:M': (True, 'r'),
 'safe#0:p': (True, 'r'),
 'select#0:M': (False, 'r'),
 'select#0:p': (False, 'r'),
 'selectattr#0:M': (False, 'r'),
 'selectattr#0:p': (False, 'r'),
 'slice#0:MM': (False, 'rn'),
 'slice#0:Mp': (False, 'rn'),
 'slice#0:pM': (False, 'rn'),
 'slice#0:pp': (False, 'rn'),
 'sort#0:M': (False, 'r'),
 'sort#0:p': (False, 'r'),
 'string#0:M': (True, 'r'),
 'string#0:p': (False, 'r'),
 'striptags#0:M': (False, 'r'),
 'striptags#0:p': (False, 'n'),
 'sum#0:': (False, ''),
 'title#0:M': (False, 'r'),
 'title#0:p': (False, 'r'),
 'tojson#0:M': (True, 'r'),
 'tojson#0:p': (True, 'n'),
 'tojson#1:M': (True, 'r'),
 'tojson#1:p': (True, 'n'),
 'trim#0:M': (True, 'r'),
 'trim#0:p': (False, 'r'),
 'trim#1:MM': (True, 'nn'),
 'trim#1:Mp': (True, 'rn'),
 'trim#1:pM': (False, 'rn'),
 'trim#1:pp': (False, 'nn'),
 'truncate#0:MM': (True, 'rr'),
 'truncate#0:Mp': (True, 're'),
 'truncate#0:pM': (True, 'er'),
 'truncate#0:pp': (False, 'rr'),
 'truncate#1:MM': (True, 'rr'),
 'truncate#1:Mp': (True, 're'),
 'truncate#1:pM': (True, 'er'),
 'truncate#1:pp': (False, 'rr'),
 'unique#0:M': (False, 'r'),
 'unique#0:p': (False, 'r'),
 'upper#0:M': (True, 'r'),
 'upper#0:p': (False, 'r'),
 'urlencode#0:M': (False, 'r'),
 'urlencode#0:p': (False, 'n'),
 'urlize#0:M': (True, 'r'),
 'urlize#0:p': (True, 'e'),
 'urlize#1:MMM': (True, 'rrr'),
 'urlize#1:MMp': (True, 'rre'),
 'urlize#1:MpM': (True, 'rer'),
 'urlize#1:Mpp': (True, 'ree'),
 'urlize#1:pMM': (True, 'err'),
 'urlize#1:pMp': (True, 'ere'),
 'urlize#1:ppM': (True, 'eer'),
 'urlize#1:ppp': (True, 'eee'),
 'urlize#2:M': (True, 'r'),
 'urlize#2:p': (True, 'e'),
 'wordcount#0:M': (False, 'n'),
 'wordcount#0:p': (False, 'n'),
 'wordwrap#0:MM': (True, 'rr'),
 'wordwrap#0:Mp': (False, 'rr'),
 'wordwrap#0:pM': (True, 'nr'),
 'wordwrap#0:pp': (False, 'nr'),
 'wordwrap#1:M': (False, 'r'),
 'wordwrap#1:p': (False, 'n'),
 'xmlattr#0:M': (True, 'r'),
 'xmlattr#0:p': (True, 'e')}

# rows with non-string carriers of the payload: key -> (result is Markup, flows) | ('error', exception class)
EXPECTED_CARRIERS = {'attr#0:p@dict': (False, 'r'),
 'attr#0:p@list': (False, 'r'),
 'attr#0:p@obj': (False, 'r'),
 'attr#0:p@strsub': (False, 'r'),
 'attr#0:p@tuple': (False, 'r'),
 'batch#0:pp@dict': (False, 'rn'),
 'batch#0:pp@list': (False, 'rn'),
 'batch#0:pp@obj': (False, 'rn'),
 'batch#0:pp@strsub': (False, 'rn'),
 'batch#0:pp@tuple': (False, 'rn'),
 'capitalize#0:p@dict': (False, 'r'),
 'capitalize#0:p@list': (False, 'r'),
 'capitalize#0:p@obj': (False, 'r'),
 'capitalize#0:p@strsub': (False, 'r'),
 'capitalize#0:p@tuple': (False, 'r'),
 'center#0:p@dict': (False, 'r'),
 'center#0:p@list': (False, 'r'),
 'center#0:p@obj': (False, 'r'),
 'center#0:p@strsub': (False, 'r'),
 'center#0:p@tuple': (False, 'r'),
 'count#0:p@dict': (False, 'n'),
 'count#0:p@list': (False, 'n'),
 'count#0:p@obj': ('error', 'TypeError'),
 'count#0:p@strsub': (False, 'n'),
 'count#0:p@tuple': (False, 'n'),
 'd#0:pp@dict': (False, 'rn'),
 'd#0:pp@list': (False, 'rn'),
 'd#0:pp@obj': (False, 'rn'),
 'd#0:pp@strsub': (False, 'rn'),
 'd#0:pp@tuple': (False, 'rn'),
 'd#1:p@dict': (False, 'r'),
 'd#1:p@list': (False, 'r'),
 'd#1:p@obj': (False, 'r'),
 'd#1:p@strsub': (False, 'r'),
 'd#1:p@tuple': (False, 'r'),
 'default#0:pp@dict': (False, 'rn'),
 'default#0:pp@list': (False, 'rn'),
 'default#0:pp@obj': (False, 'rn'),
 'default#0:pp@strsub': (False, 'rn'),
 'default#0:pp@tuple': (False, 'rn'),
 'default#1:p@dict': (False, 'r'),
 'default#1:p@list': (False, 'r'),
 'default#1:p@obj': (False, 'r'),
 'default#1:p@strsub': (False, 'r'),
 'default#1:p@tuple': (False, 'r'),
 'default#2:p@dict': (False, 'r'),
 'default#2:p@list': (False, 'r'),
 'default#2:p@obj': (False, 'r'),
 'default#2:p@strsub': (False, 'r'),
 'default#2:p@tuple': (False, 'r'),
 'dictsort#0:p@dict': (False, 'r'),
 'dictsort#0:p@list': (False, 'r'),
 'dictsort#0:p@obj': (False, 'r'),
 'dictsort#0:p@strsub': (False, 'r'),
 'dictsort#0:p@tuple': (False, 'r'),
 'e#0:p@dict': (True, 'e'),
 'e#0:p@list': (True, 'e'),
 'e#0:p@obj': (True, 'e'),
 'e#0:p@strsub': (True, 'e'),
 'e#0:p@tuple': (True, 'e'),
 'escape#0:p@dict': (True, 'e'),
 'escape#0:p@list': (True, 'e'),
 'escape#0:p@obj': (True, 'e'),
 'escape#0:p@strsub': (True, 'e'),
 'escape#0:p@tuple': (True, 'e'),
 'first#0:p@dict': (False, 'n'),
 'first#0:p@list': (False, 'r'),
 'first#0:p@obj': ('error', 'TypeError'),
 'first#0:p@strsub': (False, 'n'),
 'first#0:p@tuple': (False, 'r'),
 'first#1:p@dict': (False, 'r'),
 'first#1:p@list': (False, 'r'),
 'first#1:p@obj': (False, 'r'),
 'first#1:p@strsub': (False, 'r'),
 'first#1:p@tuple': (False, 'r'),
 'float#0:p@dict': (False, 'n'),
 'float#0:p@list': (False, 'n'),
 'float#0:p@obj': (False, 'n'),
 'float#0:p@strsub': (False, 'n'),
 'float#0:p@tuple': (False, 'n'),
 'forceescape#0:p@dict': (True, 'e'),
 'forceescape#0:p@list': (True, 'e'),
 'forceescape#0:p@obj': (True, 'e'),
 'forceescape#0:p@strsub': (True, 'e'),
 'forceescape#0:p@tuple': (True, 'e'),
 'format#0:ppp@dict': ('error', 'TypeError'),
 'format#0:ppp@list': ('error', 'TypeError'),
 'format#0:ppp@obj': ('error', 'TypeError'),
 'format#0:ppp@strsub': (False, 'rrr'),
 'format#0:ppp@tuple': ('error', 'TypeError'),
 'groupby#0:p@dict': ('error', 'TypeError'),
 'groupby#0:p@list': (False, 'r'),
 'groupby#0:p@obj': ('error', 'TypeError'),
 'groupby#0:p@strsub': (False, 'r'),
 'groupby#0:p@tuple': (False, 'r'),
 'indent#0:pp@dict': ('error', 'TypeError'),
 'indent#0:pp@list': ('error', 'TypeError'),
 'indent#0:pp@obj': ('error', 'TypeError'),
 'indent#0:pp@strsub': (False, 'rr'),
 'indent#0:pp@tuple': ('error', 'TypeError'),
 'indent#1:pp@dict': ('error', 'TypeError'),
 'indent#1:pp@list': ('error', 'TypeError'),
 'indent#1:pp@obj': ('error', 'TypeError'),
 'indent#1:pp@strsub': (False, 'rr'),
 'indent#1:pp@tuple': ('error', 'TypeError'),
 'int#0:p@dict': (False, 'n'),
 'int#0:p@list': (False, 'n'),
 'int#0:p@obj': (False, 'n'),
 'int#0:p@strsub': (False, 'n'),
 'int#0:p@tuple': (False, 'n'),
 'items#0:p@dict': (False, 'r'),
 'items#0:p@list': (False, 'r'),
 'items#0:p@obj': (False, 'r'),
 'items#0:p@strsub': (False, 'r'),
 'items#0:p@tuple': (False, 'r'),
 'join#0:pp@dict': (False, 'rr'),
 'join#0:pp@list': (False, 'rr'),
 'join#0:pp@obj': (False, 'rr'),
 'join#0:pp@strsub': (False, 'rr'),
 'join#0:pp@tuple': (False, 'rr'),
 'join#1:p@dict': (False, 'r'),
 'join#1:p@list': (False, 'r'),
 'join#1:p@obj': (False, 'r'),
 'join#1:p@strsub': (False, 'r'),
 'join#1:p@tuple': (False, 'r'),
 'last#0:p@dict': (False, 'n'),
 'last#0:p@list': (False, 'n'),
 'last#0:p@obj': ('error', 'TypeError'),
 'last#0:p@strsub': (False, 'n'),
 'last#0:p@tuple': (False, 'n'),
 'last#1:p@dict': (False, 'r'),
 'last#1:p@list': (False, 'r'),
 'last#1:p@obj': (False, 'r'),
 'last#1:p@strsub': (False, 'r'),
 'last#1:p@tuple': (False, 'r'),
 'length#0:p@dict': (False, 'n'),
 'length#0:p@list': (False, 'n'),
 'length#0:p@obj': ('error', 'TypeError'),
 'length#0:p@strsub': (False, 'n'),
 'length#0:p@tuple': (False, 'n'),
 'list#0:p@dict': (False, 'n'),
 'list#0:p@list': (False, 'r'),
 'list#0:p@obj': ('error', 'TypeError'),
 'list#0:p@strsub': (False, 'n'),
 'list#0:p@tuple': (False, 'r'),
 'lower#0:p@dict': (False, 'r'),
 'lower#0:p@list': (False, 'r'),
 'lower#0:p@obj': (False, 'r'),
 'lower#0:p@strsub': (False, 'r'),
 'lower#0:p@tuple': (False, 'r'),
 'map#0:p@dict': (False, 'r'),
 'map#0:p@list': (False, 'r'),
 'map#0:p@obj': (False, 'r'),
 'map#0:p@strsub': (False, 'r'),
 'map#0:p@tuple': (False, 'r'),
 'map#1:p@dict': (False, 'r'),
 'map#1:p@list': (False, 'r'),
 'map#1:p@obj': (False, 'r'),
 'map#1:p@strsub': (False, 'r'),
 'map#1:p@tuple': (False, 'r'),
 'max#0:p@dict': ('error', 'TypeError'),
 'max#0:p@list': (False, 'r'),
 'max#0:p@obj': ('error', 'TypeError'),
 'max#0:p@strsub': (False, 'r'),
 'max#0:p@tuple': (False, 'r'),
 'min#0:p@dict': ('error', 'TypeError'),
 'min#0:p@list': (False, 'r'),
 'min#0:p@obj': ('error', 'TypeError'),
 'min#0:p@strsub': (False, 'r'),
 'min#0:p@tuple': (False, 'r'),
 'pprint#0:p@dict': (False, 'r'),
 'pprint#0:p@list': (False, 'r'),
 'pprint#0:p@obj': (False, 'r'),
 'pprint#0:p@strsub': (False, 'r'),
 'pprint#0:p@tuple': (False, 'r'),
 'random#0:p@dict': (False, 'r'),
 'random#0:p@list': (False, 'r'),
 'random#0:p@obj': (False, 'r'),
 'random#0:p@strsub': (False, 'r'),
 'random#0:p@tuple': (False, 'r'),
 'reject#0:p@dict': (False, 'r'),
 'reject#0:p@list': (False, 'r'),
 'reject#0:p@obj': (False, 'r'),
 'reject#0:p@strsub': (False, 'r'),
 'reject#0:p@tuple': (False, 'r'),
 'rejectattr#0:p@dict': (False, 'r'),
 'rejectattr#0:p@list': (False, 'r'),
 'rejectattr#0:p@obj': (False, 'r'),
 'rejectattr#0:p@strsub': (False, 'r'),
 'rejectattr#0:p@tuple': (False, 'r'),
 'replace#0:ppp@dict': (False, 'rnn'),
 'replace#0:ppp@list': (False, 'rnn'),
 'replace#0:ppp@obj': (False, 'rnn'),
 'replace#0:ppp@strsub': (False, 'rnn'),
 'replace#0:ppp@tuple': (False, 'rnn'),
 'replace#1:pp@dict': (False, 'rn'),
 'replace#1:pp@list': (False, 'rn'),
 'replace#1:pp@obj': (False, 'rn'),
 'replace#1:pp@strsub': (False, 'rr'),
 'replace#1:pp@tuple': (False, 'rn'),
 'reverse#0:p@dict': (False, 'n'),
 'reverse#0:p@list': (False, 'r'),
 'reverse#0:p@obj': ('error', 'FilterArgumentError'),
 'reverse#0:p@strsub': (False, 'n'),
 'reverse#0:p@tuple': (False, 'r'),
 'safe#0:p@dict': (True, 'r'),
 'safe#0:p@list': (True, 'r'),
 'safe#0:p@obj': (True, 'r'),
 'safe#0:p@strsub': (True, 'r'),
 'safe#0:p@tuple': (True, 'r'),
 'select#0:p@dict': (False, 'n'),
 'select#0:p@list': (False, 'n'),
 'select#0:p@obj': (False, 'n'),
 'select#0:p@strsub': (False, 'r'),
 'select#0:p@tuple': (False, 'n'),
 'selectattr#0:p@dict': (False, 'r'),
 'selectattr#0:p@list': (False, 'r'),
 'selectattr#0:p@obj': (False, 'r'),
 'selectattr#0:p@strsub': (False, 'r'),
 'selectattr#0:p@tuple': (False, 'r'),
 'slice#0:pp@dict': (False, 'rn'),
 'slice#0:pp@list': (False, 'rn'),
 'slice#0:pp@obj': (False, 'rn'),
 'slice#0:pp@strsub': (False, 'rn'),
 'slice#0:pp@tuple': (False, 'rn'),
 'sort#0:p@dict': (False, 'r'),
 'sort#0:p@list': (False, 'r'),
 'sort#0:p@obj': (False, 'r'),
 'sort#0:p@strsub': (False, 'r'),
 'sort#0:p@tuple': (False, 'r'),
 'string#0:p@dict': (False, 'r'),
 'string#0:p@list': (False, 'r'),
 'string#0:p@obj': (False, 'r'),
 'string#0:p@strsub': (False, 'r'),
 'string#0:p@tuple': (False, 'r'),
 'striptags#0:p@dict': (False, 'n'),
 'striptags#0:p@list': (False, 'n'),
 'striptags#0:p@obj': (False, 'n'),
 'striptags#0:p@strsub': (False, 'n'),
 'striptags#0:p@tuple': (False, 'n'),
 'title#0:p@dict': (False, 'r'),
 'title#0:p@list': (False, 'r'),
 'title#0:p@obj': (False, 'r'),
 'title#0:p@strsub': (False, 'r'),
 'title#0:p@tuple': (False, 'r'),
 'tojson#0:p@dict': (True, 'n'),
 'tojson#0:p@list': (True, 'n'),
 'tojson#0:p@obj': ('error', 'TypeError'),
 'tojson#0:p@strsub': (True, 'n'),
 'tojson#0:p@tuple': (True, 'n'),
 'tojson#1:p@dict': (True, 'n'),
 'tojson#1:p@list': (True, 'n'),
 'tojson#1:p@obj': ('error', 'TypeError'),
 'tojson#1:p@strsub': (True, 'n'),
 'tojson#1:p@tuple': (True, 'n'),
 'trim#0:p@dict': (False, 'r'),
 'trim#0:p@list': (False, 'r'),
 'trim#0:p@obj': (False, 'r'),
 'trim#0:p@strsub': (False, 'r'),
 'trim#0:p@tuple': (False, 'r'),
 'trim#1:pp@dict': ('error', 'TypeError'),
 'trim#1:pp@list': ('error', 'TypeError'),
 'trim#1:pp@obj': ('error', 'TypeError'),
 'trim#1:pp@strsub': (False, 'nn'),
 'trim#1:pp@tuple': ('error', 'TypeError'),
 'truncate#0:pp@dict': (False, 'rn'),
 'truncate#0:pp@list': (False, 'rn'),
 'truncate#0:pp@obj': ('error', 'TypeError'),
 'truncate#0:pp@strsub': (False, 'rr'),
 'truncate#0:pp@tuple': (False, 'rn'),
 'truncate#1:pp@dict': (False, 'rn'),
 'truncate#1:pp@list': (False, 'rn'),
 'truncate#1:pp@obj': ('error', 'TypeError'),
 'truncate#1:pp@strsub': (False, 'rr'),
 'truncate#1:pp@tuple': (False, 'rn'),
 'unique#0:p@dict': ('error', 'TypeError'),
 'unique#0:p@list': ('error', 'TypeError'),
 'unique#0:p@obj': (False, 'r'),
 'unique#0:p@strsub': (False, 'r'),
 'unique#0:p@tuple': (False, 'r'),
 'upper#0:p@dict': (False, 'r'),
 'upper#0:p@list': (False, 'r'),
 'upper#0:p@obj': (False, 'r'),
 'upper#0:p@strsub': (False, 'r'),
 'upper#0:p@tuple': (False, 'r'),
 'urlencode#0:p@dict': (False, 'n'),
 'urlencode#0:p@list': ('error', 'ValueError'),
 'urlencode#0:p@obj': (False, 'n'),
 'urlencode#0:p@strsub': (False, 'n'),
 'urlencode#0:p@tuple': ('error', 'ValueError'),
 'urlize#0:p@dict': (True, 'e'),
 'urlize#0:p@list': (True, 'e'),
 'urlize#0:p@obj': (True, 'e'),
 'urlize#0:p@strsub': (True, 'e'),
 'urlize#0:p@tuple': (True, 'e'),
 'urlize#1:ppp@dict': ('error', 'AttributeError'),
 'urlize#1:ppp@list': ('error', 'AttributeError'),
 'urlize#1:ppp@obj': ('error', 'AttributeError'),
 'urlize#1:ppp@strsub': (True, 'eee'),
 'urlize#1:ppp@tuple': ('error', 'AttributeError'),
 'urlize#2:p@dict': (True, 'e'),
 'urlize#2:p@list': (True, 'e'),
 'urlize#2:p@obj': (True, 'e'),
 'urlize#2:p@strsub': (True, 'e'),
 'urlize#2:p@tuple': (True, 'e'),
 'wordcount#0:p@dict': (False, 'n'),
 'wordcount#0:p@list': (False, 'n'),
 'wordcount#0:p@obj': (False, 'n'),
 'wordcount#0:p@strsub': (False, 'n'),
 'wordcount#0:p@tuple': (False, 'n'),
 'wordwrap#0:pp@dict': ('error', 'AttributeError'),
 'wordwrap#0:pp@list': ('error', 'AttributeError'),
 'wordwrap#0:pp@obj': ('error', 'AttributeError'),
 'wordwrap#0:pp@strsub': (False, 'nr'),
 'wordwrap#0:pp@tuple': ('error', 'AttributeError'),
 'wordwrap#1:p@dict': ('error', 'AttributeError'),
 'wordwrap#1:p@list': ('error', 'AttributeError'),
 'wordwrap#1:p@obj': ('error', 'AttributeError'),
 'wordwrap#1:p@strsub': (False, 'n'),
 'wordwrap#1:p@tuple': ('error', 'AttributeError'),
 'xmlattr#0:p@dict': (True, 'e'),
 'xmlattr#0:p@list': (True, 'e'),
 'xmlattr#0:p@obj': (True, 'e'),
 'xmlattr#0:p@strsub': (True, 'e'),
 'xmlattr#0:p@tuple': (True, 'e')}


# ------------------------------------------------------------------ built-in tests
# name -> (value kind, extra args); S = taintable string.  A test missing here is a broken tie.
CMP = ["!=", "<", "<=", "==", ">", ">=", "eq", "equalto", "ge", "greaterthan", "gt", "le", "lessthan", "lt", "ne", "sameas"]
TEST_SPECS = {n: (S, [S]) for n in CMP}
TEST_SPECS.update({n: (S, []) for n in ["boolean", "callable", "defined", "escaped", "false", "float", "integer", "iterable", "lower",
                                        "mapping", "none", "number", "sequence", "string", "true", "undefined", "upper"]})
TEST_SPECS.update({"divisibleby": (12, [3]), "even": (4, []), "odd": (3, []), "in": (S, [S]), "filter": ("upper", []), "test": ("odd", [])})


def test_cases(jinja2):
    from jinja2.tests import TESTS
    for name in sorted(TESTS):
        spec = TEST_SPECS.get(name)
        if spec is None:
            yield name, None, (), None
            continue
        value, args = spec
        n = (1 if value == S else 0) + sum(1 for a in args if a == S)
        for taints in itertools.product((False, True), repeat=n):
            yield name, spec, taints, None
        if n:
            for c in CARRIERS:
                yield name, spec, (False,) * n, c


def observe_test(jinja2, name, spec, taints, carrier, env, tctx):
    """a test answers with a bool: nothing of its arguments can reach the output"""
    from markupsafe import Markup
    value, args = spec
    it = iter(taints)
    idx = [0]

    def mk():
        t = next(it)
        i = idx[0]
        idx[0] += 1
        if t:
            return Markup(SAFE[i])
        s = "x " + PAY[i]
        return carry(carrier, s) if carrier else s
    v = mk() if value == S else value
    a = [mk() if x == S else x for x in args]
    try:
        r = env.call_test(name, v, a, context=tctx, eval_ctx=tctx.eval_ctx)
    except Exception as e:
        return ("error", type(e).__name__)
    return ("bool", bool(r)) if isinstance(r, bool) else ("other", type(r).__name__ + ":" + str(r)[:60])
