(* one case per line:  a|s <filter>,<filter>,... | <int> <int> ...
   prints  <result> guard=<0|1>   result: [1, 2] | 3 | undefined | [[1], [2]] | ERR *)
open Asy_x
let rec pos_of_int n = if n = 1 then XH else if n land 1 = 0 then XO (pos_of_int (n lsr 1)) else XI (pos_of_int (n lsr 1))
let z_of_int n = if n = 0 then Z0 else if n > 0 then Zpos (pos_of_int n) else Zneg (pos_of_int (-n))
let rec int_of_pos = function XH -> 1 | XO p -> 2 * int_of_pos p | XI p -> 2 * int_of_pos p + 1
let int_of_z = function Z0 -> 0 | Zpos p -> int_of_pos p | Zneg p -> - (int_of_pos p)
let filt_of = function
  | "map_abs" -> FMapAbs | "select_odd" -> FSelectOdd | "reject_odd" -> FRejectOdd | "list" -> FList | "first" -> FFirst
  | "sum" -> FSum | "join" -> FJoin | "unique" -> FUnique | "slice1" -> FSlice1 | "sort" -> FSort | "max" -> FMax
  | "min" -> FMin | "reverse" -> FReverse | "batch1" -> FBatch1 | "length" -> FLength
  | s -> failwith ("unknown filter " ^ s)
let show_list l = "[" ^ String.concat ", " (List.map (fun z -> string_of_int (int_of_z z)) l) ^ "]"
let () =
  try while true do
    let line = input_line stdin in
    match String.split_on_char '|' line with
    | [m; c; xs] ->
      let is_async = String.trim m = "a" in
      let chain = String.split_on_char ',' (String.trim c) |> List.filter (fun x -> x <> "") |> List.map filt_of in
      let items = String.split_on_char ' ' xs |> List.filter (fun x -> x <> "") |> List.map (fun x -> z_of_int (int_of_string x)) in
      let r = match run_chain is_async KSeq items chain with
        | RItems l -> show_list l | RScalar z -> string_of_int (int_of_z z) | RUndef -> "undefined"
        | RNested ls -> "[" ^ String.concat ", " (List.map show_list ls) ^ "]" | RErr -> "ERR" in
      print_endline (r ^ " guard=" ^ (if chain_guard false chain then "1" else "0"))
    | _ -> print_endline "?"
  done with End_of_file -> ()
