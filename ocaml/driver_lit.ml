(* C14 driver.  strings: comma-separated code points, '-' = empty.  Lines:
     N <limit> <prev|-> <cps>     number lexing  -> "<kind> <len> <value>  pyint=<hex|none> pyfloat=<0|1>"
                                  kind = int | float | none ; int value = hex of the value or ERR ;
                                  float value = code points of the spelling handed to dec2float
     S <nl cps> <cps body>        string conversion -> "ok <cps>" | "err <kind>"
     L <cps>                      string_re at the head -> "<len>" | "none"
     E <style> <q> <cps v>        literal spelling of v -> "<cps>"
     J <cps>|<cps>|...            parse_strings -> "<cps>" *)
open Lit_x
let rec pos_of_int n = if n = 1 then XH else if n land 1 = 0 then XO (pos_of_int (n lsr 1)) else XI (pos_of_int (n lsr 1))
let n_of_int n = if n = 0 then N0 else Npos (pos_of_int n)
let rec int_of_pos = function XH -> 1 | XO p -> 2 * int_of_pos p | XI p -> 2 * int_of_pos p + 1
let int_of_n = function N0 -> 0 | Npos p -> int_of_pos p
let rec int_of_nat = function O -> 0 | S n -> 1 + int_of_nat n
let str_of s = if s = "-" then [] else List.map (fun x -> n_of_int (int_of_string x)) (String.split_on_char ',' s)
let show_str l = if l = [] then "-" else String.concat "," (List.map (fun n -> string_of_int (int_of_n n)) l)
(* positive -> hex text (big values: bits, least significant first) *)
let rec bits = function XH -> [1] | XO p -> 0 :: bits p | XI p -> 1 :: bits p
let hex_of_pos p =
  let b = Array.of_list (bits p) in
  let n = Array.length b in
  let nd = (n + 3) / 4 in
  let buf = Bytes.make nd '0' in
  for i = 0 to nd - 1 do
    let v = ref 0 in
    for j = 3 downto 0 do let k = 4 * i + j in v := 2 * !v + (if k < n then b.(k) else 0) done;
    Bytes.set buf (nd - 1 - i) "0123456789abcdef".[!v]
  done;
  Bytes.to_string buf
let hex_of_z = function Z0 -> "0" | Zpos p -> hex_of_pos p | Zneg p -> "-" ^ hex_of_pos p
let style_of = function "repr" -> SRepr | "uni" -> SUni | "hex" -> SHex | "oct" -> SOct | s -> failwith s
let err = function ETruncated -> "truncated" | EIllegal -> "illegal" | EUnsupportedName -> "unsupported-name"
let () =
  try while true do
    let line = input_line stdin in
    match String.split_on_char ' ' line |> List.filter (fun x -> x <> "") with
    | [] -> print_endline ""
    | ["N"; lim; prev; s] ->
      let s = str_of s in
      let prev = if prev = "-" then None else Some (n_of_int (int_of_string prev)) in
      let spec = " pyint=" ^ (match py_int s with None -> "none" | Some z -> hex_of_z z)
                 ^ " pyfloat=" ^ (if py_float_ok s then "1" else "0") in
      (match lex_number prev s with
       | None -> print_endline ("none 0 -" ^ spec)
       | Some (KIntTok, n) ->
         let n = int_of_nat n in
         let tok = List.filteri (fun i _ -> i < n) s in
         let v = match jinja_int (n_of_int (int_of_string lim)) tok with Ok z -> hex_of_z z | SyntaxErr -> "ERR" in
         print_endline ("int " ^ string_of_int n ^ " " ^ v ^ spec)
       | Some (KFloatTok, n) ->
         let n = int_of_nat n in
         let tok = List.filteri (fun i _ -> i < n) s in
         print_endline ("float " ^ string_of_int n ^ " " ^ show_str (remove_us tok) ^ spec))
    | ["S"; nl; body] ->
      (match convert (str_of nl) (str_of body) with
       | Inl v -> print_endline ("ok " ^ show_str v)
       | Inr e -> print_endline ("err " ^ err e))
    | ["L"; s] -> (match lex_string (str_of s) with None -> print_endline "none" | Some n -> print_endline (string_of_int (int_of_nat n)))
    | ["E"; st; q; v] -> print_endline (show_str (literal (style_of st) (n_of_int (int_of_string q)) (str_of v)))
    | ["J"; parts] -> print_endline (show_str (parse_strings (List.map str_of (String.split_on_char '|' parts))))
    | _ -> failwith ("bad line " ^ line)
  done with End_of_file -> ()
