(* one case per line:   <cls> | <try> ; <try> ; ...        (innermost try first)
     cls   = u<n>.u<m>.<Builtin>      user classes derived (left = most derived) from a builtin
     try   = <clause> / <clause> ...  (the except clauses in order; "-" = a try without clauses)
     clause= <Builtin>,<Builtin>,...><kind>      kind = R | V | U | P | O:<Builtin>
   prints  same | other:<Builtin or user> | swallowed ,  then " foreign=<b>" *)
open Exn_x
let rec pos_of_int n = if n = 1 then XH else if n land 1 = 0 then XO (pos_of_int (n lsr 1)) else XI (pos_of_int (n lsr 1))
let n_of_int n = if n = 0 then N0 else Npos (pos_of_int n)
let builtin = function
  | "BaseException" -> E_BaseException | "Exception" -> E_Exception | "LookupError" -> E_LookupError
  | "KeyError" -> E_KeyError | "IndexError" -> E_IndexError | "AttributeError" -> E_AttributeError
  | "TypeError" -> E_TypeError | "ValueError" -> E_ValueError | "UnicodeError" -> E_UnicodeError
  | "StopIteration" -> E_StopIteration | "StopAsyncIteration" -> E_StopAsyncIteration
  | "ArithmeticError" -> E_ArithmeticError | "OverflowError" -> E_OverflowError
  | "ZeroDivisionError" -> E_ZeroDivisionError | "RuntimeError" -> E_RuntimeError
  | "RecursionError" -> E_RecursionError | "NotImplementedError" -> E_NotImplementedError
  | "ImportError" -> E_ImportError | "OSError" -> E_OSError | "SyntaxError" -> E_SyntaxError
  | "MemoryError" -> E_MemoryError | "AssertionError" -> E_AssertionError | "NameError" -> E_NameError
  | "GeneratorExit" -> E_GeneratorExit | "KeyboardInterrupt" -> E_KeyboardInterrupt
  | "SystemExit" -> E_SystemExit | "CancelledError" -> E_CancelledError
  | "TemplateError" -> E_TemplateError | "TemplateNotFound" -> E_TemplateNotFound
  | "TemplatesNotFound" -> E_TemplatesNotFound | "TemplateSyntaxError" -> E_TemplateSyntaxError
  | "TemplateAssertionError" -> E_TemplateAssertionError | "TemplateRuntimeError" -> E_TemplateRuntimeError
  | "UndefinedError" -> E_UndefinedError | "SecurityError" -> E_SecurityError
  | "FilterArgumentError" -> E_FilterArgumentError
  | s -> failwith ("unknown class " ^ s)
let rec parse_cls parts = match parts with
  | [b] -> B (builtin b)
  | u :: r when String.length u > 1 && u.[0] = 'u' -> User (n_of_int (int_of_string (String.sub u 1 (String.length u - 1))), parse_cls r)
  | _ -> failwith "bad class"
let cls_of s = parse_cls (String.split_on_char '.' (String.trim s))
let kind_of s =
  match s with
  | "R" -> Reraise | "V" -> ReturnValue | "U" -> ToUndefined | "P" -> Pass
  | _ when String.length s > 2 && String.sub s 0 2 = "O:" -> RaiseOther (cls_of (String.sub s 2 (String.length s - 2)))
  | _ -> failwith ("bad kind " ^ s)
let clause_of s =
  match String.index_opt s '>' with
  | None -> failwith ("bad clause " ^ s)
  | Some i ->
    let cs = String.split_on_char ',' (String.sub s 0 i) |> List.filter (fun x -> x <> "") in
    { h_catch = List.map cls_of cs; h_kind = kind_of (String.sub s (i + 1) (String.length s - i - 1)) }
let try_of s =
  let s = String.trim s in
  if s = "-" then [] else List.map (fun c -> clause_of (String.trim c)) (String.split_on_char '/' s)
let rec show_cls = function
  | B b -> (match List.find_opt (fun n -> try builtin n = b with _ -> false)
              ["BaseException";"Exception";"LookupError";"KeyError";"IndexError";"AttributeError";"TypeError";"ValueError";
               "UnicodeError";"StopIteration";"StopAsyncIteration";"ArithmeticError";"OverflowError";"ZeroDivisionError";
               "RuntimeError";"RecursionError";"NotImplementedError";"ImportError";"OSError";"SyntaxError";"MemoryError";
               "AssertionError";"NameError";"GeneratorExit";"KeyboardInterrupt";"SystemExit";"CancelledError";"TemplateError";
               "TemplateNotFound";"TemplatesNotFound";"TemplateSyntaxError";"TemplateAssertionError";"TemplateRuntimeError";
               "UndefinedError";"SecurityError";"FilterArgumentError"] with Some n -> n | None -> "?")
  | User (_, p) -> "u." ^ show_cls p
let () =
  try while true do
    let line = input_line stdin in
    match String.index_opt line '|' with
    | None -> print_endline "?"
    | Some i ->
      let c = cls_of (String.sub line 0 i) in
      let rest = String.sub line (i + 1) (String.length line - i - 1) in
      let stack = if String.trim rest = "" then [] else List.map try_of (String.split_on_char ';' rest) in
      let e = { e_cls = c; e_id = n_of_int 1 } in
      let r = match propagate e stack with
        | Swallowed -> "swallowed"
        | Raised e' -> (match e'.e_id with N0 -> "other:" ^ show_cls e'.e_cls | _ -> "same") in
      print_endline (r ^ " foreign=" ^ (if foreign signals e then "1" else "0"))
  done with End_of_file -> ()
