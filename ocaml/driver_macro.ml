(* C06 driver.  One case per line, fields separated by one space:
     I P<names> D<defaults> U<ckv> O<outer> A<values> K<keywords>
        -> C=<compile result> M=<Macro.__call__ model> S=<binding spec> F=<frame after prologue>
     F P<names> D<defaults> U<ckv> O<outer> L<locals before> R<locals after>
        -> ok | bad <index>          (the defaults rule applied to observed final values)
   lists are comma separated, the empty list is written as the bare tag;
   value   = N | i<k> | M | Uc | Up<k> | Un<k>
   default = c<value> | r<name>          keyword / outer / local = <name>=<value>   (local value ? = missing) *)
open Macro_x
let rec pos_of_int n = if n = 1 then XH else if n land 1 = 0 then XO (pos_of_int (n lsr 1)) else XI (pos_of_int (n lsr 1))
let n_of_int n = if n = 0 then N0 else Npos (pos_of_int n)
let rec int_of_pos = function XH -> 1 | XO p -> 2 * int_of_pos p | XI p -> 2 * int_of_pos p + 1
let int_of_n = function N0 -> 0 | Npos p -> int_of_pos p
let rec nat_of_int n = if n = 0 then O else S (nat_of_int (n - 1))
let rec int_of_nat = function O -> 0 | S n -> 1 + int_of_nat n

let tl1 s = String.sub s 1 (String.length s - 1)
let tl2 s = String.sub s 2 (String.length s - 2)
let items s = if s = "" then [] else String.split_on_char ',' s
let name_of s = n_of_int (int_of_string s)
let value_of s =
  if s = "N" then VNone else if s = "M" then VMacro else if s = "Uc" then VUndef UNoCaller
  else if s.[0] = 'i' then VInt (name_of (tl1 s))
  else if String.length s > 2 && s.[0] = 'U' && s.[1] = 'p' then VUndef (UNotProvided (name_of (tl2 s)))
  else if String.length s > 2 && s.[0] = 'U' && s.[1] = 'n' then VUndef (UName (name_of (tl2 s)))
  else failwith ("bad value " ^ s)
let show_value = function
  | VNone -> "N" | VInt k -> "i" ^ string_of_int (int_of_n k) | VMacro -> "M"
  | VUndef UNoCaller -> "Uc"
  | VUndef (UNotProvided p) -> "Up" ^ string_of_int (int_of_n p)
  | VUndef (UName p) -> "Un" ^ string_of_int (int_of_n p)
let pair_of f s = match String.index_opt s '=' with
  | Some i -> (name_of (String.sub s 0 i), f (String.sub s (i + 1) (String.length s - i - 1)))
  | None -> failwith ("bad pair " ^ s)
let default_of_s s = if s.[0] = 'c' then DConst (value_of (tl1 s)) else if s.[0] = 'r' then DRef (name_of (tl1 s)) else failwith ("bad default " ^ s)
let local_of s = pair_of (fun v -> if v = "?" then None else Some (value_of v)) s

let show_kw kw = "{" ^ String.concat ";" (List.map (fun (k, v) -> string_of_int (int_of_n k) ^ "=" ^ show_value v) kw) ^ "}"
let show_vs vs = "[" ^ String.concat ";" (List.map show_value vs) ^ "]"
let show_arg = function
  | AVal v -> show_value v | AMissing -> "?" | ACaller v -> "C:" ^ show_value v
  | AKwargs kw -> "K:" ^ show_kw kw | AVarargs vs -> "V:" ^ show_vs vs
let show_args l = "ok(" ^ String.concat "," (List.map show_arg l) ^ ")"
let show_err = function
  | ETwoCallers -> "err:two" | ENoKeyword k -> "err:nokw" ^ string_of_int (int_of_n k)
  | ETooMany -> "err:toomany" | EArity -> "err:arity"
let show_py = function PName n -> "p" ^ string_of_int (int_of_n n) | PCaller -> "caller" | PKwargs -> "kwargs" | PVarargs -> "varargs"
let b01 b = if b then "1" else "0"
let show_local (k, v) = string_of_int (int_of_n k) ^ "=" ^ (match v with Some v -> show_value v | None -> "?")
let show_opt f = function Some x -> f x | None -> "-"

let parse_def p d u =
  let u = tl1 u in
  { d_params = List.map name_of (items (tl1 p)); d_defaults = List.map default_of_s (items (tl1 d));
    u_caller = u.[0] = '1'; u_kwargs = u.[1] = '1'; u_varargs = u.[2] = '1' }
let parse_outer o =
  let l = List.map (pair_of value_of) (items (tl1 o)) in
  fun n -> List.assoc_opt n l

let () =
  try while true do
    let line = input_line stdin in
    match String.split_on_char ' ' line with
    | ["I"; p; d; u; o; a; k] ->
      let def = parse_def p d u in
      let outer = parse_outer o in
      let c = { c_args = List.map value_of (items (tl1 a)); c_kw = List.map (pair_of value_of) (items (tl1 k)) } in
      (match macro_body_sig def with
       | CFail -> print_endline "C=fail"
       | COk (py, s) ->
         let cs = "C=" ^ String.concat "," (List.map show_py py) ^ "/" ^ b01 s.r_kwargs ^ b01 s.r_varargs ^ b01 s.r_caller in
         let m = macro_call s c in
         let ms = (match m with Ok l -> show_args l ^ (if slots_ok py l then "" else "!slots") | Err e -> show_err e) in
         let ss = (match spec_bind s c with BOk b -> show_args (flatten b) | BTypeError -> "err") in
         let fs = (match invoke def outer c with
           | None -> "none"
           | Some (Err e) -> show_err e
           | Some (Ok f) ->
             String.concat "," (List.map show_local f.f_params) ^ "|" ^ show_opt show_value f.f_caller
             ^ "|" ^ show_opt show_kw f.f_kwargs ^ "|" ^ show_opt show_vs f.f_varargs) in
         print_endline (cs ^ " M=" ^ ms ^ " S=" ^ ss ^ " F=" ^ fs))
    | ["F"; p; d; u; o; l0; lf] ->
      let def = parse_def p d u in
      let outer = parse_outer o in
      let l0 = List.map local_of (items (tl1 l0)) and lf = List.map local_of (items (tl1 lf)) in
      let rec go i = function
        | [] -> "ok"
        | pn :: r ->
          let want = Some (pn, Some (final_value def outer l0 lf (nat_of_int i) pn)) in
          if List.nth_opt lf i = want then go (i + 1) r else "bad " ^ string_of_int i in
      print_endline (if List.length lf <> List.length def.d_params then "bad len" else go 0 def.d_params)
    | _ -> print_endline "?"
  done with End_of_file -> ()
