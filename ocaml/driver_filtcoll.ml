(* one case per line:  <mode> <call> <args...> | <value>      (tokens separated by spaces)
   mode: s (sync) | a0 | a1 (async; digit = the regenerated "augmented assignment" flag)
   value: I <int> | S <cps> | N | U | L <n> v.. | D <n> key v ..   cps = c,c,c or -
   key: ks<cps> | ki<int>;  option: ? | ! x;  attr: a- | as<cps> | ai<int>;  bool: 0 | 1
   prints  OK <value> [START <value>]  |  ERR <exception> *)
open Filtcoll_x
let rec pos_of_int n = if n = 1 then XH else if n land 1 = 0 then XO (pos_of_int (n lsr 1)) else XI (pos_of_int (n lsr 1))
let n_of_int n = if n = 0 then N0 else Npos (pos_of_int n)
let z_of_int n = if n = 0 then Z0 else if n > 0 then Zpos (pos_of_int n) else Zneg (pos_of_int (-n))
let rec int_of_pos = function XH -> 1 | XO p -> 2 * int_of_pos p | XI p -> 2 * int_of_pos p + 1
let int_of_n = function N0 -> 0 | Npos p -> int_of_pos p
let int_of_z = function Z0 -> 0 | Zpos p -> int_of_pos p | Zneg p -> - (int_of_pos p)
let cps s = if s = "-" then [] else List.map (fun x -> n_of_int (int_of_string x)) (String.split_on_char ',' s)
let show_cps l = if l = [] then "-" else String.concat "," (List.map (fun n -> string_of_int (int_of_n n)) l)
let toks = ref []
let next () = match !toks with [] -> failwith "eol" | t :: r -> toks := r; t
let rest s = String.sub s 2 (String.length s - 2)
let key () = let t = next () in
  if String.length t >= 2 && t.[0] = 'k' && t.[1] = 's' then KS (cps (rest t))
  else if String.length t >= 2 && t.[0] = 'k' && t.[1] = 'i' then KI (n_of_int (int_of_string (rest t)))
  else failwith ("key " ^ t)
let rec value () = match next () with
  | "I" -> VInt (z_of_int (int_of_string (next ())))
  | "S" -> VStr (cps (next ()))
  | "N" -> VNone | "U" -> VUndef
  | "L" -> let n = int_of_string (next ()) in VList (List.init n (fun _ -> value ()))
  | "D" -> let n = int_of_string (next ()) in
           let kvs = List.init n (fun _ -> let k = key () in let v = value () in (k, v)) in
           VDict (List.map fst kvs, List.map snd kvs)
  | t -> failwith ("value " ^ t)
let opt f = match next () with "?" -> None | "!" -> Some (f ()) | t -> failwith ("opt " ^ t)
let attr () = let t = next () in
  if t = "a-" then ANone else if t.[1] = 's' then AStr (cps (rest t)) else AInt (n_of_int (int_of_string (rest t)))
let bool () = next () = "1"
let zint () = z_of_int (int_of_string (next ()))
let test () = match next () with
  | "truth" -> TTruth | "odd" -> TOdd | "even" -> TEven | "none" -> TNoneT | "defined" -> TDefined
  | "string" -> TString | "number" -> TNumber
  | "eq" -> TEq (value ()) | "lt" -> TLt (zint ()) | "gt" -> TGt (zint ())
  | t -> failwith ("test " ^ t)
let call () = match next () with
  | "slice" -> let n = zint () in let f = opt value in CSlice (n, f)
  | "batch" -> let n = zint () in let f = opt value in CBatch (n, f)
  | "unique" -> let cs = bool () in let a = attr () in CUnique (cs, a)
  | "sort" -> let r = bool () in let cs = bool () in let a = attr () in CSort (r, cs, a)
  | "dictsort" -> let cs = bool () in let b = n_of_int (int_of_string (next ())) in let r = bool () in CDictsort (cs, b, r)
  | "groupby" -> let a = attr () in let d = opt value in let cs = bool () in CGroupby (a, d, cs)
  | "min" -> let cs = bool () in let a = attr () in CMin (cs, a)
  | "max" -> let cs = bool () in let a = attr () in CMax (cs, a)
  | "sum" -> let a = attr () in let s = value () in CSum (a, s)
  | "join" -> let d = value () in let a = attr () in CJoin (d, a)
  | "mapattr" -> let a = attr () in let d = opt value in CMap (MapAttr (a, d))
  | "mapfilter" -> CMap (MapFilter (match next () with "lower" -> MFLower | "upper" -> MFUpper | "length" -> MFLength | "abs" -> MFAbs | t -> failwith t))
  | "select" -> let neg = bool () in let t = test () in let a = opt attr in CSelect (neg, t, a)
  | "first" -> CFirst | "last" -> CLast | "reverse" -> CReverse | "list" -> CList | "length" -> CLength
  | t -> failwith ("call " ^ t)
let rec show = function
  | VInt z -> "I " ^ string_of_int (int_of_z z)
  | VStr s -> "S " ^ show_cps s
  | VNone -> "N" | VUndef -> "U"
  | VList l -> String.concat " " (("L " ^ string_of_int (List.length l)) :: List.map show l)
  | VDict (ks, vs) ->
      String.concat " " (("D " ^ string_of_int (List.length ks)) ::
        List.map2 (fun k v -> (match k with KS s -> "ks" ^ show_cps s | KI n -> "ki" ^ string_of_int (int_of_n n)) ^ " " ^ show v) ks vs)
let exn_name = function
  | ZeroDivisionError -> "ZeroDivisionError" | TypeError -> "TypeError" | UndefinedError -> "UndefinedError"
  | FilterArgumentError -> "FilterArgumentError" | EModel -> "EModel"
let () =
  try while true do
    let line = input_line stdin in
    toks := List.filter (fun x -> x <> "") (String.split_on_char ' ' line);
    if !toks = [] then print_endline "" else begin
      let mode = next () in
      let c = call () in
      (match next () with "|" -> () | t -> failwith ("expected | got " ^ t));
      let v = value () in
      if mode = "s" then
        (match run_sync c v with Ok r -> print_endline ("OK " ^ show r) | Err e -> print_endline ("ERR " ^ exn_name e))
      else
        (match run_async (mode = "a1") c v with
         | Ok (r, None) -> print_endline ("OK " ^ show r)
         | Ok (r, Some s) -> print_endline ("OK " ^ show r ^ " START " ^ show s)
         | Err e -> print_endline ("ERR " ^ exn_name e))
    end
  done with End_of_file -> ()
