(* one case per line, space-separated tokens.  strings: - (empty) or code points joined by dots.
   R b0 flag fuel ndl {name n str..} nd {name str} n stmt..   prints O str or N
   U str : unescape5     E str : escape and escape_spec      C str : clean (0/1)
   P b0 n stmt.. : c16_ok c15_ok top_ok
   SA ne str.. nd str.. dfs def name-or-none : 0/1
   F rt fid tstr n tstr.. : tstr or N        (tstr = p:str or m:str)
   MJ n tstr.. , AD tstr tstr , JN tstr n tstr.. , RP tstr tstr tstr
   expr: V x , L s , C e e , F fid e n e.. , Q c a b , M m n e.. , K
   stmt: T s , O e , I c n s.. n s.. , R x l n s.. , S x e , B x n s.. , D m np p.. n s.. ,
         A m n e.. n s.. , X fid n e.. n s.. , E a n s..    (a = 0 , 1 , f) *)
open Esc_x
let rec pos_of_int n = if n = 1 then XH else if n land 1 = 0 then XO (pos_of_int (n lsr 1)) else XI (pos_of_int (n lsr 1))
let n_of_int n = if n = 0 then N0 else Npos (pos_of_int n)
let rec int_of_pos = function XH -> 1 | XO p -> 2 * int_of_pos p | XI p -> 2 * int_of_pos p + 1
let int_of_n = function N0 -> 0 | Npos p -> int_of_pos p
let rec nat_of_int n = if n = 0 then O else S (nat_of_int (n - 1))
let str_of s = if s = "-" then [] else List.map (fun x -> n_of_int (int_of_string x)) (String.split_on_char '.' s)
let show s = if s = [] then "-" else String.concat "." (List.map (fun n -> string_of_int (int_of_n n)) s)
let toks = ref []
let next () = match !toks with [] -> failwith "eof" | t :: r -> toks := r; t
let nint () = int_of_string (next ())
let nn () = n_of_int (nint ())
let nstr () = str_of (next ())
let nbool () = (next ()) = "1"
let rec many n f = if n = 0 then [] else let x = f () in x :: many (n - 1) f
let filt_of = function 0 -> FString | 1 -> FLower | 2 -> FUpper | 3 -> FSafe | 4 -> FEscape | 5 -> FForceescape
  | 6 -> FDefault | 7 -> FReplace | _ -> failwith "filt"
let rec pexpr () = match next () with
  | "V" -> EVar (nn ())
  | "L" -> ELit (nstr ())
  | "C" -> let a = pexpr () in let b = pexpr () in ECat (a, b)
  | "F" -> let f = filt_of (nint ()) in let a = pexpr () in let n = nint () in EFilt (f, a, many n pexpr)
  | "Q" -> let c = pexpr () in let a = pexpr () in let b = pexpr () in ECond (c, a, b)
  | "M" -> let m = nn () in let n = nint () in ECall (m, many n pexpr)
  | "K" -> ECaller
  | t -> failwith ("expr " ^ t)
let rec pstmt () = match next () with
  | "T" -> SText (nstr ())
  | "O" -> SOut (pexpr ())
  | "I" -> let c = pexpr () in let t = pbody () in let f = pbody () in SIf (c, t, f)
  | "R" -> let x = nn () in let l = nn () in SFor (x, l, pbody ())
  | "S" -> let x = nn () in SSet (x, pexpr ())
  | "B" -> let x = nn () in SSetBlock (x, pbody ())
  | "D" -> let m = nn () in let np = nint () in let ps = many np nn in SMacro (m, ps, pbody ())
  | "A" -> let m = nn () in let n = nint () in let args = many n pexpr in SCallBlock (m, args, pbody ())
  | "X" -> let f = filt_of (nint ()) in let n = nint () in let args = many n pexpr in SFilterBlock (f, args, pbody ())
  | "E" -> let a = (match next () with "0" -> AConst false | "1" -> AConst true | _ -> AFlag) in SAutoescape (a, pbody ())
  | t -> failwith ("stmt " ^ t)
and pbody () = let n = nint () in many n pstmt
let ptstr () = let t = next () in
  let s = str_of (String.sub t 2 (String.length t - 2)) in if t.[0] = 'm' then Mk s else Plain s
let show_t = function Plain s -> "p:" ^ show s | Mk s -> "m:" ^ show s
let b2s b = if b then "1" else "0"
let () =
  try while true do
    let line = input_line stdin in
    toks := List.filter (fun x -> x <> "") (String.split_on_char ' ' line);
    (try match next () with
    | "R" ->
      let b0 = nbool () in let flag = nbool () in let fuel = nat_of_int (nint ()) in
      let ndl = nint () in
      let dl = many ndl (fun () -> let nm = nn () in let n = nint () in (nm, many n nstr)) in
      let nd = nint () in
      let d = many nd (fun () -> let nm = nn () in let s = nstr () in (nm, s)) in
      let t = pbody () in
      (match render b0 flag dl fuel t d with None -> print_endline "N" | Some o -> print_endline ("O " ^ show o))
    | "U" -> print_endline (show (unescape5 (nstr ())))
    | "E" -> let s = nstr () in print_endline (show (escape s) ^ " " ^ show (escape_spec s))
    | "C" -> print_endline (b2s (clean (nstr ())))
    | "P" -> let b0 = nbool () in let t = pbody () in
      print_endline (b2s (c16_ok t) ^ " " ^ b2s (c15_ok t) ^ " " ^ b2s (top_ok b0 t))
    | "SA" -> let ne = nint () in let en = many ne nstr in let nd = nint () in let di = many nd nstr in
      let dfs = nbool () in let def = nbool () in
      let nm = (match next () with "none" -> None | s -> Some (str_of s)) in
      print_endline (b2s (select_autoescape en di dfs def nm))
    | "F" -> let rt = nbool () in let f = filt_of (nint ()) in let v = ptstr () in let n = nint () in
      let args = many n ptstr in
      (match apply_filter rt f v args with None -> print_endline "N" | Some r -> print_endline (show_t r))
    | "MJ" -> let n = nint () in print_endline (show_t (markup_join (many n ptstr)))
    | "AD" -> let a = ptstr () in let b = ptstr () in print_endline (show_t (mk_add a b))
    | "JN" -> let s = ptstr () in let n = nint () in print_endline (show_t (mk_join s (many n ptstr)))
    | "RP" -> let s = ptstr () in let o = ptstr () in let nw = ptstr () in print_endline (show_t (mk_replace s o nw))
    | t -> print_endline ("?" ^ t)
    with Failure m -> print_endline ("!" ^ m))
  done with End_of_file -> ()
