(* one case per line, space separated tokens:
     FUEL NVARS (NAME STR)... NTEMPLATES TEMPLATE...
     TEMPLATE := NTOPS TOP... NBLOCKS (NAME SCOPED01 REQUIRED01 NITEMS ITEM...)...
     TOP      := x0 | x1 | x2 | i ITEM          (extends: known / if true / if false)
     ITEM     := s STR | e STR | v NAME | b NAME | u K | f NAME | l NITER (NBIND (NAME STR)...)... NITEMS ITEM...
     STR      := - | c1.c2.c3 (code points)
   prints   M RES | S RES | W 0/1 | P RES | B name:j,j,..;...
   RES := O STR | E ERR;  P = model on the chain with child content after extends stripped *)
open Inh_x
let rec pos_of_int n = if n = 1 then XH else if n land 1 = 0 then XO (pos_of_int (n lsr 1)) else XI (pos_of_int (n lsr 1))
let n_of_int n = if n = 0 then N0 else Npos (pos_of_int n)
let rec int_of_pos = function XH -> 1 | XO p -> 2 * int_of_pos p | XI p -> 2 * int_of_pos p + 1
let int_of_n = function N0 -> 0 | Npos p -> int_of_pos p
let rec nat_of_int n = if n = 0 then O else S (nat_of_int (n - 1))
let rec int_of_nat = function O -> 0 | S n -> 1 + int_of_nat n
let str_of s = if s = "-" then [] else List.map (fun x -> n_of_int (int_of_string x)) (String.split_on_char '.' s)
let show_str s = if s = [] then "-" else String.concat "." (List.map (fun n -> string_of_int (int_of_n n)) s)
let toks = ref []
let next () = match !toks with [] -> failwith "eol" | x :: r -> toks := r; x
let int () = int_of_string (next ())
let rec rep n f = if n <= 0 then [] else let x = f () in x :: rep (n - 1) f
let rec item () =
  match next () with
  | "s" -> IText (str_of (next ()))
  | "e" -> IStmt (str_of (next ()))
  | "v" -> IVar (n_of_int (int ()))
  | "b" -> IBlock (n_of_int (int ()))
  | "u" -> ISuper (nat_of_int (int ()))
  | "f" -> ISelf (n_of_int (int ()))
  | "l" -> let nit = int () in
           let iters = rep nit (fun () -> let nb = int () in
                                 rep nb (fun () -> let v = n_of_int (int ()) in let s = str_of (next ()) in (v, s))) in
           let ni = int () in let body = rep ni item in IFor (iters, body)
  | x -> failwith ("bad item " ^ x)
let top () =
  match next () with
  | "x0" -> TExtends None | "x1" -> TExtends (Some true) | "x2" -> TExtends (Some false)
  | "i" -> TItem (item ())
  | x -> failwith ("bad top " ^ x)
let template () =
  let nt = int () in let tops = rep nt top in
  let nb = int () in
  let bl = rep nb (fun () ->
    let n = n_of_int (int ()) in let sc = int () = 1 in let rq = int () = 1 in
    let ni = int () in let body = rep ni item in
    (n, { b_scoped = sc; b_required = rq; b_body = body })) in
  { t_top = tops; t_blocks = bl }
let show_err = function ERequired -> "Required" | EUndefined -> "Undefined" | EMultiple -> "Multiple"
  | ENotFound -> "NotFound" | EFuel -> "Fuel" | EInternal -> "Internal"
let show = function Ok s -> "O " ^ show_str s | Err e -> "E " ^ show_err e
let () =
  try while true do
    let line = input_line stdin in
    toks := List.filter (fun x -> x <> "") (String.split_on_char ' ' line);
    if !toks = [] then print_endline "" else begin
      let fuel = nat_of_int (int ()) in
      let nv = int () in
      let data = rep nv (fun () -> let n = n_of_int (int ()) in let s = str_of (next ()) in (n, s)) in
      let nt = int () in
      let chain = rep nt template in
      let b = blocks_of_chain chain in
      let bs = String.concat ";" (List.map (fun (n, st) ->
        string_of_int (int_of_n n) ^ ":" ^ String.concat "," (List.map (fun (j, _) -> string_of_int (int_of_nat j)) st)) b) in
      print_endline ("M " ^ show (render fuel chain data) ^ " | S " ^ show (spec_render fuel chain data)
                     ^ " | W " ^ (if chain_wf chain then "1" else "0")
                     ^ " | P " ^ show (render fuel (List.map strip_child chain) data) ^ " | B " ^ bs)
    end
  done with End_of_file -> ()
