(* driver of the sandbox attribute-policy models (C19, C17).  One case per line, one result
   line per case.  Names are passed hex-encoded (UTF-8 bytes) so that any attribute name fits
   on a line; '-' is the empty name / empty list.
     tables <f> <m> <g> <c> <a>     set UNSAFE_* tables (comma-separated hex names)   -> ok
     spec <row>;<row>;...           row = <insts>:<names>, insts over L D S Q          -> ok
     mut <T> <name>                 -> mkm=<b> safe=<b> spec=<b>
     attr <kind> <name>             -> internal=<b> safe=<b>
     ga|gi|da <kind> <name> <attrstat> <itemstat>
                                    sandbox_getattr / sandbox_getitem (string key) / do_attr on an
                                    object of that kind that has (attrstat: none plain fmt fmtmap)
                                    the attribute and (itemstat: 0 1) the item <name>; kind "str"
                                    is a str instance                                  -> result class
     gs <kind> <content> <shown> <attrstat> <itemstat>
                                    sandbox_getitem with a str-subclass key (compares like <content>, str() is
                                    <shown>); the object has the attribute <shown> (attrstat) and the item
                                    <content> (itemstat)                                -> result class
     walk <n> (<kind> <name> <A|I|N> <attrstat> <itemstat>) x n
                                    a chain of n objects, each exposing the next one under <name>;
                                    A = attribute step, I = string item step, N = integer item
                                    step (<name> is then a decimal number)            -> result class
     gen <sandboxed> <async> <prefix-term>   -> show (gen m e) | calls=<n> gates=<n> no_raw=<b> gated=<b>
     gate <unsafe_callable 0|1> <alters_data 0|1> <bound str.format 0|1> <policy default|0|1> [<type __call__ unsafe> <type __call__ alters> [<instance __call__ unsafe> <instance __call__ alters>]]
                                    SandboxedEnvironment.call on such a callable under the default
                                    or an overridden is_safe_callable     -> events | outcome
        term: N x | C hex | GA t a | GI t t | SL t o o o | CALL t n t.. k (a t).. o o
              | F name t n t.. k (a t).. | T name t n t.. | OP op n t..     (o = _ or t)
   The extracted module defines its own [string]; it is not opened. *)
module X = Sbx_x
let ascii_of_char c =
  let n = Char.code c in let b i = (n lsr i) land 1 = 1 in
  X.Ascii (b 0, b 1, b 2, b 3, b 4, b 5, b 6, b 7)
let cstr (s : String.t) : X.string =
  let rec go i = if i >= String.length s then X.EmptyString else X.String (ascii_of_char s.[i], go (i + 1)) in go 0
let unhex (h : String.t) : String.t =
  if h = "-" then "" else String.init (String.length h / 2) (fun i -> Char.chr (int_of_string ("0x" ^ String.sub h (2 * i) 2)))
let names (s : String.t) : X.string list =
  if s = "-" then [] else List.map (fun h -> cstr (unhex h)) (String.split_on_char ',' s)
let btype_of = function
  | "L" -> X.TList | "D" -> X.TDict | "S" -> X.TSet | "Q" -> X.TDeque | s -> failwith ("bad type " ^ s)
let kind_of = function
  | "function" -> X.KFunction | "method" -> X.KMethod | "type" -> X.KType | "code" -> X.KCode
  | "traceback" -> X.KTraceback | "frame" -> X.KFrame | "generator" -> X.KGenerator
  | "coroutine" -> X.KCoroutine | "asyncgen" -> X.KAsyncGen | "other" -> X.KOther
  | s -> failwith ("bad kind " ^ s)
let b x = if x then "1" else "0"
let char_of_ascii (X.Ascii (b0, b1, b2, b3, b4, b5, b6, b7)) =
  let v i x = if x then 1 lsl i else 0 in
  Char.chr (v 0 b0 + v 1 b1 + v 2 b2 + v 3 b3 + v 4 b4 + v 5 b5 + v 6 b6 + v 7 b7)
let ostr (s : X.string) : String.t =
  let buf = Buffer.create 64 in
  let rec go = function X.EmptyString -> () | X.String (c, r) -> Buffer.add_char buf (char_of_ascii c); go r in
  go s; Buffer.contents buf
let rec nat_of_int n = if n = 0 then X.O else X.S (nat_of_int (n - 1))
let rec int_of_nat = function X.O -> 0 | X.S n -> 1 + int_of_nat n
let rec pos_of_int n = if n = 1 then X.XH else if n land 1 = 0 then X.XO (pos_of_int (n lsr 1)) else X.XI (pos_of_int (n lsr 1))
let z_of_int n = if n = 0 then X.Z0 else if n > 0 then X.Zpos (pos_of_int n) else X.Zneg (pos_of_int (- n))
let attrval next = function
  | "none" -> None | "plain" -> Some next
  | "fmt" -> Some (X.VFmt (cstr "s", false)) | "fmtmap" -> Some (X.VFmt (cstr "s", true))
  | s -> failwith ("bad attrstat " ^ s)
let mkobj kind name astat istat (next : X.value) (ikey : X.key) : X.value =
  if kind = "str" then X.VStr (cstr "s") else
  let attrs = match attrval next astat with None -> [] | Some v -> [(name, v)] in
  let items = if istat = "1" then [(ikey, next)] else [] in
  X.VObj (kind_of kind, attrs, items)
let show_result = function
  | X.RValue _ -> "value" | X.RItem _ -> "item" | X.RFormat _ -> "format"
  | X.RUndefined -> "undefined" | X.RUnsafe -> "unsafe"
  | X.RRaise X.EUndefinedError -> "raise:UndefinedError" | X.RRaise X.ESecurityError -> "raise:SecurityError"
  | X.RRaise X.EIndexError -> "raise:IndexError" | X.RRaise X.EKeyError -> "raise:KeyError"
(* prefix-term parser *)
let rec p_expr = function
  | "N" :: x :: r -> (X.EName (cstr x), r)
  | "C" :: h :: r -> (X.EConst (cstr (unhex h)), r)
  | "GA" :: r -> let (e, r) = p_expr r in (match r with a :: r -> (X.EGetattr (e, cstr a), r) | _ -> failwith "GA")
  | "GI" :: r -> let (e, r) = p_expr r in let (i, r) = p_expr r in (X.EGetitem (e, i), r)
  | "SL" :: r -> let (e, r) = p_expr r in let (a, r) = p_opt r in let (b', r) = p_opt r in let (c, r) = p_opt r in
    (X.ESlice (e, a, b', c), r)
  | "CALL" :: r -> let (f, r) = p_expr r in let (args, r) = p_many r in let (kw, r) = p_kw r in
    let (d, r) = p_opt r in let (dk, r) = p_opt r in (X.ECall (f, args, kw, d, dk), r)
  | "F" :: n :: r -> let (e, r) = p_expr r in let (args, r) = p_many r in let (kw, r) = p_kw r in
    (X.EFilter (cstr n, e, args, kw), r)
  | "T" :: n :: r -> let (e, r) = p_expr r in let (args, r) = p_many r in (X.ETest (cstr n, e, args), r)
  | "OP" :: op :: r -> let (es, r) = p_many r in (X.EOp (cstr op, es), r)
  | t :: _ -> failwith ("bad term at " ^ t) | [] -> failwith "unexpected end of term"
and p_opt = function "_" :: r -> (None, r) | r -> let (e, r) = p_expr r in (Some e, r)
and p_many = function
  | n :: r -> let rec go k r acc = if k = 0 then (List.rev acc, r) else let (e, r) = p_expr r in go (k - 1) r (e :: acc) in
    go (int_of_string n) r []
  | [] -> failwith "count expected"
and p_kw = function
  | n :: r -> let rec go k r acc = if k = 0 then (List.rev acc, r) else
      (match r with a :: r -> let (e, r) = p_expr r in go (k - 1) r ((cstr a, e) :: acc) | [] -> failwith "kw") in
    go (int_of_string n) r []
  | [] -> failwith "count expected"
let tables = ref { X.t_function = []; t_method = []; t_generator = []; t_coroutine = []; t_asyncgen = [] }
let spec : X.row list ref = ref []
let () =
  try while true do
    let line = input_line stdin in
    match String.split_on_char ' ' line |> List.filter (fun x -> x <> "") with
    | [] -> print_endline ""
    | ["tables"; f; m; g; c; a] ->
      tables := { X.t_function = names f; t_method = names m; t_generator = names g; t_coroutine = names c; t_asyncgen = names a };
      print_endline "ok"
    | ["spec"; rows] ->
      spec := (if rows = "-" then [] else
        List.map (fun r -> match String.split_on_char ':' r with
          | [insts; ns] ->
            let insts = if insts = "-" then [] else List.init (String.length insts) (fun i -> btype_of (String.make 1 insts.[i])) in
            { X.row_type = X.EmptyString; row_inst = insts; row_attrs = names ns }
          | _ -> failwith ("bad row " ^ r)) (String.split_on_char ';' rows));
      print_endline "ok"
    | ["mut"; t; n] ->
      let t = btype_of t and n = cstr (unhex n) in
      print_endline ("mkm=" ^ b (X.modifies_known_mutable !spec t n) ^ " safe=" ^ b (X.immutable_is_safe_attribute !tables !spec t n)
                     ^ " spec=" ^ b (X.mutates t n))
    | ["attr"; k; n] ->
      let k = kind_of k and n = cstr (unhex n) in
      print_endline ("internal=" ^ b (X.is_internal_attribute !tables k n) ^ " safe=" ^ b (X.is_safe_attribute !tables k n))
    | [("ga" | "gi" | "da") as cmd; k; n; astat; istat] ->
      let name = cstr (unhex n) in
      let o = mkobj k name astat istat (X.VData (nat_of_int 1)) (X.KStr name) in
      let r = (match cmd with
        | "ga" -> X.sandbox_getattr !tables o name
        | "gi" -> X.sandbox_getitem !tables o (X.KStr name)
        | _ -> X.do_attr !tables o name) in
      print_endline (show_result r)
    | ["gs"; k; c; n; astat; istat] ->
      let content = cstr (unhex c) and shown = cstr (unhex n) in
      let o = mkobj k shown astat istat (X.VData (nat_of_int 1)) (X.KStr content) in
      print_endline (show_result (X.sandbox_getitem !tables o (X.KSub (content, shown))))
    | "walk" :: n :: rest ->
      let n = int_of_string n in
      let rec take k r acc = if k = 0 then List.rev acc else
        (match r with kd :: nm :: st :: a :: i :: r -> take (k - 1) r ((kd, nm, st, a, i) :: acc) | _ -> failwith "walk") in
      let levels = take n rest [] in
      let step_of (_, nm, st, _, _) = match st with
        | "A" -> X.SAttr (cstr (unhex nm)) | "I" -> X.SItem (X.KStr (cstr (unhex nm)))
        | "N" -> X.SItem (X.KInt (z_of_int (int_of_string nm))) | s -> failwith ("bad step " ^ s) in
      let key_of (_, nm, st, _, _) = if st = "N" then X.KInt (z_of_int (int_of_string nm)) else X.KStr (cstr (unhex nm)) in
      let root = List.fold_right (fun ((kd, nm, st, a, i) as l) next ->
        mkobj kd (if st = "N" then cstr nm else cstr (unhex nm)) a i next (key_of l)) levels (X.VData (nat_of_int 9)) in
      print_endline (show_result (X.walk !tables root (List.map step_of levels)))
    | "gen" :: sb :: asy :: term ->
      let (e, rest) = p_expr term in
      if rest <> [] then failwith "trailing tokens";
      let m = { X.sandboxed = (sb = "1"); is_async = (asy = "1") } in
      let t = X.gen m e in
      print_endline (ostr (X.show t) ^ " | calls=" ^ string_of_int (int_of_nat (X.count_calls e)) ^ " gates="
                     ^ string_of_int (int_of_nat (X.count_gates t)) ^ " no_raw=" ^ b (X.no_raw t) ^ " gated=" ^ b (X.gated t))
    | "gate" :: u :: a :: fm :: pol :: more ->
      let (cu, ca, iu, ia) = (match more with
        | [x; y] -> (x = "1", y = "1", false, false)
        | [x; y; z; w] -> (x = "1", y = "1", z = "1", w = "1")
        | _ -> (false, false, false, false)) in
      let c = { X.c_id = X.O; c_unsafe = (u = "1"); c_alters = (a = "1"); c_format = (fm = "1");
                c_call_unsafe = cu; c_call_alters = ca; c_icall_unsafe = iu; c_icall_alters = ia } in
      let verdict = (match pol with "default" -> X.is_safe_callable_default c | "1" -> true | _ -> false) in
      let (log, o) = X.gate_events verdict c in
      let ev = function X.EvCheck (_, v) -> "check:" ^ b v | X.EvInvoke _ -> "invoke" | X.EvFormat _ -> "format" in
      print_endline (String.concat " " (List.map ev log) ^ " | " ^
                     (match o with X.OVal _ -> "value" | X.OSecurityError -> "SecurityError" | X.OOtherError -> "error"))
    | _ -> failwith ("bad line " ^ line)
  done with End_of_file -> ()
