(* one case per line:  DEFER(0/1) NS_AT_DEF(- or int) INSTALLED(- or int)
   prints N (the def statement fails), E (NameError at the call) or D<k> (the body saw environment k) *)
open Pre_x
let rec pos_of_int n = if n = 1 then XH else if n land 1 = 0 then XO (pos_of_int (n lsr 1)) else XI (pos_of_int (n lsr 1))
let n_of_int n = if n = 0 then N0 else Npos (pos_of_int n)
let rec int_of_pos = function XH -> 1 | XO p -> 2 * int_of_pos p | XI p -> 2 * int_of_pos p + 1
let int_of_n = function N0 -> 0 | Npos p -> int_of_pos p
let opt s = if s = "-" then None else Some (n_of_int (int_of_string s))
let () =
  try while true do
    let line = input_line stdin in
    match String.split_on_char ' ' line |> List.filter (fun x -> x <> "") with
    | [d; ns; inst] ->
      (match probe_case (d = "1") (opt ns) (opt inst) with
       | None -> print_endline "N"
       | Some NameError -> print_endline "E"
       | Some (Done k) -> print_endline ("D" ^ string_of_int (int_of_n k)))
    | _ -> print_endline ""
  done with End_of_file -> ()
