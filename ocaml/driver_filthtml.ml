(* one case per line; strings as code points c,c,c or -
   escape <s> | replace4 <s>                      -> OK <s>
   xmlattr <autospace 0|1> (<key> <?|p<s>|m<s>>)*  -> OK <s> | ERR ValueError
   indentm <p|m><width> <first> <blank> <s>       -> OK <s>
   replacem <p|m><old> <p|m><new> <s>             -> OK <s>
   joinm <p|m><d> (<p|m><item>)*                  -> OK <s>
   truncatem <length> <killwords> <p|m><end> <leeway> <s>   -> OK <s> | ERR AssertionError *)
open Filthtml_x
let rec pos_of_int n = if n = 1 then XH else if n land 1 = 0 then XO (pos_of_int (n lsr 1)) else XI (pos_of_int (n lsr 1))
let n_of_int n = if n = 0 then N0 else Npos (pos_of_int n)
let rec int_of_pos = function XH -> 1 | XO p -> 2 * int_of_pos p | XI p -> 2 * int_of_pos p + 1
let int_of_n = function N0 -> 0 | Npos p -> int_of_pos p
let cps s = if s = "-" then [] else List.map (fun x -> n_of_int (int_of_string x)) (String.split_on_char ',' s)
let show l = if l = [] then "-" else String.concat "," (List.map (fun n -> string_of_int (int_of_n n)) l)
let tstr t = let r = cps (String.sub t 1 (String.length t - 1)) in if t.[0] = 'm' then Mk r else Plain r
let rec pairs = function
  | k :: v :: r -> (cps k, (if v = "?" then None else Some (tstr v))) :: pairs r
  | [] -> [] | _ -> failwith "pairs"
let () =
  try while true do
    let line = input_line stdin in
    match List.filter (fun x -> x <> "") (String.split_on_char ' ' line) with
    | [] -> print_endline ""
    | ["escape"; s] -> print_endline ("OK " ^ show (escape (cps s)))
    | ["replace4"; s] -> print_endline ("OK " ^ show (replace4 (cps s)))
    | "xmlattr" :: a :: rest ->
        (match do_xmlattr (pairs rest) (a = "1") with Some r -> print_endline ("OK " ^ show r) | None -> print_endline "ERR ValueError")
    | ["indentm"; w; f; b; s] -> print_endline ("OK " ^ show (payload (indent_markup (cps s) (tstr w) (f = "1") (b = "1"))))
    | ["replacem"; o; n; s] -> print_endline ("OK " ^ show (payload (replace_markup (cps s) (tstr o) (tstr n))))
    | ["truncatem"; len; kw; e; lw; s] ->
        let z x = read_Z (List.init (String.length x) (fun i -> n_of_int (Char.code x.[i]))) in
        (match truncate_markup (cps s) (z len) (kw = "1") (tstr e) (z lw) with
         | Ok t -> print_endline ("OK " ^ show (payload t))
         | Err _ -> print_endline "ERR AssertionError")
    | "joinm" :: d :: items -> print_endline ("OK " ^ show (payload (join_markup (tstr d) (List.map tstr items))))
    | _ -> failwith ("bad line " ^ line)
  done with End_of_file -> ()
