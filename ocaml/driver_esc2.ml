(* like driver_esc.ml for Model/EscLang2.v (template sets).
   R2 nae {tid b}.. flag fuel ndl {name n str..}.. nd {name str}.. ntt {tid n stmt..}.. nchain {tid n stmt..}.. nnames name..
      chain = most derived first, last = base; prints O str or N
   P2 nae {tid b}.. b0 n stmt.. : c16_ok c15_ok top_ok
   expr adds U (super()), JN sep n e.. (([e..])|join(sep));  stmt adds G x fid n e.. n s.. (set block with filter), J tid (include), Y tid (import), K name n s.. *)
open Esc2_x
let rec pos_of_int n = if n = 1 then XH else if n land 1 = 0 then XO (pos_of_int (n lsr 1)) else XI (pos_of_int (n lsr 1))
let n_of_int n = if n = 0 then N0 else Npos (pos_of_int n)
let rec int_of_pos = function XH -> 1 | XO p -> 2 * int_of_pos p | XI p -> 2 * int_of_pos p + 1
let int_of_n = function N0 -> 0 | Npos p -> int_of_pos p
let rec nat_of_int n = if n = 0 then O else S (nat_of_int (n - 1))
let str_of s = if s = "-" then [] else List.map (fun x -> n_of_int (int_of_string x)) (String.split_on_char '.' s)
let show s = if s = [] then "-" else String.concat "." (List.map (fun n -> string_of_int (int_of_n n)) s)
let toks = ref []
let next () = match !toks with [] -> failwith "eof" | t :: r -> toks := r; t
let nint () = int_of_string (next ())
let nn () = n_of_int (nint ())
let nstr () = str_of (next ())
let nbool () = (next ()) = "1"
let rec many n f = if n = 0 then [] else let x = f () in x :: many (n - 1) f
let filt_of = function 0 -> FString | 1 -> FLower | 2 -> FUpper | 3 -> FSafe | 4 -> FEscape | 5 -> FForceescape
  | 6 -> FDefault | 7 -> FReplace | _ -> failwith "filt"
let rec pexpr () = match next () with
  | "V" -> EVar (nn ())
  | "L" -> ELit (nstr ())
  | "C" -> let a = pexpr () in let b = pexpr () in ECat (a, b)
  | "F" -> let f = filt_of (nint ()) in let a = pexpr () in let n = nint () in EFilt (f, a, many n pexpr)
  | "Q" -> let c = pexpr () in let a = pexpr () in let b = pexpr () in ECond (c, a, b)
  | "M" -> let m = nn () in let n = nint () in ECall (m, many n pexpr)
  | "K" -> ECaller
  | "U" -> ESuper
  | "JN" -> let sep = pexpr () in let n = nint () in EJoin (sep, many n pexpr)
  | t -> failwith ("expr " ^ t)
let rec pstmt () = match next () with
  | "T" -> SText (nstr ())
  | "O" -> SOut (pexpr ())
  | "I" -> let c = pexpr () in let t = pbody () in let f = pbody () in SIf (c, t, f)
  | "R" -> let x = nn () in let l = nn () in SFor (x, l, pbody ())
  | "S" -> let x = nn () in SSet (x, pexpr ())
  | "B" -> let x = nn () in SSetBlock (x, pbody ())
  | "D" -> let m = nn () in let np = nint () in let ps = many np nn in SMacro (m, ps, pbody ())
  | "A" -> let m = nn () in let n = nint () in let args = many n pexpr in SCallBlock (m, args, pbody ())
  | "X" -> let f = filt_of (nint ()) in let n = nint () in let args = many n pexpr in SFilterBlock (f, args, pbody ())
  | "G" -> let x = nn () in let f = filt_of (nint ()) in let n = nint () in let args = many n pexpr in SSetBlockF (x, f, args, pbody ())
  | "J" -> SInclude (nn ())
  | "Y" -> SImport (nn ())
  | "K" -> let nm = nn () in SBlock (nm, pbody ())
  | "E" -> let a = (match next () with "0" -> AConst false | "1" -> AConst true | _ -> AFlag) in SAutoescape (a, pbody ())
  | t -> failwith ("stmt " ^ t)
and pbody () = let n = nint () in many n pstmt
let b2s b = if b then "1" else "0"
let read_ae () = let n = nint () in let l = many n (fun () -> let t = nint () in let b = nbool () in (t, b)) in
  (fun tid -> try List.assoc (int_of_n tid) l with Not_found -> false)
let () =
  try while true do
    let line = input_line stdin in
    toks := List.filter (fun x -> x <> "") (String.split_on_char ' ' line);
    (try match next () with
    | "R2" ->
      let ae = read_ae () in
      let flag = nbool () in let fuel = nat_of_int (nint ()) in
      let ndl = nint () in
      let dl = many ndl (fun () -> let nm = nn () in let n = nint () in (nm, many n nstr)) in
      let nd = nint () in
      let d = many nd (fun () -> let nm = nn () in let s = nstr () in (nm, s)) in
      let ntt = nint () in
      let tt = many ntt (fun () -> let t = nn () in (t, pbody ())) in
      let nch = nint () in
      let chain = many nch (fun () -> let t = nn () in (t, pbody ())) in
      let nnm = nint () in let names = many nnm nn in
      let bt = block_table names chain in
      let (main, _) = List.hd chain in
      let (base, root) = List.nth chain (List.length chain - 1) in
      (match render ae flag dl tt bt fuel main base root d with None -> print_endline "N" | Some o -> print_endline ("O " ^ show o))
    | "P2" -> let ae = read_ae () in let b0 = nbool () in let t = pbody () in
      print_endline (b2s (c16_ok t) ^ " " ^ b2s (c15_ok ae t) ^ " " ^ b2s (top_ok b0 t))
    | t -> print_endline ("?" ^ t)
    with Failure m -> print_endline ("!" ^ m))
  done with End_of_file -> ()
