(* one case per line:  <cap> <op> <op> ...   ops: G:k:d g:k S:k:v D:k T:k:d C:k L X K V I R Y P
   prints  M <results> | S <results>   (model and spec), results ';'-separated *)
open Lru_x
let rec pos_of_int n = if n = 1 then XH else if n land 1 = 0 then XO (pos_of_int (n lsr 1)) else XI (pos_of_int (n lsr 1))
let n_of_int n = if n = 0 then N0 else Npos (pos_of_int n)
let rec int_of_pos = function XH -> 1 | XO p -> 2 * int_of_pos p | XI p -> 2 * int_of_pos p + 1
let int_of_n = function N0 -> 0 | Npos p -> int_of_pos p
let parse_op s =
  match String.split_on_char ':' s with
  | ["G"; k; d] -> Get (n_of_int (int_of_string k), n_of_int (int_of_string d))
  | ["g"; k] -> GetItem (n_of_int (int_of_string k))
  | ["S"; k; v] -> SetItem (n_of_int (int_of_string k), n_of_int (int_of_string v))
  | ["D"; k] -> DelItem (n_of_int (int_of_string k))
  | ["T"; k; d] -> SetDefault (n_of_int (int_of_string k), n_of_int (int_of_string d))
  | ["C"; k] -> Contains (n_of_int (int_of_string k))
  | ["L"] -> Len | ["X"] -> Clear | ["K"] -> Keys | ["V"] -> Values | ["I"] -> Items
  | ["R"] -> Reversed | ["Y"] -> Copy | ["P"] -> Pickle
  | _ -> failwith ("bad op " ^ s)
let ints l = String.concat "," (List.map (fun n -> string_of_int (int_of_n n)) l)
let show = function
  | ONone -> "N" | OVal v -> "v" ^ string_of_int (int_of_n v)
  | OBool b -> if b then "bT" else "bF" | ONat n -> "n" ^ string_of_int (int_of_n n)
  | OKeys ks -> "k" ^ ints ks | OVals vs -> "w" ^ ints vs
  | OItems kvs -> "i" ^ String.concat "," (List.map (fun (k, v) -> string_of_int (int_of_n k) ^ "=" ^ string_of_int (int_of_n v)) kvs)
  | OExn KeyError -> "eK" | OExn IndexError -> "eI" | OExn ValueErr -> "eV"
let () =
  try while true do
    let line = input_line stdin in
    match String.split_on_char ' ' line |> List.filter (fun x -> x <> "") with
    | [] -> print_endline ""
    | c :: ops ->
      let c = n_of_int (int_of_string c) in
      let ops = List.map parse_op ops in
      let (_, xs) = run (init c) ops in
      let (_, ys) = srun c [] ops in
      print_endline ("M " ^ String.concat ";" (List.map show xs) ^ " | S " ^ String.concat ";" (List.map show ys))
  done with End_of_file -> ()
