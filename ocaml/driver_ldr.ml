(* C28 driver.  Strings are comma-separated code points, "-" = empty string.
   S <cv> <name>                         -> N | P <piece> ...
   J <root> <k> <p1> .. <pk>             -> <joined> <posix normpath> <nt normpath>
   O <delim> <name>                      -> N | O <before> <after>
   G <cv> <nfiles> (<path> <id>)* <loader> <name>
        loader ::= F k sp.. | K root | D k (name id).. | C k loader.. | X delim k (prefix loader)..
                                         -> M <res> | S <res>     res ::= N | F <opened|~> <filename|~> <id> *)
open Ldr_x
let rec pos_of_int n = if n = 1 then XH else if n land 1 = 0 then XO (pos_of_int (n lsr 1)) else XI (pos_of_int (n lsr 1))
let n_of_int n = if n = 0 then N0 else Npos (pos_of_int n)
let rec int_of_pos = function XH -> 1 | XO p -> 2 * int_of_pos p | XI p -> 2 * int_of_pos p + 1
let int_of_n = function N0 -> 0 | Npos p -> int_of_pos p
let str_of s = if s = "-" then [] else List.map (fun x -> n_of_int (int_of_string x)) (String.split_on_char ',' s)
let show s = if s = [] then "-" else String.concat "," (List.map (fun n -> string_of_int (int_of_n n)) s)
let cv_of = function "p" -> posix | "n" -> nt | s -> failwith ("bad conv " ^ s)
let show_opt = function None -> "~" | Some s -> show s
let show_res = function NotFound -> "N" | Found (o, f, c) -> "F " ^ show_opt o ^ " " ^ show_opt f ^ " " ^ string_of_int (int_of_n c)
let rec take k toks f acc = if k = 0 then (List.rev acc, toks) else let (x, toks) = f toks in take (k - 1) toks f (x :: acc)
let tok = function t :: r -> (t, r) | [] -> failwith "eof"
let rec parse_loader toks =
  match toks with
  | "F" :: k :: r -> let (sps, r) = take (int_of_string k) r (fun t -> let (s, t) = tok t in (str_of s, t)) [] in (LFs sps, r)
  | "K" :: root :: r -> (LPkg (str_of root), r)
  | "D" :: k :: r ->
    let (m, r) = take (int_of_string k) r (fun t -> let (a, t) = tok t in let (b, t) = tok t in ((str_of a, n_of_int (int_of_string b)), t)) [] in
    (LDict m, r)
  | "C" :: k :: r -> let (ls, r) = take (int_of_string k) r parse_loader [] in (LChoice ls, r)
  | "X" :: d :: k :: r ->
    let (m, r) = take (int_of_string k) r (fun t -> let (a, t) = tok t in let (l, t) = parse_loader t in ((str_of a, l), t)) [] in
    (LPrefix (str_of d, m), r)
  | _ -> failwith "bad loader"
let slash = n_of_int 47
let () =
  try while true do
    let line = input_line stdin in
    match String.split_on_char ' ' line |> List.filter (fun x -> x <> "") with
    | [] -> print_endline ""
    | ["S"; cv; name] ->
      (match split_template_path (cv_of cv) (str_of name) with
       | None -> print_endline "N"
       | Some ps -> print_endline (String.concat " " ("P" :: List.map show ps)))
    | "J" :: root :: _ :: ps ->
      let j = posix_join (str_of root) (List.map str_of ps) in
      print_endline (show j ^ " " ^ show (posix_normpath j) ^ " " ^ show (nt_normpath j))
    | ["O"; d; name] ->
      (match split_once (str_of d) (str_of name) with
       | None -> print_endline "N"
       | Some (a, b) -> print_endline ("O " ^ show a ^ " " ^ show b))
    | "G" :: cv :: nf :: r ->
      let cv = cv_of cv in
      let (files, r) = take (int_of_string nf) r (fun t -> let (a, t) = tok t in let (b, t) = tok t in
                                                   ((List.filter (fun c -> c <> []) (split_on slash (str_of a)), n_of_int (int_of_string b)), t)) [] in
      let (l, r) = parse_loader r in
      let name = (match r with [n] -> str_of n | _ -> failwith "bad G line") in
      let m = get_source cv files l name in
      let s = first_found (List.map (fun (lf, n) -> get_source cv files lf n) (route l name)) in
      print_endline ("M " ^ show_res m ^ " | S " ^ show_res s)
    | _ -> failwith ("bad line " ^ line)
  done with End_of_file -> ()
