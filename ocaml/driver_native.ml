(* C34 driver.  One case per line:  <is_async 0|1> <entry R|A> <piece> ...
     piece = s<cp.cp...>  (a string, code points in decimal, 's' alone = "")  |  o<id>:<cp.cp...> (object, its str())
   literal_eval is instantiated symbolically (the harness applies CPython's):
   prints  M <res> S <res> G <res>   res = none | obj <id> | eval <cp.cp...> | rterr
   (model native_render, spec_native, model on the constant-grouped pieces) *)
open Native_x
let rec pos_of_int n = if n = 1 then XH else if n land 1 = 0 then XO (pos_of_int (n lsr 1)) else XI (pos_of_int (n lsr 1))
let n_of_int n = if n = 0 then N0 else Npos (pos_of_int n)
let rec int_of_pos = function XH -> 1 | XO p -> 2 * int_of_pos p | XI p -> 2 * int_of_pos p + 1
let int_of_n = function N0 -> 0 | Npos p -> int_of_pos p
let cps s = if s = "" then [] else List.map (fun x -> n_of_int (int_of_string x)) (String.split_on_char '.' s)
let show_cps l = String.concat "." (List.map (fun x -> string_of_int (int_of_n x)) l)
let tl1 s = String.sub s 1 (String.length s - 1)
let () =
  try while true do
    let line = input_line stdin in
    match String.split_on_char ' ' line with
    | a :: e :: ps ->
      let table = Hashtbl.create 8 in
      let piece p =
        if p.[0] = 's' then PStr (cps (tl1 p))
        else (match String.index_opt p ':' with
          | Some i -> let id = n_of_int (int_of_string (String.sub p 1 (i - 1))) in
            Hashtbl.replace table id (cps (String.sub p (i + 1) (String.length p - i - 1))); PObj id
          | None -> failwith "bad piece") in
      let ps = List.map piece (List.filter (fun x -> x <> "") ps) in
      let str_of o = try Hashtbl.find table o with Not_found -> [] in
      let le s = Some s in
      let show_out = function NNone -> "none" | NObj o -> "obj " ^ string_of_int (int_of_n o)
        | NLit s -> "eval " ^ show_cps s | NText s -> "text " ^ show_cps s in
      let show = function RVal v -> show_out v | RRuntimeError -> "rterr" in
      let is_async = a = "1" and entry = if e = "R" then Render else RenderAsync in
      print_endline ("M " ^ show (native_render le str_of is_async entry ps)
                     ^ " S " ^ (if valid_entry is_async entry then show_out (spec_native le str_of ps) else "rterr")
                     ^ " G " ^ show (native_render le str_of is_async entry (group_consts ps)))
    | _ -> print_endline "?"
  done with End_of_file -> ()
