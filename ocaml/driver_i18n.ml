(* one case per line, space-separated tokens; strings: - (empty) or code points joined by dots.
   T style ae trim ctx-or-none nsing piece.. hasplural [npl piece.. one numtxt] nvars {name tag value}..
     style = o , n ; piece = t:str , v:str ; tag = p , m
     prints:  R <str or N> C <ctx or none> S <sing> P <plur or none>
   F fmt nvars {name value}.. : pyformat, prints O str or N
   W str : trim_ws     U str : undouble    E str : escape_percent *)
open I18n_x
let rec pos_of_int n = if n = 1 then XH else if n land 1 = 0 then XO (pos_of_int (n lsr 1)) else XI (pos_of_int (n lsr 1))
let n_of_int n = if n = 0 then N0 else Npos (pos_of_int n)
let rec int_of_pos = function XH -> 1 | XO p -> 2 * int_of_pos p | XI p -> 2 * int_of_pos p + 1
let int_of_n = function N0 -> 0 | Npos p -> int_of_pos p
let str_of s = if s = "-" then [] else List.map (fun x -> n_of_int (int_of_string x)) (String.split_on_char '.' s)
let show s = if s = [] then "-" else String.concat "." (List.map (fun n -> string_of_int (int_of_n n)) s)
let toks = ref []
let next () = match !toks with [] -> failwith "eof" | t :: r -> toks := r; t
let nint () = int_of_string (next ())
let nstr () = str_of (next ())
let nbool () = (next ()) = "1"
let rec many n f = if n = 0 then [] else let x = f () in x :: many (n - 1) f
let piece () = let t = next () in let s = str_of (String.sub t 2 (String.length t - 2)) in
  if t.[0] = 'v' then PVar s else PText s
let opt_show = function None -> "none" | Some s -> show s
let () =
  try while true do
    let line = input_line stdin in
    toks := List.filter (fun x -> x <> "") (String.split_on_char ' ' line);
    (try match next () with
    | "T" ->
      let st = if next () = "o" then OldStyle else NewStyle in
      let ae = nbool () in let trim = nbool () in
      let ctx = (match next () with "none" -> None | s -> Some (str_of s)) in
      let ns = nint () in let sing = many ns piece in
      let hasp = nbool () in
      let (plur, count) = if hasp then begin
          let np = nint () in let pl = many np piece in
          let one = nbool () in let numtxt = nstr () in (Some pl, Some (one, numtxt)) end
        else (None, None) in
      let nv = nint () in
      let vars = many nv (fun () -> let nm = nstr () in let tag = next () in let v = nstr () in
                                    (nm, if tag = "m" then Mk v else Plain v)) in
      let c = trans_call st trim ctx sing plur vars in
      let r = render_trans st ae trim ctx sing plur count vars in
      print_endline ("R " ^ (match r with None -> "N" | Some o -> show o) ^ " C " ^ opt_show c.c_ctx
                     ^ " S " ^ show c.c_sing ^ " P " ^ opt_show c.c_plur)
    | "F" -> let f = nstr () in let nv = nint () in
      let vars = many nv (fun () -> let nm = nstr () in let v = nstr () in (nm, v)) in
      (match pyformat f vars with None -> print_endline "N" | Some o -> print_endline ("O " ^ show o))
    | "W" -> print_endline (show (trim_ws (nstr ())))
    | "U" -> print_endline (show (undouble (nstr ())))
    | "E" -> print_endline (show (escape_percent (nstr ())))
    | t -> print_endline ("?" ^ t)
    with Failure m -> print_endline ("!" ^ m))
  done with End_of_file -> ()
