(* one case per line:  up|down <frame> <frame> ...   frames root first,
   frame = <link 0|1>:<side guards as 0/1 digits, possibly empty>
   prints the number of generators the model says are left open *)
open Gens_x
let rec int_of_nat = function O -> 0 | S n -> 1 + int_of_nat n
let frame_of s =
  match String.split_on_char ':' s with
  | [l; sd] -> { link = (l = "1"); sides = List.init (String.length sd) (fun i -> sd.[i] = '1') }
  | _ -> failwith ("bad frame " ^ s)
let () =
  try while true do
    let line = input_line stdin in
    match String.split_on_char ' ' line |> List.filter (fun x -> x <> "") with
    | "up" :: fs -> print_endline (string_of_int (int_of_nat (leak_up (List.rev (List.map frame_of fs)))))
    | "down" :: fs -> print_endline (string_of_int (int_of_nat (leak_down (List.map frame_of fs))))
    | _ -> print_endline "?"
  done with End_of_file -> ()
