(* driver of the extracted expression-pipeline model (C02, C08, C20).
   one command per line, s-expression syntax:
     eval <cfg> <expr> <env>     -> S <res> | SL <log> | P <res> | PL <log> | R <text> | ST <text> | D <depth>
     gen  <cfg> <expr>           -> C <text>   (constant output)  or  X <python expression text>
     gexp <cfg> <expr>           -> X <python expression text of gen_opt>
     fold <cfg> <expr>           -> K <value> | I | Q    followed by  " | O <0/1>" (1: some subexpression is opaque to the model)
     lift <cfg> <expr> <env>     -> like eval, after substituting every context variable by its value (ExprSpec.subst)
   cfg atom: sb,ib=add+mul,iu=neg,async,ae,vol,rtae,noopt,pert  (comma separated flags) or "-" *)
open Expr_x

let rec pos_of_int n = if n = 1 then XH else if n land 1 = 0 then XO (pos_of_int (n lsr 1)) else XI (pos_of_int (n lsr 1))
let n_of_int n = if n = 0 then N0 else Npos (pos_of_int n)
let z_of_int n = if n = 0 then Z0 else if n > 0 then Zpos (pos_of_int n) else Zneg (pos_of_int (-n))
let rec int_of_pos = function XH -> 1 | XO p -> 2 * int_of_pos p | XI p -> 2 * int_of_pos p + 1
let int_of_n = function N0 -> 0 | Npos p -> int_of_pos p
let rec int_of_nat = function O -> 0 | S n -> 1 + int_of_nat n
let rec nat_of_int n = if n <= 0 then O else S (nat_of_int (n - 1))

(* ---- s-expressions ---- *)
type sx = A of string | L of sx list
let parse_sx (s : string) : sx list =
  let n = String.length s in
  let pos = ref 0 in
  let rec skip () = if !pos < n && (s.[!pos] = ' ' || s.[!pos] = '\t') then (incr pos; skip ()) in
  let rec item () =
    skip ();
    if !pos >= n then failwith "eof"
    else if s.[!pos] = '(' then begin
      incr pos;
      let items = ref [] in
      let rec loop () =
        skip ();
        if !pos >= n then failwith "unclosed"
        else if s.[!pos] = ')' then incr pos
        else (items := item () :: !items; loop ()) in
      loop (); L (List.rev !items) end
    else begin
      let st = !pos in
      while !pos < n && s.[!pos] <> ' ' && s.[!pos] <> '(' && s.[!pos] <> ')' do incr pos done;
      A (String.sub s st (!pos - st)) end in
  let out = ref [] in
  (try while true do skip (); if !pos >= n then raise Exit; out := item () :: !out done with Exit -> ());
  List.rev !out

let ios = int_of_string
let str_of_sx = function
  | L (A "s" :: cs) -> List.map (function A c -> n_of_int (ios c) | _ -> failwith "str") cs
  | _ -> failwith "str expected"

let rec pairs = function [] -> [] | a :: b :: r -> (a, b) :: pairs r | _ -> failwith "odd pairs"

let rec value_of_sx = function
  | A "n" -> VNone
  | L [A "i"; A z] -> VInt (z_of_int (ios z))
  | L [A "b"; A b] -> VBool (b = "1")
  | L (A "s" :: _) as s -> VStr (str_of_sx s)
  | L (A "m" :: cs) -> VMk (str_of_sx (L (A "s" :: cs)))
  | L (A "l" :: vs) -> VList (List.map value_of_sx vs)
  | L (A "t" :: vs) -> VTuple (List.map value_of_sx vs)
  | L (A "d" :: vs) -> VDict (List.map (fun (k, v) -> (value_of_sx k, value_of_sx v)) (pairs vs))
  | L [A "o"; A id; L (A "a" :: ats); L (A "k" :: its)] ->
      VObj (n_of_int (ios id),
            List.map (fun (k, v) -> (str_of_sx k, value_of_sx v)) (pairs ats),
            List.map (fun (k, v) -> (value_of_sx k, value_of_sx v)) (pairs its))
  | L [A "f"; A id] -> VFun (n_of_int (ios id))
  | L [A "F"; A a; A b] -> VFloat (z_of_int (ios a), z_of_int (ios b))
  | L [A "u"; A "name"; s] -> VUndef (UName (str_of_sx s))
  | L [A "u"; A "attr"; s] -> VUndef (UAttr (str_of_sx s))
  | L [A "u"; A "item"] -> VUndef UItem
  | L [A "u"; A "cond"] -> VUndef UCond
  | _ -> failwith "value"

let binop_of = function
  | "add" -> Add | "sub" -> Sub | "mul" -> Mul | "div" -> Div | "floordiv" -> FloorDiv | "mod" -> Mod | "pow" -> Pow
  | s -> failwith ("binop " ^ s)
let unop_of = function "neg" -> Neg | "pos" -> Pos | s -> failwith ("unop " ^ s)
let cmpop_of = function
  | "eq" -> CEq | "ne" -> CNe | "lt" -> CLt | "lteq" -> CLe | "gt" -> CGt | "gteq" -> CGe | "in" -> CIn | "notin" -> CNotIn
  | s -> failwith ("cmpop " ^ s)

let rec expr_of_sx = function
  | L [A "C"; v] -> EConst (value_of_sx v)
  | L [A "N"; s] -> EName (str_of_sx s)
  | L [A "B"; A op; a; b] -> EBin (binop_of op, expr_of_sx a, expr_of_sx b)
  | L [A "U"; A op; a] -> EUn (unop_of op, expr_of_sx a)
  | L [A "!"; a] -> ENot (expr_of_sx a)
  | L [A "&"; a; b] -> EAnd (expr_of_sx a, expr_of_sx b)
  | L [A "|"; a; b] -> EOr (expr_of_sx a, expr_of_sx b)
  | L (A "~" :: es) -> EConcat (List.map expr_of_sx es)
  | L (A "cmp" :: a :: ops) ->
      ECompare (expr_of_sx a, List.map (function L [A op; e] -> (cmpop_of op, expr_of_sx e) | _ -> failwith "operand") ops)
  | L [A "?"; t; a] -> ECond (expr_of_sx t, expr_of_sx a, None)
  | L [A "?"; t; a; b] -> ECond (expr_of_sx t, expr_of_sx a, Some (expr_of_sx b))
  | L [A "."; a; s] -> EGetattr (expr_of_sx a, str_of_sx s)
  | L [A "[]"; a; k] -> EGetitem (expr_of_sx a, expr_of_sx k)
  | L [A "sl"; a; lo; hi; st] ->
      let o = function A "_" -> None | x -> Some (expr_of_sx x) in
      ESlice (expr_of_sx a, o lo, o hi, o st)
  | L (A "L" :: es) -> EList (List.map expr_of_sx es)
  | L (A "T" :: es) -> ETuple (List.map expr_of_sx es)
  | L (A "D" :: kvs) -> EDict (List.map (function L [k; v] -> (expr_of_sx k, expr_of_sx v) | _ -> failwith "pair") kvs)
  | L [A "call"; f; L (A "args" :: args); L (A "kw" :: kw)] ->
      ECall (expr_of_sx f, List.map expr_of_sx args,
             List.map (function L [k; v] -> (str_of_sx k, expr_of_sx v) | _ -> failwith "kw") kw)
  | L (A "F" :: a :: s :: args) -> EFilter (expr_of_sx a, str_of_sx s, List.map expr_of_sx args)
  | L (A "is" :: a :: s :: args) -> ETest (expr_of_sx a, str_of_sx s, List.map expr_of_sx args)
  | _ -> failwith "expr"

let env_of_sx = function
  | L (A "env" :: kvs) -> List.map (fun (k, v) -> (str_of_sx k, value_of_sx v)) (pairs kvs)
  | _ -> failwith "env"

let cfg_of_atom (s : string) : cfg =
  let fl = if s = "-" then [] else String.split_on_char ',' s in
  let has f = List.mem f fl in
  let lst pre conv =
    List.concat_map (fun f ->
      let lp = String.length pre in
      if String.length f > lp && String.sub f 0 lp = pre then
        List.map conv (List.filter (fun x -> x <> "") (String.split_on_char '+' (String.sub f lp (String.length f - lp))))
      else []) fl in
  let ae = has "ae" in
  let vol = has "vol" in
  mk_cfg (has "sb") (lst "ib=" binop_of) (lst "iu=" unop_of) (has "async") ae vol
    (if vol then has "rtae" else ae) (not (has "noopt")) (has "pert")

(* ---- printing values canonically ---- *)
let codes s = String.concat " " (List.map (fun c -> string_of_int (int_of_n c)) s)
let sstr tag s = if s = [] then "(" ^ tag ^ ")" else "(" ^ tag ^ " " ^ codes s ^ ")"
let zstr z = match int_str z with
  | Some s -> String.concat "" (List.map (fun c -> String.make 1 (Char.chr (int_of_n c))) s)
  | None -> "BIG"
let rec show_value = function
  | VInt z -> "(i " ^ zstr z ^ ")"
  | VBool b -> if b then "(b 1)" else "(b 0)"
  | VNone -> "n"
  | VStr s -> sstr "s" s
  | VMk s -> sstr "m" s
  | VList l -> "(l" ^ String.concat "" (List.map (fun v -> " " ^ show_value v) l) ^ ")"
  | VTuple l -> "(t" ^ String.concat "" (List.map (fun v -> " " ^ show_value v) l) ^ ")"
  | VDict kv -> "(d" ^ String.concat "" (List.map (fun (k, v) -> " " ^ show_value k ^ " " ^ show_value v) kv) ^ ")"
  | VObj (id, _, _) -> "(o " ^ string_of_int (int_of_n id) ^ ")"
  | VFun id -> "(f " ^ string_of_int (int_of_n id) ^ ")"
  | VUndef (UName s) -> "(u name " ^ sstr "s" s ^ ")"
  | VUndef (UAttr s) -> "(u attr " ^ sstr "s" s ^ ")"
  | VUndef UItem -> "(u item)"
  | VUndef UCond -> "(u cond)"
  | VUndef (USec s) -> "(u sec " ^ sstr "s" s ^ ")"
  | VFloat (a, b) -> "(F " ^ zstr a ^ " " ^ zstr b ^ ")"
let show_err = function
  | EType -> "type" | EZero -> "zero" | EUndef -> "undef" | EKey -> "key" | EValue -> "value" | ESec -> "sec"
  | ECallErr -> "call" | ENoFilter -> "nofilter" | EOpaque -> "opaque" | EFuel -> "fuel"
let show_res f = function Ok v -> "ok " ^ f v | Err e -> "err " ^ show_err e
let binop_name = function Add -> "+" | Sub -> "-" | Mul -> "*" | Div -> "/" | FloorDiv -> "//" | Mod -> "%" | Pow -> "**"
let unop_name = function Neg -> "-" | Pos -> "+"
let show_event = function
  | EvBin (op, a, b) -> "(bin " ^ binop_name op ^ " " ^ show_value a ^ " " ^ show_value b ^ ")"
  | EvUn (op, a) -> "(un " ^ unop_name op ^ " " ^ show_value a ^ ")"
  | EvCall (f, args, kw) ->
      "(call " ^ string_of_int (int_of_n f) ^ " (" ^ String.concat " " (List.map show_value args) ^ ") ("
      ^ String.concat " " (List.map (fun (k, v) -> sstr "s" k ^ " " ^ show_value v) kw) ^ "))"
let show_log l = String.concat " " (List.map show_event (List.rev l))
let show_text s = sstr "s" s

(* ---- printing the target as Python source ---- *)
let py_str s =
  "'" ^ String.concat "" (List.map (fun c -> let c = int_of_n c in
      if c < 0x10000 then Printf.sprintf "\\u%04x" c else Printf.sprintf "\\U%08x" c) s) ^ "'"
let ident s = String.concat "" (List.map (fun c -> String.make 1 (Char.chr (int_of_n c land 255))) s)
let rec py_value = function
  | VInt z -> let s = zstr z in if String.length s > 0 && s.[0] = '-' then "(" ^ s ^ ")" else s
  | VBool b -> if b then "True" else "False"
  | VNone -> "None"
  | VStr s -> py_str s
  | VMk s -> "Markup(" ^ py_str s ^ ")"
  | VList l -> "[" ^ String.concat ", " (List.map py_value l) ^ "]"
  | VTuple [x] -> "(" ^ py_value x ^ ",)"
  | VTuple l -> "(" ^ String.concat ", " (List.map py_value l) ^ ")"
  | VDict kv -> "{" ^ String.concat ", " (List.map (fun (k, v) -> py_value k ^ ": " ^ py_value v) kv) ^ "}"
  | VFloat (a, b) -> "__F__(" ^ zstr a ^ ", " ^ zstr b ^ ")"
  | VObj (id, _, _) -> "__O__(" ^ string_of_int (int_of_n id) ^ ")"
  | VFun id -> "__f__(" ^ string_of_int (int_of_n id) ^ ")"
  | VUndef _ -> "__U__()"
let cmp_name = function
  | CEq -> "==" | CNe -> "!=" | CLt -> "<" | CLe -> "<=" | CGt -> ">" | CGe -> ">=" | CIn -> "in" | CNotIn -> "not in"
let aw b s = if b then "(await auto_await(" ^ s ^ "))" else s
let rec py = function
  | TConst v -> py_value v
  | TNameLoad x -> let x = ident x in "(undefined(name='" ^ x ^ "') if l_" ^ x ^ " is missing else l_" ^ x ^ ")"
  | TBin (op, a, b) -> "(" ^ py a ^ " " ^ binop_name op ^ " " ^ py b ^ ")"
  | TCallBinop (op, a, b) -> "environment.call_binop(context, '" ^ binop_name op ^ "', " ^ py a ^ ", " ^ py b ^ ")"
  | TUn (op, a) -> "(" ^ unop_name op ^ py a ^ ")"
  | TCallUnop (op, a) -> "environment.call_unop(context, '" ^ unop_name op ^ "', " ^ py a ^ ")"
  | TNot a -> "(not " ^ py a ^ ")"
  | TAnd (a, b) -> "(" ^ py a ^ " and " ^ py b ^ ")"
  | TOr (a, b) -> "(" ^ py a ^ " or " ^ py b ^ ")"
  | TJoin (k, ts) ->
      (match k with JStr -> "str_join" | JMarkup -> "markup_join"
                  | JVolatile -> "(markup_join if context.eval_ctx.autoescape else str_join)")
      ^ "((" ^ String.concat "" (List.map (fun t -> py t ^ ", ") ts) ^ "))"
  | TCompare (a, ops) -> "(" ^ py a ^ String.concat "" (List.map (fun (o, t) -> " " ^ cmp_name o ^ " " ^ py t) ops) ^ ")"
  | TIfExp (a, t, b) ->
      "(" ^ py a ^ " if " ^ py t ^ " else " ^ (match b with Some b -> py b | None -> "cond_expr_undefined()") ^ ")"
  | TEnvGetattr (w, a, name) -> aw w ("environment.getattr(" ^ py a ^ ", '" ^ ident name ^ "')")
  | TEnvGetitem (w, a, k) -> aw w ("environment.getitem(" ^ py a ^ ", " ^ py k ^ ")")
  | TSubSlice (a, lo, hi, st) ->
      let o = function Some t -> py t | None -> "" in
      py a ^ "[" ^ o lo ^ ":" ^ o hi ^ (match st with Some t -> ":" ^ py t | None -> "") ^ "]"
  | TList ts -> "[" ^ String.concat ", " (List.map py ts) ^ "]"
  | TTuple [t] -> "(" ^ py t ^ ",)"
  | TTuple ts -> "(" ^ String.concat ", " (List.map py ts) ^ ")"
  | TDict kvs -> "{" ^ String.concat ", " (List.map (fun (k, v) -> py k ^ ": " ^ py v) kvs) ^ "}"
  | TCall (w, sb, f, args, kw) ->
      aw w ((if sb then "environment.call(context, " else "context.call(") ^ py f
            ^ String.concat "" (List.map (fun t -> ", " ^ py t) args)
            ^ String.concat "" (List.map (fun (k, t) -> ", " ^ ident k ^ "=" ^ py t) kw) ^ ")")
  | TFilter (w, name, a, args) ->
      let pass = match filter_kind name with
        | Some FEvalCtx -> "context.eval_ctx, " | Some FContext -> "context, " | _ -> "" in
      aw w ("t_F_" ^ ident name ^ "(" ^ pass ^ py a ^ String.concat "" (List.map (fun t -> ", " ^ py t) args) ^ ")")
  | TTest (w, name, a, args) ->
      aw w ("t_T_" ^ ident name ^ "(" ^ py a ^ String.concat "" (List.map (fun t -> ", " ^ py t) args) ^ ")")

(* is some subexpression opaque to the model's as_const? *)
let rec subexprs e =
  let opt = function Some x -> subexprs x | None -> [] in
  e :: (match e with
    | EConst _ | EName _ -> []
    | EBin (_, a, b) | EAnd (a, b) | EOr (a, b) | EGetitem (a, b) -> subexprs a @ subexprs b
    | EUn (_, a) | ENot a | EGetattr (a, _) -> subexprs a
    | EConcat es | EList es | ETuple es -> List.concat_map subexprs es
    | ECompare (a, ops) -> subexprs a @ List.concat_map (fun (_, x) -> subexprs x) ops
    | ECond (t, a, b) -> subexprs t @ subexprs a @ opt b
    | ESlice (a, lo, hi, st) -> subexprs a @ opt lo @ opt hi @ opt st
    | EDict kvs -> List.concat_map (fun (k, v) -> subexprs k @ subexprs v) kvs
    | ECall (f, args, kw) -> subexprs f @ List.concat_map subexprs args @ List.concat_map (fun (_, x) -> subexprs x) kw
    | EFilter (a, _, args) | ETest (a, _, args) -> subexprs a @ List.concat_map subexprs args)
let any_opaque c e = List.exists (fun x -> match run_fold c x with FOpq -> true | _ -> false) (subexprs e)

(* ---- tokens in, expressions out (K-parse) ---- *)
let optok_of = function
  | "add" -> OAdd | "sub" -> OSub | "mul" -> OMul | "div" -> ODiv | "floordiv" -> OFloorDiv | "mod" -> OMod
  | "pow" -> OPow | "tilde" -> OTilde | "eq" -> OEq | "ne" -> ONe | "lt" -> OLt | "lteq" -> OLe | "gt" -> OGt
  | "gteq" -> OGe | "lparen" -> OLParen | "rparen" -> ORParen | "lbracket" -> OLBracket | "rbracket" -> ORBracket
  | "lbrace" -> OLBrace | "rbrace" -> ORBrace | "dot" -> ODot | "comma" -> OComma | "colon" -> OColon
  | "pipe" -> OPipe | "assign" -> OAssign | "semicolon" -> OSemicolon | s -> failwith ("optok " ^ s)
let tok_of_sx = function
  | L [A "name"; s] -> KName (str_of_sx s)
  | L [A "int"; A z] -> KInt (z_of_int (ios z))
  | L [A "str"; s] -> KStr (str_of_sx s)
  | A "float" -> KFloat
  | A o -> KOp (optok_of o)
  | _ -> failwith "tok"
let binop_id = function Add -> "add" | Sub -> "sub" | Mul -> "mul" | Div -> "div" | FloorDiv -> "floordiv" | Mod -> "mod" | Pow -> "pow"
let cmpop_id = function
  | CEq -> "eq" | CNe -> "ne" | CLt -> "lt" | CLe -> "lteq" | CGt -> "gt" | CGe -> "gteq" | CIn -> "in" | CNotIn -> "notin"
let rec show_expr e =
  let sp l = String.concat "" (List.map (fun x -> " " ^ show_expr x) l) in
  let o = function Some x -> show_expr x | None -> "_" in
  match e with
  | EConst v -> "(C " ^ show_value v ^ ")"
  | EName s -> "(N " ^ sstr "s" s ^ ")"
  | EBin (op, a, b) -> "(B " ^ binop_id op ^ " " ^ show_expr a ^ " " ^ show_expr b ^ ")"
  | EUn (op, a) -> "(U " ^ (match op with Neg -> "neg" | Pos -> "pos") ^ " " ^ show_expr a ^ ")"
  | ENot a -> "(! " ^ show_expr a ^ ")"
  | EAnd (a, b) -> "(& " ^ show_expr a ^ " " ^ show_expr b ^ ")"
  | EOr (a, b) -> "(| " ^ show_expr a ^ " " ^ show_expr b ^ ")"
  | EConcat es -> "(~" ^ sp es ^ ")"
  | ECompare (a, ops) -> "(cmp " ^ show_expr a ^ String.concat "" (List.map (fun (c, x) -> " (" ^ cmpop_id c ^ " " ^ show_expr x ^ ")") ops) ^ ")"
  | ECond (t, a, None) -> "(? " ^ show_expr t ^ " " ^ show_expr a ^ ")"
  | ECond (t, a, Some b) -> "(? " ^ show_expr t ^ " " ^ show_expr a ^ " " ^ show_expr b ^ ")"
  | EGetattr (a, s) -> "(. " ^ show_expr a ^ " " ^ sstr "s" s ^ ")"
  | EGetitem (a, k) -> "([] " ^ show_expr a ^ " " ^ show_expr k ^ ")"
  | ESlice (a, lo, hi, st) -> "(sl " ^ show_expr a ^ " " ^ o lo ^ " " ^ o hi ^ " " ^ o st ^ ")"
  | EList es -> "(L" ^ sp es ^ ")"
  | ETuple es -> "(T" ^ sp es ^ ")"
  | EDict kvs -> "(D" ^ String.concat "" (List.map (fun (k, v) -> " (" ^ show_expr k ^ " " ^ show_expr v ^ ")") kvs) ^ ")"
  | ECall (f, args, kw) ->
      "(call " ^ show_expr f ^ " (args" ^ sp args ^ ") (kw"
      ^ String.concat "" (List.map (fun (k, v) -> " (" ^ sstr "s" k ^ " " ^ show_expr v ^ ")") kw) ^ "))"
  | EFilter (a, s, args) -> "(F " ^ show_expr a ^ " " ^ sstr "s" s ^ sp args ^ ")"
  | ETest (a, s, args) -> "(is " ^ show_expr a ^ " " ^ sstr "s" s ^ sp args ^ ")"
let show_pres (r : expr pres) = match r with
  | ROk (e, _) -> "ok " ^ show_expr e | RErr _ -> "err" | RUnsup -> "unsup" | RFuel -> "fuel"

let optok_name = function
  | OAdd -> "add" | OSub -> "sub" | OMul -> "mul" | ODiv -> "div" | OFloorDiv -> "floordiv" | OMod -> "mod"
  | OPow -> "pow" | OTilde -> "tilde" | OEq -> "eq" | ONe -> "ne" | OLt -> "lt" | OLe -> "lteq" | OGt -> "gt"
  | OGe -> "gteq" | OLParen -> "lparen" | ORParen -> "rparen" | OLBracket -> "lbracket" | ORBracket -> "rbracket"
  | OLBrace -> "lbrace" | ORBrace -> "rbrace" | ODot -> "dot" | OComma -> "comma" | OColon -> "colon"
  | OPipe -> "pipe" | OAssign -> "assign" | OSemicolon -> "semicolon"
let show_tok = function
  | KName s -> "(name " ^ sstr "s" s ^ ")" | KInt z -> "(int " ^ zstr z ^ ")" | KStr s -> "(str " ^ sstr "s" s ^ ")"
  | KFloat -> "float" | KOp o -> optok_name o

(* ---- statements (C01 K-parse) ---- *)
let stok_of_sx = function
  | L [A "data"; s; A l] -> (SData (str_of_sx s), nat_of_int (ios l))
  | L [A "vb"; A l] -> (SVarBegin, nat_of_int (ios l))
  | L [A "ve"; A l] -> (SVarEnd, nat_of_int (ios l))
  | L [A "bb"; A l] -> (SBlockBegin, nat_of_int (ios l))
  | L [A "be"; A l] -> (SBlockEnd, nat_of_int (ios l))
  | L [A "t"; t; A l] -> (STok (tok_of_sx t), nat_of_int (ios l))
  | _ -> failwith "stok"
let rec show_target = function
  | TgName x -> "(tn " ^ sstr "s" x ^ ")"
  | TgNS (x, a) -> "(tns " ^ sstr "s" x ^ " " ^ sstr "s" a ^ ")"
  | TgTuple ts -> "(tt" ^ String.concat "" (List.map (fun t -> " " ^ show_target t) ts) ^ ")"
let show_chain f = "(chain" ^ String.concat "" (List.map (fun (n, args) -> " (" ^ sstr "s" n ^ String.concat "" (List.map (fun e -> " " ^ show_expr e) args) ^ ")") f) ^ ")"
let b01 b = if b then "1" else "0"
let strs l = "(" ^ String.concat " " (List.map (sstr "s") l) ^ ")"
let exprs l = "(" ^ String.concat " " (List.map show_expr l) ^ ")"
let rec show_stmt s =
  let body b = "(" ^ String.concat " " (List.map show_stmt b) ^ ")" in
  match s with
  | SOutput items -> "(out" ^ String.concat "" (List.map (function OData d -> " (data " ^ sstr "s" d ^ ")" | OExpr e -> " (e " ^ show_expr e ^ ")") items) ^ ")"
  | SFor (tg, it, b, el, test, r) ->
      "(for " ^ show_target tg ^ " " ^ show_expr it ^ " " ^ body b ^ " " ^ body el ^ " " ^ (match test with Some t -> show_expr t | None -> "_") ^ " " ^ b01 r ^ ")"
  | SIf (t, b, elifs, el) ->
      "(if " ^ show_expr t ^ " " ^ body b ^ " (" ^ String.concat " " (List.map (fun (t2, b2) -> "(" ^ show_expr t2 ^ " " ^ body b2 ^ ")") elifs) ^ ") " ^ body el ^ ")"
  | SAssign (tg, e) -> "(assign " ^ show_target tg ^ " " ^ show_expr e ^ ")"
  | SAssignBlock (tg, f, b) -> "(assignblock " ^ show_target tg ^ " " ^ show_chain f ^ " " ^ body b ^ ")"
  | SWith (tgs, vals, b) -> "(with (" ^ String.concat " " (List.map show_target tgs) ^ ") " ^ exprs vals ^ " " ^ body b ^ ")"
  | SAutoescape (e, b) -> "(autoescape " ^ show_expr e ^ " " ^ body b ^ ")"
  | SBlock (n, sc, rq, b) -> "(block " ^ sstr "s" n ^ " " ^ b01 sc ^ " " ^ b01 rq ^ " " ^ body b ^ ")"
  | SExtends e -> "(extends " ^ show_expr e ^ ")"
  | SInclude (e, ign, wc) -> "(include " ^ show_expr e ^ " " ^ b01 ign ^ " " ^ b01 wc ^ ")"
  | SImport (e, t, wc) -> "(import " ^ show_expr e ^ " " ^ sstr "s" t ^ " " ^ b01 wc ^ ")"
  | SFromImport (e, names, wc) ->
      "(from " ^ show_expr e ^ " (" ^ String.concat " " (List.map (fun (n, a) -> "(" ^ sstr "s" n ^ " " ^ (match a with Some x -> sstr "s" x | None -> "_") ^ ")") names) ^ ") " ^ b01 wc ^ ")"
  | SMacro (n, args, defs, b) -> "(macro " ^ sstr "s" n ^ " " ^ strs args ^ " " ^ exprs defs ^ " " ^ body b ^ ")"
  | SCallBlock (args, defs, c, b) -> "(callblock " ^ strs args ^ " " ^ exprs defs ^ " " ^ show_expr c ^ " " ^ body b ^ ")"
  | SFilterBlock (f, b) -> "(filterblock " ^ show_chain f ^ " " ^ body b ^ ")"
let show_sres = function
  | SOk b -> "ok (" ^ String.concat " " (List.map show_stmt b) ^ ")"
  | SSyntaxErr l -> "err " ^ string_of_int (int_of_nat l)
  | SUnsup -> "unsup" | SFuelStmt -> "fuel-stmt" | SFuelTag -> "fuel-tag" | SFuelExpr -> "fuel-expr"
  | SInternal t -> "internal " ^ string_of_int (int_of_nat t)

let do_eval c e rho =
  let n = S (depth e) in
  let (s, sl) = run_spec c n e rho in
  let (p, pl) = run_py c n e rho in
  let (r, _) = run_render c n e rho in
  let (st, _) = run_spec_text c n e rho in
  "S " ^ show_res show_value s ^ " | SL " ^ show_log sl ^ " | P " ^ show_res show_value p ^ " | PL " ^ show_log pl
  ^ " | R " ^ show_res show_text r ^ " | ST " ^ show_res show_text st ^ " | D " ^ string_of_int (int_of_nat (depth e))

let () =
  try while true do
    let line = input_line stdin in
    let out =
      try
        match parse_sx line with
        | [A "eval"; A c; e; rho] -> do_eval (cfg_of_atom c) (expr_of_sx e) (env_of_sx rho)
        | [A "lift"; A c; e; rho] ->
            let rho = env_of_sx rho in
            let e = List.fold_left (fun e (x, v) -> subst x v e) (expr_of_sx e) rho in
            do_eval (cfg_of_atom c) e []
        | [A "gen"; A c; e] ->
            (match run_gen (cfg_of_atom c) (expr_of_sx e) with
             | OutConst s -> "C " ^ show_text s
             | OutRun t -> "X " ^ py t)
        | [A "parse"; L toks] -> show_pres (parse_expr (List.map tok_of_sx toks))
        | [A "pprint"; L toks] -> show_pres (parse_print (List.map tok_of_sx toks))
        | [A "sparse"; L toks] -> show_sres (parse (List.map stok_of_sx toks))
        | [A "unparse"; e] ->
            let e = expr_of_sx e in
            let ts = unparse e in
            "W " ^ (if wf e then "1" else "0") ^ " | T (" ^ String.concat " " (List.map show_tok ts) ^ ") | P " ^ show_pres (parse_expr ts)
        | [A "gexp"; A c; e] -> "X " ^ py (run_gen_expr (cfg_of_atom c) (expr_of_sx e))
        | [A "fold"; A c; e] ->
            let c = cfg_of_atom c in let e = expr_of_sx e in
            (match run_fold c e with FConst v -> "K " ^ show_value v | FImp -> "I" | FOpq -> "Q")
            ^ " | O " ^ (if any_opaque c e then "1" else "0")
        | _ -> "BAD command"
      with Failure m -> "BAD " ^ m | Not_found -> "BAD notfound" in
    print_endline out
  done with End_of_file -> ()
