(* C25 driver.  one case per line:
     <auto_reload 0|1> <upt N|V|T|F> <cache size> <k> (<name> <version>)*k <op> ...
   ops:  g:<n>   s:<n1>,<n2>,..  (s: alone = empty list)   p:<n>:<v>   d:<n>
   prints per op, ';'-separated:  T<tid>:<version>/<len>   NF/<len>   CR/<len>   U      (len '-' = no cache) *)
open Tc_x
let rec pos_of_int n = if n = 1 then XH else if n land 1 = 0 then XO (pos_of_int (n lsr 1)) else XI (pos_of_int (n lsr 1))
let n_of_int n = if n = 0 then N0 else Npos (pos_of_int n)
let z_of_int n = if n = 0 then Z0 else if n > 0 then Zpos (pos_of_int n) else Zneg (pos_of_int (-n))
let rec int_of_pos = function XH -> 1 | XO p -> 2 * int_of_pos p | XI p -> 2 * int_of_pos p + 1
let int_of_n = function N0 -> 0 | Npos p -> int_of_pos p
let parse_op s =
  match String.split_on_char ':' s with
  | ["g"; n] -> OGet (n_of_int (int_of_string n))
  | ["s"; ns] -> OSelect (if ns = "" then [] else List.map (fun x -> n_of_int (int_of_string x)) (String.split_on_char ',' ns))
  | ["p"; n; v] -> OPut (n_of_int (int_of_string n), n_of_int (int_of_string v))
  | ["d"; n] -> ODel (n_of_int (int_of_string n))
  | _ -> failwith ("bad op " ^ s)
let show_len = function None -> "-" | Some n -> string_of_int (int_of_n n)
let show = function
  | OutUnit -> "U"
  | OutR (RTpl (t, v), l) -> "T" ^ string_of_int (int_of_n t) ^ ":" ^ string_of_int (int_of_n v) ^ "/" ^ show_len l
  | OutR (RNotFound, l) -> "NF/" ^ show_len l
  | OutR (RCrash, l) -> "CR/" ^ show_len l
let () =
  try while true do
    let line = input_line stdin in
    match String.split_on_char ' ' line |> List.filter (fun x -> x <> "") with
    | [] -> print_endline ""
    | "Y" :: ar :: u :: size :: nl :: k :: rest ->
      (* layered loader:  Y <auto_reload> <F|C> <size> <number of layers> <k> (<layer> <name> <version>)*k <op>...
         ops: g:<n>  s:<n,..>  p<layer>:<n>:<v>  d<layer>:<n>   (layers counted from 1) *)
      let u = (match u with "F" -> LFs | "C" -> LChoice | _ -> failwith "bad lupt") in
      let nl = int_of_string nl and k = int_of_string k in
      let tbl = Array.make nl [] in
      let rec take i l = if i = 0 then l else
          (match l with j :: n :: v :: r -> let j = int_of_string j - 1 in
             tbl.(j) <- (int_of_string n, int_of_string v) :: tbl.(j); take (i - 1) r
           | _ -> failwith "bad init") in
      let ops = take k rest in
      let layer_of lst = (fun n -> match List.assoc_opt (int_of_n n) lst with Some v -> Some (n_of_int v) | None -> None) in
      let ls = Array.to_list (Array.map layer_of tbl) in
      let parse s =
        match String.split_on_char ':' s with
        | ["g"; n] -> LGet (n_of_int (int_of_string n))
        | ["s"; ns] -> LSelect (if ns = "" then [] else List.map (fun x -> n_of_int (int_of_string x)) (String.split_on_char ',' ns))
        | [pj; n; v] when String.length pj >= 2 && pj.[0] = 'p' ->
          LPut (n_of_int (int_of_string (String.sub pj 1 (String.length pj - 1)) - 1), n_of_int (int_of_string n), n_of_int (int_of_string v))
        | [dj; n] when String.length dj >= 2 && dj.[0] = 'd' ->
          LDel (n_of_int (int_of_string (String.sub dj 1 (String.length dj - 1)) - 1), n_of_int (int_of_string n))
        | _ -> failwith ("bad layered op " ^ s) in
      let e = new_lenv (ar = "1") u (z_of_int (int_of_string size)) ls in
      let (_, xs) = lrun e (List.map parse ops) in
      print_endline (String.concat ";" (List.map show xs))
    | ar :: u :: size :: k :: rest ->
      let u = (match u with "N" -> UNone | "V" -> UVersion | "T" -> UConst true | "F" -> UConst false | _ -> failwith "bad upt") in
      let k = int_of_string k in
      let rec take i l acc = if i = 0 then (acc, l) else
          (match l with n :: v :: r -> take (i - 1) r (put acc (n_of_int (int_of_string n)) (Some (n_of_int (int_of_string v)))) | _ -> failwith "bad init") in
      let (l0, ops) = take k rest (fun _ -> None) in
      let e = new_env (ar = "1") u (z_of_int (int_of_string size)) l0 in
      (* a:<0|1> sets env.auto_reload (a public attribute) between requests: the model's field is updated *)
      let rec go e ops acc cur =
        match ops with
        | [] -> let (_, xs) = run e (List.rev cur) in List.rev_append acc xs
        | o :: r when String.length o = 3 && String.sub o 0 2 = "a:" ->
          let (e', xs) = run e (List.rev cur) in
          go { e' with auto_reload = (o = "a:1") } r (OutUnit :: List.rev_append xs acc) []
        | o :: r -> go e r acc (parse_op o :: cur) in
      let xs = go e ops [] [] in
      print_endline (String.concat ";" (List.map show xs))
    | _ -> failwith ("bad line " ^ line)
  done with End_of_file -> ()
