(* C21 driver.  Lines:
     C <cls> <parent|-> <local> <nameid>:<Kind>:<fid> ...   add a class table row     -> "ok"
     F <tkind> <tkind> <dkind>                              facts                     -> "ok"
     Q <cls> <op>                                           dispatch one cell         -> "<outcome> logs=<..> spec=<..>"
     M <hint|~> <obj|~> <s|o> <name>                        message / debug string    -> "<cps> | <cps>"
   classes: NBU NBC NBD NBS LBU LBC LBD LBS; strings: comma-separated code points, '-' = empty *)
open Undef_x
let rec pos_of_int n = if n = 1 then XH else if n land 1 = 0 then XO (pos_of_int (n lsr 1)) else XI (pos_of_int (n lsr 1))
let n_of_int n = if n = 0 then N0 else Npos (pos_of_int n)
let rec int_of_pos = function XH -> 1 | XO p -> 2 * int_of_pos p | XI p -> 2 * int_of_pos p + 1
let int_of_n = function N0 -> 0 | Npos p -> int_of_pos p
let base_of = function "BU" -> BU | "BC" -> BC | "BD" -> BD | "BS" -> BS | s -> failwith ("base " ^ s)
let cls_of s = let b = base_of (String.sub s 1 2) in if s.[0] = 'N' then Named b else if s.[0] = 'L' then Logging b else failwith ("class " ^ s)
let starts p s = String.length s >= String.length p && String.sub s 0 (String.length p) = p
let after p s = String.sub s (String.length p) (String.length s - String.length p)
let kind_of s =
  match s with
  | "Fail" -> KFail | "FailLogged" -> KFailLogged | "GetattrFail" -> KGetattrFail | "GetattrSelf" -> KGetattrSelf
  | "RetSelf" -> KRetSelf | "EqType" -> KEqType | "NeNotEq" -> KNeNotEq | "HashType" -> KHashType
  | "IterEmpty" -> KIterEmpty | "DebugStr" -> KDebugStr | "StrOfSelf" -> KStrOfSelf | "EscStrOfSelf" -> KEscStrOfSelf | "HashNone" -> KHashNone
  | "Init" -> KInit | "Message" -> KMessage | "AiterEmpty" -> KAiterEmpty | "Other" -> KOther
  | "ConstVStrEmpty" -> KRetConst VStrEmpty | "ConstVStrOther" -> KRetConst VStrOther | "ConstVInt0" -> KRetConst VInt0
  | "ConstVIntOther" -> KRetConst VIntOther | "ConstVTrue" -> KRetConst VTrue | "ConstVFalse" -> KRetConst VFalse
  | "ConstVNone" -> KRetConst VNone
  | _ when starts "LogSuper" s -> KLogSuper (n_of_int (int_of_string (after "LogSuper" s)))
  | _ -> failwith ("kind " ^ s)
let other_of = function
  | "int" -> OB KInt | "float" -> OB KFloat | "str" -> OB KStr | "none" -> OB KNone | "list" -> OB KList | "markup" -> OB KMarkup | "bool" -> OB KBool | "tuple" -> OB KTuple | "dict" -> OB KDict | "bytes" -> OB KBytes
  | "same" -> OSame | "plain" -> OPlain | s -> failwith ("other " ^ s)
let arith_of = function "add" -> Add | "sub" -> Sub | "mul" -> Mul | "div" -> Div | "floordiv" -> FloorDiv | "mod" -> Mod | "pow" -> Pow | s -> failwith s
let cmp_of : string -> cmp = function "eq" -> CEq | "ne" -> CNe | "lt" -> CLt | "le" -> CLe | "gt" -> CGt | "ge" -> CGe | s -> failwith s
let dir_of = function "fwd" -> Fwd | "rev" -> Rev | s -> failwith s
let op_of s =
  match String.split_on_char ':' s with
  | ["str"] -> OpStr | ["bool"] -> OpBool | ["iter"] -> OpIter | ["aiter"] -> OpAiter | ["len"] -> OpLen | ["hash"] -> OpHash
  | ["pos"] -> OpPos | ["neg"] -> OpNeg | ["int"] -> OpInt | ["float"] -> OpFloat | ["call"] -> OpCall | ["callt"] -> OpCallT
  | ["getattr"] -> OpGetAttr | ["getdunder"] -> OpGetDunder | ["getitem"] -> OpGetItem
  | ["isdefined"] -> OpIsDefined | ["isundefined"] -> OpIsUndefined | ["default"] -> OpDefault
  | ["copy"] -> OpCopy | ["deepcopy"] -> OpDeepcopy | ["pickle"] -> OpPickle
  | ["contains"; o] -> OpContains (other_of o)
  | ["revcontains"; "str"] -> OpRevContains RCStr | ["revcontains"; "list"] -> OpRevContains RCList
  | ["revcontains"; "dict"] -> OpRevContains RCDict
  | ["arith"; a; d; o] -> OpArith (arith_of a, dir_of d, other_of o)
  | ["cmp"; c; d; o] -> OpCmp (cmp_of c, dir_of d, other_of o)
  | _ -> failwith ("op " ^ s)
let show_res = function
  | RStrEmpty -> "str-empty" | RStrOther -> "str-other" | RDebugStr -> "debug-str" | RBool true -> "true" | RBool false -> "false"
  | RIterEmpty -> "iter-empty" | RInt0 -> "int-0" | RIntOther -> "int-other" | RHashClass -> "hash-of-class"
  | RItself -> "itself" | ROtherUndef -> "other-undefined" | RDefault -> "default" | RCopy -> "copy"
  | RBuiltin -> "builtin" | RNone -> "none" | ROtherValue -> "other-value"
let party = function Self -> "self" | Other -> "other"
let show_out = function
  | Succeeds r -> "ok:" ^ show_res r | Raises p -> "raise:" ^ party p | TypeErr -> "TypeError"
  | AttrErr -> "AttributeError" | PickleErr -> "PickleError" | Unmodelled -> "Unmodelled"
let show_log = function LWarn p -> "W" ^ party p | LErr p -> "E" ^ party p
let show_sres = function
  | SEmptyString -> "empty-string" | SDebugInfo -> "debug-info" | SBool true -> "true" | SBool false -> "false"
  | SEmptyIteration -> "empty-iteration" | SLengthZero -> "length-0" | SHashOfType -> "hash-of-type"
  | SItself -> "itself" | SDefaultValue -> "default" | SEquivalentCopy -> "copy"
let show_spec = function
  | None -> "unspecified" | Some (SSucceeds r) -> "succeeds:" ^ show_sres r
  | Some SUndefinedError -> "UndefinedError" | Some SAttributeError -> "AttributeError"
let str_of s = if s = "-" then [] else List.map (fun x -> n_of_int (int_of_string x)) (String.split_on_char ',' s)
let show_str l = if l = [] then "-" else String.concat "," (List.map (fun n -> string_of_int (int_of_n n)) l)
let tables : (cname * cls) list ref = ref []
let facts = ref { f_defined = TNotIsUndefined; f_undefined = TIsUndefined; f_default = DUndefinedOrFalsy }
let tk = function "TNotIsUndefined" -> TNotIsUndefined | "TIsUndefined" -> TIsUndefined | s -> failwith s
let () =
  try while true do
    let line = input_line stdin in
    match String.split_on_char ' ' line |> List.filter (fun x -> x <> "") with
    | [] -> print_endline ""
    | "C" :: c :: p :: loc :: ms ->
      let ms = List.map (fun m -> match String.split_on_char ':' m with
        | [i; k; f] -> (n_of_int (int_of_string i), { mk = kind_of k; fid = n_of_int (int_of_string f) })
        | _ -> failwith ("method " ^ m)) ms in
      tables := !tables @ [(cls_of c, { parent = (if p = "-" then None else Some (cls_of p)); local = (loc = "1"); dict = ms })];
      print_endline "ok"
    | ["F"; a; b; d] ->
      facts := { f_defined = tk a; f_undefined = tk b; f_default = (if d = "DUndefinedOrFalsy" then DUndefinedOrFalsy else DUnknown) };
      print_endline "ok"
    | ["Q"; c; o] ->
      let c = cls_of c and o = op_of o in
      let (out, logs) = dispatch !tables !facts c o in
      let sp = spec c o in
      let verdict = match sp with None -> "na" | Some s -> if agrees out s then "agrees" else "DISAGREES" in
      print_endline (show_out out ^ " logs=" ^ String.concat "," (List.map show_log logs) ^ " spec=" ^ show_spec sp ^ " " ^ verdict)
    | ["M"; h; ob; nk; nm] ->
      let o = { hint = (if h = "~" then None else Some (str_of h)); obj = (if ob = "~" then None else Some (str_of ob));
                name = (if nk = "s" then NStr (str_of nm) else NOther (str_of nm)) } in
      print_endline (show_str (message o) ^ " | " ^ show_str (debug_str o))
    | _ -> failwith ("bad line " ^ line)
  done with End_of_file -> ()
