(* C07 driver.  One case per line:
     L <S|U> <filter: - o e n> <depth0> <items: - or comma ints> <script: - or iterations '/'-separated, queries ','-separated>
        queries: L I J R r F T P N Y<k> Cx C- C<v>[_<v>...] D d
        -> M <else 0|1> <item:ans;ans|...> S <else> <...>      (model run_for, spec on the filtered items)
     L ... <script> <ctls: - or G|C|B per iteration>   the same with loop controls (run_for_ctl, cut)
     T <depth0> <forest>      forest = trees, tree = (label tree ...)
        -> M label:depth0,... S label:depth0,... *)
open Loop_x
let rec pos_of_int n = if n = 1 then XH else if n land 1 = 0 then XO (pos_of_int (n lsr 1)) else XI (pos_of_int (n lsr 1))
let n_of_int n = if n = 0 then N0 else Npos (pos_of_int n)
let rec int_of_pos = function XH -> 1 | XO p -> 2 * int_of_pos p | XI p -> 2 * int_of_pos p + 1
let int_of_n = function N0 -> 0 | Npos p -> int_of_pos p
let z_of_int n = if n = 0 then Z0 else if n > 0 then Zpos (pos_of_int n) else Zneg (pos_of_int (-n))
let int_of_z = function Z0 -> 0 | Zpos p -> int_of_pos p | Zneg p -> - (int_of_pos p)
let rec int_of_nat = function O -> 0 | S n -> 1 + int_of_nat n
let tl1 s = String.sub s 1 (String.length s - 1)
let parse_query s =
  match s.[0] with
  | 'L' -> QLength | 'I' -> QIndex0 | 'J' -> QIndex | 'R' -> QRevindex | 'r' -> QRevindex0
  | 'F' -> QFirst | 'T' -> QLast | 'P' -> QPrevitem | 'N' -> QNextitem
  | 'Y' -> QCycle (List.init (int_of_string (tl1 s)) (fun i -> n_of_int (101 + i)))
  | 'C' -> if s = "Cx" then QChanged None else if s = "C-" then QChanged (Some [])
           else QChanged (Some (List.map (fun x -> n_of_int (int_of_string x)) (String.split_on_char '_' (tl1 s))))
  | 'D' -> QDepth | 'd' -> QDepth0
  | _ -> failwith ("bad query " ^ s)
let parse_script s =
  if s = "-" then [] else
  List.map (fun it -> if it = "" then [] else List.map parse_query (String.split_on_char ',' it)) (String.split_on_char '/' s)
let parse_items s = if s = "-" then [] else List.map (fun x -> n_of_int (int_of_string x)) (String.split_on_char ',' s)
let show_answer = function
  | ANum z -> "n" ^ string_of_int (int_of_z z) | ABool b -> if b then "bT" else "bF"
  | AItem x -> "v" ^ string_of_int (int_of_n x) | ANoPrev -> "Up" | ANoNext -> "Un" | ATypeError -> "eT"
let show_its l = String.concat "|" (List.map (fun (x, ans) -> string_of_int (int_of_n x) ^ ":" ^ String.concat ";" (List.map show_answer ans)) l)
let pred f x = let v = int_of_n x in match f with "o" -> v land 1 = 1 | "e" -> v land 1 = 0 | "n" -> v > 100 | _ -> true

(* forest parser *)
let parse_forest s =
  let n = String.length s in
  let pos = ref 0 in
  let rec skip () = if !pos < n && s.[!pos] = ' ' then (incr pos; skip ()) in
  let rec tree () =
    (* at '(' *)
    incr pos; skip ();
    let st = !pos in
    while !pos < n && s.[!pos] >= '0' && s.[!pos] <= '9' do incr pos done;
    let label = n_of_int (int_of_string (String.sub s st (!pos - st))) in
    let cs = forest () in
    (* at ')' *)
    incr pos; Node (label, cs)
  and forest () =
    skip ();
    if !pos < n && s.[!pos] = '(' then (let t = tree () in t :: forest ()) else [] in
  forest ()
let show_pairs l = String.concat "," (List.map (fun (l, d) -> string_of_int (int_of_n l) ^ ":" ^ string_of_int (int_of_z d)) l)

(* visit_For skeleton: V <recursive> <else> <test> <mentions> <scoped> <async> <pilb> <pbuf> (0/1 each) -> tokens *)
let b01 b = if b then "1" else "0"
let show_role = function Outer -> "outer" | LoopF -> "loop" | TestF -> "test" | ElseF -> "else"
let show_line = function
  | LDefFilter t -> "def_t" ^ string_of_int (int_of_nat t) ^ "(fiter)" | LDefLoop -> "def_loop"
  | LFor n -> if n then "for:node" else "for" | LIf -> "if:test" | LYield -> "yield" | LTry -> "try"
  | LLoopVars -> "loop_vars" | LRefMissing -> "ref=missing"
  | LSet (t, v) -> "t" ^ string_of_int (int_of_nat t) ^ "=" ^ b01 v
  | LIfT t -> "if_t" ^ string_of_int (int_of_nat t)
  | LAssignCall (t, u) -> "t" ^ string_of_int (int_of_nat t) ^ "=t" ^ string_of_int (int_of_nat u) ^ "("
  | LFinally t -> "finally_aclose_t" ^ string_of_int (int_of_nat t)
let show_w = function
  | WIn -> "in" | WFiter -> "fiter" | WAiterFiter -> "aiter_fiter" | WColon -> "colon" | WAiterOpen -> "aiter("
  | WClose -> "close" | WReciter -> "reciter" | WTailRec -> "tail_rec" | WTailExt -> "tail_ext"
  | WCallLoop -> "call_loop" | WAwaitCallLoop -> "await_call_loop" | WLoopArg -> "loop_arg"
  | WCtx a -> if a then "AsyncLoopContext" else "LoopContext"
  | WT t -> "t" ^ string_of_int (int_of_nat t) | WTCall t -> "t" ^ string_of_int (int_of_nat t) ^ "("
let show_ev = function
  | Begin p -> "begin:pilb=" ^ b01 p | End -> "end" | Temp -> "temp" | Indent -> "indent"
  | Outdent n -> "outdent:" ^ string_of_int (int_of_nat n)
  | Enter (r, lf, ilb) -> "enter:" ^ show_role r ^ ":lf=" ^ b01 lf ^ ":ilb=" ^ b01 ilb
  | Leave (r, sc) -> "leave:" ^ show_role r ^ ":scope=" ^ b01 sc
  | Block (body, r, ilb, b) -> "block:" ^ (if body then "body" else "else") ^ ":" ^ show_role r ^ ":ilb=" ^ b01 ilb
                               ^ ":buf=" ^ (match b with BufNone -> "none" | BufOwn -> "own" | BufSame -> "same")
  | Visit (w, r) -> "visit:" ^ (match w with Target -> "target" | Iter -> "iter" | Test -> "test") ^ ":" ^ show_role r
  | Buffer r -> "buffer:" ^ show_role r | ReturnBuffer r -> "return_buffer:" ^ show_role r
  | StartWrite r -> "start_write:" ^ show_role r | EndWrite -> "end_write"
  | Line l -> "line:" ^ show_line l | W w -> "w:" ^ show_w w

let () =
  try while true do
    let line = input_line stdin in
    match String.split_on_char ' ' line with
    | "L" :: k :: f :: d0 :: items :: script :: ctls :: [] ->
      (* with loop controls: ctls = - or G/C/B per iteration, comma separated *)
      let kind = if k = "S" then Sized else Unsized in
      let xs = parse_items items in
      let sc = parse_script script in
      let cs = if ctls = "-" then [] else List.map (fun c -> match c with "B" -> Break | "C" -> Continue | _ -> Go) (String.split_on_char ',' ctls) in
      let d0 = z_of_int (int_of_string d0) in
      let filtered = f <> "-" in
      let m = (match run_for_ctl kind filtered (pred f) d0 xs sc cs with
        | None -> "fuel"
        | Some o -> (if o.else_taken then "1 " else "0 ") ^ show_its o.visited) in
      let ys = if filtered then List.filter (pred f) xs else xs in
      let s = (if ys = [] then "1 " else "0 ") ^ show_its (cut cs (spec ys d0 sc)) in
      print_endline ("M " ^ m ^ " S " ^ s)
    | "L" :: k :: f :: d0 :: items :: script :: [] ->
      let kind = if k = "S" then Sized else Unsized in
      let xs = parse_items items in
      let sc = parse_script script in
      let d0 = z_of_int (int_of_string d0) in
      let filtered = f <> "-" in
      let m = (match run_for kind filtered (pred f) d0 xs sc with
        | None -> "fuel"
        | Some o -> (if o.else_taken then "1 " else "0 ") ^ show_its o.visited) in
      let ys = if filtered then List.filter (pred f) xs else xs in
      let s = (if ys = [] then "1 " else "0 ") ^ show_its (spec ys d0 sc) in
      print_endline ("M " ^ m ^ " S " ^ s)
    | ["V"; r; e; t; m; sc; a; p; b] ->
      let tb x = x = "1" in
      let c = { recursive = tb r; has_else = tb e; has_test = tb t; mentions = tb m; scoped = tb sc; is_async = tb a;
                pilb = tb p; pbuf = tb b } in
      print_endline (String.concat " " (List.map show_ev (for_trace c)))
    | "T" :: d0 :: rest ->
      let f = parse_forest (String.concat " " rest) in
      let d0 = z_of_int (int_of_string d0) in
      print_endline ("M " ^ show_pairs (rec_forest d0 f) ^ " S " ^ show_pairs (List.concat_map (levels d0) f))
    | _ -> print_endline "?"
  done with End_of_file -> ()
