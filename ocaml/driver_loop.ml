(* C07 driver.  One case per line:
     L <S|U> <filter: - o e n> <depth0> <items: - or comma ints> <script: - or iterations '/'-separated, queries ','-separated>
        queries: L I J R r F T P N Y<k> Cx C<v> D d
        -> M <else 0|1> <item:ans;ans|...> S <else> <...>      (model run_for, spec on the filtered items)
     L ... <script> <ctls: - or G|C|B per iteration>   the same with loop controls (run_for_ctl, cut)
     T <depth0> <forest>      forest = trees, tree = (label tree ...)
        -> M label:depth0,... S label:depth0,... *)
open Loop_x
let rec pos_of_int n = if n = 1 then XH else if n land 1 = 0 then XO (pos_of_int (n lsr 1)) else XI (pos_of_int (n lsr 1))
let n_of_int n = if n = 0 then N0 else Npos (pos_of_int n)
let rec int_of_pos = function XH -> 1 | XO p -> 2 * int_of_pos p | XI p -> 2 * int_of_pos p + 1
let int_of_n = function N0 -> 0 | Npos p -> int_of_pos p
let z_of_int n = if n = 0 then Z0 else if n > 0 then Zpos (pos_of_int n) else Zneg (pos_of_int (-n))
let int_of_z = function Z0 -> 0 | Zpos p -> int_of_pos p | Zneg p -> - (int_of_pos p)
let tl1 s = String.sub s 1 (String.length s - 1)
let parse_query s =
  match s.[0] with
  | 'L' -> QLength | 'I' -> QIndex0 | 'J' -> QIndex | 'R' -> QRevindex | 'r' -> QRevindex0
  | 'F' -> QFirst | 'T' -> QLast | 'P' -> QPrevitem | 'N' -> QNextitem
  | 'Y' -> QCycle (List.init (int_of_string (tl1 s)) (fun i -> n_of_int (101 + i)))
  | 'C' -> if s = "Cx" then QChanged None else QChanged (Some (n_of_int (int_of_string (tl1 s))))
  | 'D' -> QDepth | 'd' -> QDepth0
  | _ -> failwith ("bad query " ^ s)
let parse_script s =
  if s = "-" then [] else
  List.map (fun it -> if it = "" then [] else List.map parse_query (String.split_on_char ',' it)) (String.split_on_char '/' s)
let parse_items s = if s = "-" then [] else List.map (fun x -> n_of_int (int_of_string x)) (String.split_on_char ',' s)
let show_answer = function
  | ANum z -> "n" ^ string_of_int (int_of_z z) | ABool b -> if b then "bT" else "bF"
  | AItem x -> "v" ^ string_of_int (int_of_n x) | ANoPrev -> "Up" | ANoNext -> "Un" | ATypeError -> "eT"
let show_its l = String.concat "|" (List.map (fun (x, ans) -> string_of_int (int_of_n x) ^ ":" ^ String.concat ";" (List.map show_answer ans)) l)
let pred f x = let v = int_of_n x in match f with "o" -> v land 1 = 1 | "e" -> v land 1 = 0 | "n" -> v > 100 | _ -> true

(* forest parser *)
let parse_forest s =
  let n = String.length s in
  let pos = ref 0 in
  let rec skip () = if !pos < n && s.[!pos] = ' ' then (incr pos; skip ()) in
  let rec tree () =
    (* at '(' *)
    incr pos; skip ();
    let st = !pos in
    while !pos < n && s.[!pos] >= '0' && s.[!pos] <= '9' do incr pos done;
    let label = n_of_int (int_of_string (String.sub s st (!pos - st))) in
    let cs = forest () in
    (* at ')' *)
    incr pos; Node (label, cs)
  and forest () =
    skip ();
    if !pos < n && s.[!pos] = '(' then (let t = tree () in t :: forest ()) else [] in
  forest ()
let show_pairs l = String.concat "," (List.map (fun (l, d) -> string_of_int (int_of_n l) ^ ":" ^ string_of_int (int_of_z d)) l)

let () =
  try while true do
    let line = input_line stdin in
    match String.split_on_char ' ' line with
    | "L" :: k :: f :: d0 :: items :: script :: ctls :: [] ->
      (* with loop controls: ctls = - or G/C/B per iteration, comma separated *)
      let kind = if k = "S" then Sized else Unsized in
      let xs = parse_items items in
      let sc = parse_script script in
      let cs = if ctls = "-" then [] else List.map (fun c -> match c with "B" -> Break | "C" -> Continue | _ -> Go) (String.split_on_char ',' ctls) in
      let d0 = z_of_int (int_of_string d0) in
      let filtered = f <> "-" in
      let m = (match run_for_ctl kind filtered (pred f) d0 xs sc cs with
        | None -> "fuel"
        | Some o -> (if o.else_taken then "1 " else "0 ") ^ show_its o.visited) in
      let ys = if filtered then List.filter (pred f) xs else xs in
      let s = (if ys = [] then "1 " else "0 ") ^ show_its (cut cs (spec ys d0 sc)) in
      print_endline ("M " ^ m ^ " S " ^ s)
    | "L" :: k :: f :: d0 :: items :: script :: [] ->
      let kind = if k = "S" then Sized else Unsized in
      let xs = parse_items items in
      let sc = parse_script script in
      let d0 = z_of_int (int_of_string d0) in
      let filtered = f <> "-" in
      let m = (match run_for kind filtered (pred f) d0 xs sc with
        | None -> "fuel"
        | Some o -> (if o.else_taken then "1 " else "0 ") ^ show_its o.visited) in
      let ys = if filtered then List.filter (pred f) xs else xs in
      let s = (if ys = [] then "1 " else "0 ") ^ show_its (spec ys d0 sc) in
      print_endline ("M " ^ m ^ " S " ^ s)
    | "T" :: d0 :: rest ->
      let f = parse_forest (String.concat " " rest) in
      let d0 = z_of_int (int_of_string d0) in
      print_endline ("M " ^ show_pairs (rec_forest d0 f) ^ " S " ^ show_pairs (List.concat_map (levels d0) f))
    | _ -> print_endline "?"
  done with End_of_file -> ()
