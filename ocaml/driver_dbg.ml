(* C35 driver.  One trace per line:  events separated by spaces:  W | N:<node line or ->:<extra>
   after a '|' a list of code lines to look up.
   prints  D <tl>=<cl>&...  L <code line of every write>  C <corresponding line of each query> *)
open Dbg_x
let rec pos_of_int n = if n = 1 then XH else if n land 1 = 0 then XO (pos_of_int (n lsr 1)) else XI (pos_of_int (n lsr 1))
let n_of_int n = if n = 0 then N0 else Npos (pos_of_int n)
let rec int_of_pos = function XH -> 1 | XO p -> 2 * int_of_pos p | XI p -> 2 * int_of_pos p + 1
let int_of_n = function N0 -> 0 | Npos p -> int_of_pos p
let ev_of s =
  if s = "W" then EWrite else
  match String.split_on_char ':' s with
  | ["N"; n; x] -> ENewline ((if n = "-" then None else Some (n_of_int (int_of_string n))), n_of_int (int_of_string x))
  | _ -> failwith ("event " ^ s)
let () =
  try while true do
    let line = input_line stdin in
    let parts = String.split_on_char '|' line in
    let words s = String.split_on_char ' ' s |> List.filter (fun x -> x <> "") in
    let evs = List.map ev_of (words (List.nth parts 0)) in
    let qs = if List.length parts > 1 then List.map int_of_string (words (List.nth parts 1)) else [] in
    let (s, ls) = run_lines init evs in
    let d = List.rev s.dbg in
    print_endline ("D " ^ String.concat "&" (List.map (fun (a, b) -> string_of_int (int_of_n a) ^ "=" ^ string_of_int (int_of_n b)) d)
      ^ " L " ^ String.concat "," (List.map (fun n -> string_of_int (int_of_n n)) ls)
      ^ " C " ^ String.concat "," (List.map (fun q -> string_of_int (int_of_n (corresponding s.dbg (n_of_int q)))) qs))
  done with End_of_file -> ()
