(* one case per line:   <init> | <schedule> | <queries>
     init     = <loc>=<int> ...                 loc = D.<cell> E.<cell> T.<cell> M.<cell> C.<cell> P<rid>.<cell>
     schedule = <rid>:<step> ...                step = p,<cell>,<exp> | f,<loc> | d,<cell>,<exp> | w,<loc>,<exp>
     exp      = postfix, tokens joined by '_':  k<int>  r<loc>  o<cell>  t<loc> (read through)  +
     queries  = <loc> ...
   prints  wf=<0|1> <value> <value> ...   (the heap after the schedule at the queried cells) *)
open Framesexec_x
let rec pos_of_int n = if n = 1 then XH else if n land 1 = 0 then XO (pos_of_int (n lsr 1)) else XI (pos_of_int (n lsr 1))
let n_of_int n = if n = 0 then N0 else Npos (pos_of_int n)
let rec int_of_pos = function XH -> 1 | XO p -> 2 * int_of_pos p | XI p -> 2 * int_of_pos p + 1
let int_of_n = function N0 -> 0 | Npos p -> int_of_pos p
let words s = String.split_on_char ' ' s |> List.filter (fun x -> x <> "")
let loc_of s =
  match String.split_on_char '.' s with
  | [r; c] ->
    let cell = n_of_int (int_of_string c) in
    let reg = match r with
      | "D" -> Data | "E" -> EnvGlobals | "T" -> TplGlobals | "M" -> ModuleCache | "C" -> Caches
      | _ when String.length r > 1 && r.[0] = 'P' -> PerRender (n_of_int (int_of_string (String.sub r 1 (String.length r - 1))))
      | _ -> failwith ("bad region " ^ r) in
    (reg, cell)
  | _ -> failwith ("bad loc " ^ s)
let exp_of s =
  let st = Stack.create () in
  List.iter (fun tok ->
    let rest = String.sub tok 1 (String.length tok - 1) in
    match tok.[0] with
    | 'k' -> Stack.push (CConst (n_of_int (int_of_string rest))) st
    | 'r' -> Stack.push (CRead (loc_of rest)) st
    | 'o' -> Stack.push (COwn (n_of_int (int_of_string rest))) st
    | 't' -> Stack.push (CThrough (loc_of rest)) st
    | '+' -> let b = Stack.pop st in let a = Stack.pop st in Stack.push (CAdd (a, b)) st
    | _ -> failwith ("bad token " ^ tok)) (String.split_on_char '_' s);
  Stack.pop st
let step_of s =
  match String.split_on_char ',' s with
  | ["p"; c; e] -> CPriv (n_of_int (int_of_string c), exp_of e)
  | ["f"; l] -> CFill (loc_of l)
  | ["d"; c; e] -> CData (n_of_int (int_of_string c), exp_of e)
  | ["w"; l; e] -> CCacheW (loc_of l, exp_of e)
  | _ -> failwith ("bad step " ^ s)
let () =
  try while true do
    let line = input_line stdin in
    match String.split_on_char '|' line with
    | [i; s; qs] ->
      let init = List.map (fun w -> match String.split_on_char '=' w with
        | [l; v] -> (loc_of l, n_of_int (int_of_string v)) | _ -> failwith "bad init") (words i) in
      let sched = List.map (fun w -> match String.index_opt w ':' with
        | Some k -> (n_of_int (int_of_string (String.sub w 0 k)), step_of (String.sub w (k + 1) (String.length w - k - 1)))
        | None -> failwith "bad sched") (words s) in
      let queries = List.map loc_of (words qs) in
      let vals = crun init sched queries in
      print_endline ("wf=" ^ (if csched_wf sched then "1" else "0") ^ " " ^ String.concat " " (List.map (fun n -> string_of_int (int_of_n n)) vals))
    | _ -> print_endline "?"
  done with End_of_file -> ()
