(* one program per line, prefix encoding:
   G sc <tgt> | T | B | C | U n | K m k.. | I nb .. ne .. | F r nb .. ne .. | W w nb .. | Z nb .. | M np p.. nb .. | A np p.. nu u.. nk k.. nb .. | L nb ..
   the line is:  <n> <stmt>*n       output:  E   or   <ok|bad> <facts...> *)
open Pywf_x
let rec pos_of_int n = if n = 1 then XH else if n land 1 = 0 then XO (pos_of_int (n lsr 1)) else XI (pos_of_int (n lsr 1))
let n_of_int n = if n = 0 then N0 else Npos (pos_of_int n)
let rec int_of_pos = function XH -> 1 | XO p -> 2 * int_of_pos p | XI p -> 2 * int_of_pos p + 1
let int_of_n = function N0 -> 0 | Npos p -> int_of_pos p
let toks = ref []
let next () = match !toks with [] -> failwith "eof" | x :: r -> toks := r; x
let int () = int_of_string (next ())
let rec names k = if k = 0 then [] else let n = n_of_int (int ()) in n :: names (k - 1)
let rec tgt () =
  match next () with
  | "n" -> TName (n_of_int (int ()))
  | "c" -> TConst
  | "t" -> let k = int () in let rec go k = if k = 0 then [] else let x = tgt () in x :: go (k - 1) in TTuple (go k)
  | t -> failwith ("bad target token " ^ t)
let rec stmts k = if k = 0 then [] else let s = stmt () in s :: stmts (k - 1)
and stmt () =
  match next () with
  | "G" -> let sc = int () = 1 in SAssignT (sc, tgt ())
  | "T" -> SText | "B" -> SBreak | "C" -> SContinue
  | "U" -> SUse (n_of_int (int ()))
  | "K" -> let m = int () in SCallKw (names m)
  | "I" -> let b = stmts (int ()) in let e = stmts (int ()) in SIf (b, e)
  | "F" -> let r = int () = 1 in let b = stmts (int ()) in let e = stmts (int ()) in SFor (r, b, e)
  | "W" -> let w = int () = 1 in SInline (w, stmts (int ()))
  | "Z" -> SSame (stmts (int ()))
  | "M" -> let ps = names (int ()) in SMacro (ps, stmts (int ()))
  | "A" -> let ps = names (int ()) in let us = names (int ()) in let ks = names (int ()) in SCallBlock (ps, us, ks, stmts (int ()))
  | "L" -> SBlock (stmts (int ()))
  | t -> failwith ("bad token " ^ t)
let toy n = if int_of_n n = 9 then n_of_int 8 else n
let ints l = String.concat "," (List.map (fun n -> string_of_int (int_of_n n)) l)
let show = function
  | FLoopCtl (br, ins) -> (if br then "b" else "c") ^ (if ins then "1" else "0")
  | FDef ps -> "d:" ^ ints ps
  | FCall ks -> "k:" ^ ints ks
let () =
  try while true do
    let line = input_line stdin in
    toks := String.split_on_char ' ' line |> List.filter (fun x -> x <> "");
    let prog = stmts (int ()) in
    match gens (fun n -> int_of_n n <> 9) false false false prog with
    | SyntaxErr -> print_endline "E"
    | Ok t ->
      let ok = List.for_all (py_ok toy false) t in
      let fs = List.concat_map (facts false) t in
      print_endline (String.concat " " ((if ok then "ok" else "bad") :: List.map show fs))
  done with End_of_file -> ()
