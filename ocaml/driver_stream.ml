(* one case per line:  <size> <piece> <piece> ...   piece = '-' (empty) or letters
   prints chunks '|'-separated, or E for ValueError;
   a history:  H <op> ... ; <piece> ...   op = e<n> | d | n
   prints one result per op (chunk, S = StopIteration, E = ValueError, . = None), then D and the drained items *)
open Stream_x
let rec pos_of_int n = if n = 1 then XH else if n land 1 = 0 then XO (pos_of_int (n lsr 1)) else XI (pos_of_int (n lsr 1))
let n_of_int n = if n = 0 then N0 else Npos (pos_of_int n)
let rec int_of_pos = function XH -> 1 | XO p -> 2 * int_of_pos p | XI p -> 2 * int_of_pos p + 1
let int_of_n = function N0 -> 0 | Npos p -> int_of_pos p
let rec nat_of_int n = if n = 0 then O else S (nat_of_int (n - 1))
let str_of s = if s = "-" then [] else List.init (String.length s) (fun i -> n_of_int (Char.code s.[i]))
let show s = if s = [] then "-" else String.concat "" (List.map (fun n -> String.make 1 (Char.chr (int_of_n n))) s)
let () =
  try while true do
    let line = input_line stdin in
    match String.split_on_char ' ' line |> List.filter (fun x -> x <> "") with
    | [] -> print_endline ""
    | "H" :: r ->
      let rec split acc = function ";" :: t -> (List.rev acc, t) | x :: t -> split (x :: acc) t | [] -> (List.rev acc, []) in
      let (ops, ps) = split [] r in
      let op s = if s = "d" then ODisable else if s = "n" then ONext
                 else OEnable (nat_of_int (int_of_string (String.sub s 1 (String.length s - 1)))) in
      let (st, outs) = srun { mode = None; rest = List.map str_of ps } (List.map op ops) in
      let so = function SChunk c -> show c | SStop -> "S" | SValueError -> "E" | SNone -> "." in
      print_endline (String.concat " " (List.map so outs) ^ " D " ^ String.concat "|" (List.map show (sdrain st)))
    | sz :: ps ->
      let ps = List.map str_of ps in
      (match stream_buffered (nat_of_int (int_of_string sz)) ps with
       | ValueError -> print_endline "E"
       | Ok chunks -> print_endline ("C " ^ String.concat "|" (List.map show chunks) ^ " R " ^ show (render ps)))
  done with End_of_file -> ()
