(* one case per line:  <size> <piece> <piece> ...   piece = '-' (empty) or letters
   prints chunks '|'-separated, or E for ValueError *)
open Stream_x
let rec pos_of_int n = if n = 1 then XH else if n land 1 = 0 then XO (pos_of_int (n lsr 1)) else XI (pos_of_int (n lsr 1))
let n_of_int n = if n = 0 then N0 else Npos (pos_of_int n)
let rec int_of_pos = function XH -> 1 | XO p -> 2 * int_of_pos p | XI p -> 2 * int_of_pos p + 1
let int_of_n = function N0 -> 0 | Npos p -> int_of_pos p
let rec nat_of_int n = if n = 0 then O else S (nat_of_int (n - 1))
let str_of s = if s = "-" then [] else List.init (String.length s) (fun i -> n_of_int (Char.code s.[i]))
let show s = if s = [] then "-" else String.concat "" (List.map (fun n -> String.make 1 (Char.chr (int_of_n n))) s)
let () =
  try while true do
    let line = input_line stdin in
    match String.split_on_char ' ' line |> List.filter (fun x -> x <> "") with
    | [] -> print_endline ""
    | sz :: ps ->
      let ps = List.map str_of ps in
      (match stream_buffered (nat_of_int (int_of_string sz)) ps with
       | ValueError -> print_endline "E"
       | Ok chunks -> print_endline ("C " ^ String.concat "|" (List.map show chunks) ^ " R " ^ show (render ps)))
  done with End_of_file -> ()
