(* one case per line, space separated tokens:
     FUEL MODE MAIN NDATA (NAME STR)... NT (TNAME NG (NAME STR)... NSTMTS STMT...)...
     MODE := r | m      (render main with the data / Template.module of main)
     STMT := o STR | p NAME | a M X | s NAME c STR | s NAME v NAME | m NAME STR
           | i ISLIST WITH IGNORE NT TARGET... | I TARGET ALIAS WITH | F TARGET N (NAME ALIAS)... WITH
           | S KIND NAME NV STR... NB STMT... | X TARGET          KIND := f | w | m | b | B
     TARGET := n ID | o ID        STR := - | c1.c2.c3
   prints  M RES | S RES | X 0/1 | K RES       RES := O STR [; name=STR,...] | E ERR
   X = 1 when the exported names of main's module agree with the last-binder rule *)
open Imp_x
let rec pos_of_int n = if n = 1 then XH else if n land 1 = 0 then XO (pos_of_int (n lsr 1)) else XI (pos_of_int (n lsr 1))
let n_of_int n = if n = 0 then N0 else Npos (pos_of_int n)
let rec int_of_pos = function XH -> 1 | XO p -> 2 * int_of_pos p | XI p -> 2 * int_of_pos p + 1
let int_of_n = function N0 -> 0 | Npos p -> int_of_pos p
let rec nat_of_int n = if n = 0 then O else S (nat_of_int (n - 1))
let str_of s = if s = "-" then [] else List.map (fun x -> n_of_int (int_of_string x)) (String.split_on_char '.' s)
let show_str s = if s = [] then "-" else String.concat "." (List.map (fun n -> string_of_int (int_of_n n)) s)
let toks = ref []
let next () = match !toks with [] -> failwith "eol" | x :: r -> toks := r; x
let int () = int_of_string (next ())
let nm () = n_of_int (int ())
let rec rep n f = if n <= 0 then [] else let x = f () in x :: rep (n - 1) f
let target () = match next () with "n" -> ByName (nm ()) | "o" -> ByObject (nm ()) | x -> failwith ("bad target " ^ x)
let rec stmt () =
  match next () with
  | "o" -> SOut (str_of (next ()))
  | "p" -> SProbe (nm ())
  | "a" -> let m = nm () in let x = nm () in SProbeAttr (m, x)
  | "s" -> let x = nm () in
           (match next () with "c" -> SSet (x, EConst (str_of (next ()))) | "v" -> SSet (x, EVar (nm ())) | y -> failwith ("bad expr " ^ y))
  | "m" -> let m = nm () in SMacro (m, str_of (next ()))
  | "i" -> let l = int () = 1 in let w = int () = 1 in let ig = int () = 1 in
           let n = int () in let ts = rep n target in SInclude (ts, l, w, ig)
  | "I" -> let t = target () in let a = nm () in let w = int () = 1 in SImport (t, a, w)
  | "F" -> let t = target () in let n = int () in
           let names = rep n (fun () -> let a = nm () in let b = nm () in (a, b)) in
           let w = int () = 1 in SFrom (t, names, w)
  | "X" -> SExtend (target ())
  | "S" -> let k = (match next () with "f" -> KFor | "w" -> KWith | "m" -> KMacro | "b" -> KBlock | "B" -> KBlockS | y -> failwith ("bad kind " ^ y)) in
           let x = nm () in let nv = int () in let vals = rep nv (fun () -> str_of (next ())) in
           let nb = int () in let body = rep nb stmt in SScope (k, x, vals, body)
  | x -> failwith ("bad stmt " ^ x)
let kv () = let n = nm () in let s = str_of (next ()) in (n, VStr s)
let show_err = function ENotFound -> "NotFound" | EUndefined -> "Undefined" | EKey -> "Key" | EFuel -> "Fuel"
let show_val = function VStr s -> show_str s | VMacro s -> "M" ^ show_str s | VMod _ -> "#" | VUndef -> "?"
let show_r = function Ok s -> "O " ^ show_str s | Err e -> "E " ^ show_err e
let show_m = function
  | Ok (s, ex) ->
      let ex = List.sort compare (List.map (fun (k, v) -> (int_of_n k, show_val v)) ex) in
      "O " ^ show_str s ^ " ; " ^ String.concat "," (List.map (fun (k, v) -> string_of_int k ^ "=" ^ v) ex)
  | Err e -> "E " ^ show_err e
let () =
  try while true do
    let line = input_line stdin in
    toks := List.filter (fun x -> x <> "") (String.split_on_char ' ' line);
    if !toks = [] then print_endline "" else begin
      let fuel = nat_of_int (int ()) in
      let mode = next () in
      let main = nm () in
      let nd = int () in let data = rep nd kv in
      let nt = int () in
      let ts = rep nt (fun () ->
        let tn = nm () in let ng = int () in let g = rep ng kv in
        let ns = int () in let body = rep ns stmt in
        (tn, { t_globals = g; t_body = body })) in
      if mode = "r" then
        print_endline ("M " ^ show_r (render fuel ts main data) ^ " | S " ^ show_r (spec_render fuel ts main data) ^ " | X 1 | K " ^ show_r (known_render fuel ts main data))
      else begin
        let m = module_of fuel ts main in
        let x = (match m, List.assoc_opt main ts with
                 | Ok (_, ex), Some t when not (List.exists (function SExtend _ -> true | _ -> false) t.t_body) ->
                     let names = List.sort_uniq compare (List.map (fun (k, _) -> int_of_n k) ex) in
                     let all = List.init 120 (fun i -> i) in
                     let want = List.filter (fun i -> exported_spec t.t_body (n_of_int i)) all in
                     if names = want then "1" else "0"
                 | _ -> "1") in
        print_endline ("M " ^ show_m m ^ " | S " ^ show_m (spec_module fuel ts main) ^ " | X " ^ x ^ " | K " ^ show_m (known_module fuel ts main))
      end
    end
  done with End_of_file -> ()
