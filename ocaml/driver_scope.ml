(* one case per line, an s-expression:
     (run FUEL (pynorm (a b)...) (priv x...) (data (x v)...) (prog stmt...))
        -> F <result> | S <result> | R <names passed to resolve, sorted, unique> | G <core><wf><noalias><rbw><core2><core3>
     (sym (prog stmt...))
        -> the Symbols of every frame in enter_frame order
     (symf X (args e...) (pre stmt...) (body stmt...))
        -> the Symbols of every frame of  pre ++ {% set X | f(args) %}body{% endset %}
     (und (globals g...) (prog stmt...))
        -> the model of meta.find_undeclared_variables (sorted, unique) | nocall flag
     (ref K texpr)   K = e|i|m|f   -> the model of meta.find_referenced_templates for one node
     (req K texpr (dv (x name...)...) (truth x...) (have name...)) -> names asked from the loader
        texpr : (c cval) (seq item...) (dyn X) (cond T item item);  cval : (s c...) other (q cval...)
        item  : (ic cval) (id X);  name : (s c...)
   names / attributes are integers; text is a list of code points.
   expr : (n X) (i Z) (s c...) (cat e e) (add e e) (attr X A)
   stmt : (out e...) (if e (body) (elifs) (else)) (for X e (test?) (body) (else)) (set X e)
          (seta X A e) (nsnew X (A e)...) (setb X (body)) (with ((X e)...) (body))
          (filt u|l (body)) (macro M (params) (body)) (callo F e...) (callb (params) F (args) (body))
   value: (i Z) (s c...) (l v...) *)
open Scope_x
type sx = A of string | L of sx list
let rec pos_of_int n = if n = 1 then XH else if n land 1 = 0 then XO (pos_of_int (n lsr 1)) else XI (pos_of_int (n lsr 1))
let n_of_int n = if n = 0 then N0 else Npos (pos_of_int n)
let z_of_int n = if n = 0 then Z0 else if n > 0 then Zpos (pos_of_int n) else Zneg (pos_of_int (-n))
let rec int_of_pos = function XH -> 1 | XO p -> 2 * int_of_pos p | XI p -> 2 * int_of_pos p + 1
let int_of_n = function N0 -> 0 | Npos p -> int_of_pos p
let rec nat_of_int n = if n = 0 then O else S (nat_of_int (n - 1))
let rec int_of_nat = function O -> 0 | S n -> 1 + int_of_nat n

let parse (s : string) : sx =
  let n = String.length s in
  let pos = ref 0 in
  let rec skip () = if !pos < n && (s.[!pos] = ' ' || s.[!pos] = '\t') then (incr pos; skip ()) in
  let rec item () =
    skip ();
    if !pos >= n then failwith "eof"
    else if s.[!pos] = '(' then begin
      incr pos;
      let acc = ref [] in
      let rec loop () =
        skip ();
        if !pos >= n then failwith "unclosed"
        else if s.[!pos] = ')' then incr pos
        else (acc := item () :: !acc; loop ()) in
      loop (); L (List.rev !acc) end
    else begin
      let st = !pos in
      while !pos < n && s.[!pos] <> ' ' && s.[!pos] <> '(' && s.[!pos] <> ')' do incr pos done;
      A (String.sub s st (!pos - st)) end in
  item ()

let num = function A a -> int_of_string a | _ -> failwith "num"
let nm x = n_of_int (num x)
let rec expr = function
  | L [A "n"; x] -> EName (nm x)
  | L [A "i"; z] -> EInt (z_of_int (num z))
  | L (A "s" :: cs) -> EStr (List.map nm cs)
  | L [A "cat"; a; b] -> ECat (expr a, expr b)
  | L [A "add"; a; b] -> EAdd (expr a, expr b)
  | L [A "attr"; x; a] -> EAttr (nm x, nm a)
  | _ -> failwith "expr"
let lst = function L l -> l | _ -> failwith "list"
let rec stmt = function
  | L (A "out" :: es) -> SOut (List.map expr es)
  | L [A "if"; t; b; ei; el] -> SIf (expr t, stmts b, stmts ei, stmts el)
  | L [A "for"; x; it; te; b; el] ->
      SFor (nm x, expr it, (match te with L [] -> None | L [t] -> Some (expr t) | _ -> failwith "test"), stmts b, stmts el)
  | L [A "set"; x; e] -> SSet (nm x, expr e)
  | L [A "seta"; x; a; e] -> SSetAttr (nm x, nm a, expr e)
  | L (A "nsnew" :: x :: kvs) -> SNsNew (nm x, List.map (function L [a; e] -> (nm a, expr e) | _ -> failwith "kv") kvs)
  | L [A "setb"; x; b] -> SSetBlock (nm x, stmts b)
  | L [A "with"; bs; b] -> SWith (List.map (function L [x; e] -> (nm x, expr e) | _ -> failwith "bind") (lst bs), stmts b)
  | L [A "filt"; A k; b] -> SFilter ((if k = "u" then FUpper else FLower), stmts b)
  | L [A "macro"; m; ps; b] -> SMacro (nm m, List.map nm (lst ps), stmts b)
  | L (A "callo" :: f :: args) -> SCallOut (nm f, List.map expr args)
  | L [A "callb"; ps; f; args; b] -> SCallBlock (List.map nm (lst ps), nm f, List.map expr (lst args), stmts b)
  | _ -> failwith "stmt"
and stmts x = List.map stmt (lst x)
let rec value = function
  | L [A "i"; z] -> VInt (z_of_int (num z))
  | L (A "s" :: cs) -> VStr (List.map nm cs)
  | L (A "l" :: vs) -> VList (List.map value vs)
  | _ -> failwith "value"

let tname = function L (A "s" :: cs) -> List.map nm cs | _ -> failwith "tname"
let rec cval = function
  | L (A "s" :: cs) -> CStr (List.map nm cs)
  | A "other" -> COther
  | L (A "q" :: l) -> CSeq (List.map cval l)
  | _ -> failwith "cval"
let titem = function L [A "ic"; c] -> IConst (cval c) | L [A "id"; x] -> IDyn (nm x) | _ -> failwith "titem"
let texpr = function
  | L [A "c"; c] -> TConst (cval c)
  | L (A "seq" :: its) -> TSeq (List.map titem its)
  | L [A "dyn"; x] -> TDyn (nm x)
  | L [A "cond"; t; a; b] -> TCond (nm t, titem a, titem b)
  | _ -> failwith "texpr"
let rkind = function A "e" -> KExtends | A "i" -> KInclude | A "m" -> KImport | A "f" -> KFromImport | _ -> failwith "kind"
let text s = String.concat "," (List.map (fun c -> string_of_int (int_of_n c)) s)
let show_err = function
  | ETypeError -> "TypeError" | EUndefinedError -> "UndefinedError" | ERuntimeError -> "TemplateRuntimeError"
  | EFuel -> "Fuel" | EInternal -> "Internal"
let show_obs = function
  | Err e -> "err " ^ show_err e
  | Ok (o, ex) ->
      let ex = List.sort compare (List.map (fun (x, s) -> (int_of_n x, s)) ex) in
      "ok " ^ text o ^ ";" ^ String.concat ";" (List.map (fun (x, s) -> string_of_int x ^ "=" ^ text s) ex)
let show_id (l, x) = string_of_int (int_of_nat l) ^ "." ^ string_of_int (int_of_n x)
let show_load = function
  | LParam -> "p" | LResolve x -> "r" ^ string_of_int (int_of_n x) | LAlias r -> "a" ^ show_id r | LUndef -> "u"
let show_sym s =
  "L" ^ string_of_int (int_of_nat s.s_level)
  ^ " R " ^ String.concat "," (List.map (fun (x, id) -> string_of_int (int_of_n x) ^ ":" ^ show_id id) s.s_refs)
  ^ " D " ^ String.concat "," (List.map (fun (id, l) -> show_id id ^ ":" ^ show_load l) s.s_loads)
  ^ " S " ^ String.concat "," (List.map string_of_int (List.sort compare (List.map int_of_n s.s_stores)))
let ord_id l = l
let () =
  try while true do
    let line = input_line stdin in
    (try
      match parse line with
      | L [A "run"; fuel; L (A "pynorm" :: pn); L (A "priv" :: pv); L (A "data" :: dd); L (A "prog" :: p)] ->
          let tbl = List.map (function L [a; b] -> (num a, nm b) | _ -> failwith "pn") pn in
          let pynorm x = match List.assoc_opt (int_of_n x) tbl with Some y -> y | None -> x in
          let pvs = List.map num pv in
          let priv x = List.mem (int_of_n x) pvs in
          let d = List.map (function L [x; v] -> (nm x, value v) | _ -> failwith "data") dd in
          let prog = List.map stmt p in
          let fuel = nat_of_int (num fuel) in
          let f = frender pynorm priv d fuel prog in
          let s = srender priv d fuel prog in
          let r = List.sort_uniq compare (List.map int_of_n (fresolves pynorm priv d fuel prog)) in
          let b x = if x then "1" else "0" in
          let g = b (core_prog prog) ^ b (wf_names prog) ^ b (noalias pynorm prog) ^ b (guard_rbw prog d) ^ b (core2_prog prog) ^ b (core3_prog true prog) in
          print_endline ("F " ^ show_obs f ^ " | S " ^ show_obs s ^ " | R " ^ String.concat "," (List.map string_of_int r) ^ " | G " ^ g)
      | L [A "sym"; L (A "prog" :: p)] ->
          let prog = List.map stmt p in
          let fs = frames_of ord_id prog in
          print_endline (String.concat " / " (List.map (function s :: _ -> show_sym s | [] -> "?") fs))
      | L [A "symf"; x; L (A "args" :: es); L (A "pre" :: pre); L (A "body" :: body)] ->
          let fs = frames_setblock_f ord_id (List.map stmt pre) (nm x) (List.map expr es) (List.map stmt body) in
          print_endline (String.concat " / " (List.map (function s :: _ -> show_sym s | [] -> "?") fs))
      | L [A "und"; L (A "globals" :: gs); L (A "prog" :: p)] ->
          let prog = List.map stmt p in
          let u = List.sort_uniq compare (List.map int_of_n (meta_undeclared (List.map nm gs) prog)) in
          print_endline (String.concat "," (List.map string_of_int u) ^ " | " ^ (if nocall_l prog then "1" else "0"))
      | L [A "ref"; k; t] ->
          print_endline (String.concat ";" (List.map (function None -> "N" | Some n -> "S" ^ text n) (referenced (rkind k) (texpr t))))
      | L [A "req"; k; t; L (A "dv" :: dvs); L (A "truth" :: ts); L (A "have" :: hs)] ->
          let tbl = List.map (function L (x :: ns) -> (num x, List.map tname ns) | _ -> failwith "dv") dvs in
          let dv x = match List.assoc_opt (int_of_n x) tbl with Some l -> l | None -> [] in
          let tr = List.map num ts in
          let truth x = List.mem (int_of_n x) tr in
          let hv = List.map tname hs in
          let have n = List.mem n hv in
          print_endline (String.concat ";" (List.map text (requested dv truth have (rkind k) (texpr t))))
      | _ -> print_endline "BAD"
    with Failure m -> print_endline ("BAD " ^ m))
  done with End_of_file -> ()
