(* one case per line, space-separated tokens; strings: - (empty) or code points joined by dots.
   X ast : extract, prints entries  name:slot,slot,..  separated by spaces (slot = code points or ~ for None; - empty)
     ast = C ast na ast.. nk ast.. nd ast.. , N str , S str , O n ast..
   B n piece.. : prints fmt_of true b , then | , then parse_block (trim_block b)     (piece = t:str , v:str) *)
open I18nx_x
let rec pos_of_int n = if n = 1 then XH else if n land 1 = 0 then XO (pos_of_int (n lsr 1)) else XI (pos_of_int (n lsr 1))
let n_of_int n = if n = 0 then N0 else Npos (pos_of_int n)
let rec int_of_pos = function XH -> 1 | XO p -> 2 * int_of_pos p | XI p -> 2 * int_of_pos p + 1
let int_of_n = function N0 -> 0 | Npos p -> int_of_pos p
let str_of s = if s = "-" then [] else List.map (fun x -> n_of_int (int_of_string x)) (String.split_on_char '.' s)
let show s = if s = [] then "-" else String.concat "." (List.map (fun n -> string_of_int (int_of_n n)) s)
let toks = ref []
let next () = match !toks with [] -> failwith "eof" | t :: r -> toks := r; t
let nint () = int_of_string (next ())
let nstr () = str_of (next ())
let rec many n f = if n = 0 then [] else let x = f () in x :: many (n - 1) f
let rec past () = match next () with
  | "C" -> let c = past () in let na = nint () in let a = many na past in let nk = nint () in let k = many nk past in
           let nd = nint () in let d = many nd past in ACall (c, a, k, d)
  | "N" -> AName (nstr ())
  | "S" -> AConstStr (nstr ())
  | "O" -> let n = nint () in ANode (many n past)
  | t -> failwith ("ast " ^ t)
let piece () = let t = next () in let s = str_of (String.sub t 2 (String.length t - 2)) in
  if t.[0] = 'v' then PVar s else PText s
let () =
  try while true do
    let line = input_line stdin in
    toks := List.filter (fun x -> x <> "") (String.split_on_char ' ' line);
    (try match next () with
    | "X" -> let t = past () in
      let es = extract t in
      print_endline ("E " ^ String.concat " " (List.map (fun (nm, slots) ->
        show nm ^ ":" ^ String.concat "," (List.map (function None -> "~" | Some s -> show s) slots)) es))
    | "B" -> let n = nint () in let b = many n piece in
      print_endline (show (fmt_of true b) ^ " | " ^ show (parse_block (trim_block b)))
    | t -> print_endline ("?" ^ t)
    with Failure m -> print_endline ("!" ^ m))
  done with End_of_file -> ()
