(* one case per line:  <cmd> <cfg> <src>
     cfg = bs,be,vs,ve,cs,ce,lsp,lcp,trim,lstrip,nlseq,keep   strings as dot-separated code points,
           'e' = empty string, '-' = None (prefixes only), flags 0/1
     src = dot-separated code points or 'e'
   T: prints  <end> <items>   end = OK | SYN:<line>:<msg> | INT:<tag> | FUEL
              items ';'-separated:  t:<lineno>:<type>:<start>:<value>  |  g:<why>:<text>
   N: prints the normalised source
   R: prints render_data (concatenated, newline-normalised data) or ERR
   P: prints  <no_start_delim 0/1> <spec_plain>
   K <cfg> <skeleton>: prints  <unparse> <spec_trim with vout="V"> <spec_trim with vout="">
     skeleton = segments joined by '/':  t:<text>  b:<l><r>  c:<l><r>  v:<l><r>  r:<l1><r1><l2><r2>:<body>   (n/m/p)
   W <chars>: is_space of each code point as 0/1 *)
open Lex_x
let rec pos_of_int n = if n = 1 then XH else if n land 1 = 0 then XO (pos_of_int (n lsr 1)) else XI (pos_of_int (n lsr 1))
let n_of_int n = if n = 0 then N0 else Npos (pos_of_int n)
let rec int_of_pos = function XH -> 1 | XO p -> 2 * int_of_pos p | XI p -> 2 * int_of_pos p + 1
let int_of_n = function N0 -> 0 | Npos p -> int_of_pos p
let str_of s = if s = "e" then [] else List.map (fun x -> n_of_int (int_of_string x)) (String.split_on_char '.' s)
let show s = if s = [] then "e" else String.concat "." (List.map (fun n -> string_of_int (int_of_n n)) s)
let opt_of s = if s = "-" then None else Some (str_of s)
let flag s = s = "1"
let cfg_of s =
  match String.split_on_char ',' s with
  | [bs; be; vs; ve; cs; ce; lsp; lcp; trim; lstrip; nlseq; keep] ->
    { c_bs = str_of bs; c_be = str_of be; c_vs = str_of vs; c_ve = str_of ve; c_cs = str_of cs; c_ce = str_of ce;
      c_lsp = opt_of lsp; c_lcp = opt_of lcp; c_trim = flag trim; c_lstrip = flag lstrip;
      c_nlseq = str_of nlseq; c_keep = flag keep; c_digit = ascii_digit; c_word = ascii_word }
  | _ -> failwith ("bad cfg " ^ s)
let ty = function
  | TData -> "data" | TCommentBegin -> "comment_begin" | TComment -> "comment" | TCommentEnd -> "comment_end"
  | TBlockBegin -> "block_begin" | TBlockEnd -> "block_end" | TVarBegin -> "variable_begin" | TVarEnd -> "variable_end"
  | TRawBegin -> "raw_begin" | TRawEnd -> "raw_end" | TLsBegin -> "linestatement_begin" | TLsEnd -> "linestatement_end"
  | TLcBegin -> "linecomment_begin" | TLc -> "linecomment" | TLcEnd -> "linecomment_end" | TWs -> "whitespace"
  | TFloat -> "float" | TInt -> "integer" | TName -> "name" | TString -> "string" | TOp -> "operator"
let item = function
  | ITok (ln, t, v, st) -> Printf.sprintf "t:%d:%s:%d:%s" (int_of_n ln) (ty t) (int_of_n st) (show v)
  | IGap (g, w) -> Printf.sprintf "g:%s:%s" (match w with GMinus -> "minus" | GLstrip -> "lstrip") (show g)
let items l = if l = [] then "-" else String.concat ";" (List.map item l)
let msg = function
  | MissingEndComment -> "missing_end_comment" | MissingEndRaw -> "missing_end_raw"
  | UnexpectedChar (c, p) -> Printf.sprintf "unexpected_char.%d.%d" (int_of_n c) (int_of_n p)
  | UnexpectedClose c -> Printf.sprintf "unexpected_close.%d" (int_of_n c)
  | UnexpectedCloseExpected (c, e) -> Printf.sprintf "unexpected_close_expected.%d.%d" (int_of_n c) (int_of_n e)
let md_of = function 'n' -> MNone | 'm' -> MMinus | 'p' -> MPlus | _ -> failwith "bad modifier"
let seg_of s =
  match String.split_on_char ':' s with
  | ["t"; x] -> Text (str_of x)
  | ["b"; m] -> Block (md_of m.[0], md_of m.[1])
  | ["c"; m] -> Comment (md_of m.[0], md_of m.[1])
  | ["v"; m] -> Var (md_of m.[0], md_of m.[1])
  | ["r"; m; x] -> Raw (md_of m.[0], md_of m.[1], str_of x, md_of m.[2], md_of m.[3])
  | _ -> failwith ("bad segment " ^ s)
let skel_of s = List.map seg_of (String.split_on_char '/' s)
let () =
  try while true do
    let line = input_line stdin in
    match String.split_on_char ' ' line |> List.filter (fun x -> x <> "") with
    | ["T"; c; s] ->
      (match tokeniter (cfg_of c) (str_of s) with
       | LexOk l -> print_endline ("OK " ^ items l)
       | LexSyntaxErr (l, ln, m) -> print_endline (Printf.sprintf "SYN:%d:%s %s" (int_of_n ln) (msg m) (items l))
       | LexInternal (l, i) -> print_endline ("INT:" ^ (match i with IntNoGroup -> "nogroup" | IntEmptyMatch -> "emptymatch") ^ " " ^ items l)
       | LexOutOfFuel -> print_endline "FUEL -")
    | ["N"; c; s] -> print_endline (show (normalize (cfg_of c).c_keep (str_of s)))
    | ["R"; c; s] -> (match render_data (cfg_of c) (str_of s) with Some d -> print_endline ("D " ^ show d) | None -> print_endline "ERR")
    | ["P"; c; s] -> let c = cfg_of c in let s = str_of s in
      print_endline ((if no_start_delim c s then "1 " else "0 ") ^ show (spec_plain c.c_nlseq c.c_keep s))
    | ["K"; c; k] -> let c = cfg_of c in let sk = skel_of k in
      print_endline (show (unparse c sk) ^ " " ^ show (spec_trim c.c_trim c.c_lstrip [n_of_int 86] sk) ^ " " ^ show (spec_trim c.c_trim c.c_lstrip [] sk))
    | ["W"; s] -> print_endline (String.concat "" (List.map (fun n -> if is_space n then "1" else "0") (str_of s)))
    | _ -> print_endline "?"
  done with End_of_file -> ()
