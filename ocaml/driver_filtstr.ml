(* one case per line (space separated); strings as code points c,c,c or - ; integers decimal
   truncate <policy> <length> <killwords 0|1> <end> <leeway|?> <s>   -> OK <s> | ERR AssertionError
   indent <i<int>|s<cps>> <first> <blank> <s>                        -> OK <s>
   center <width> <s>                                                -> OK <s>
   wordcount <s>                                                     -> N <n>
   splitlines <s>                                                    -> L <s>;<s>;...
   filesize <bytes> <binary>                                         -> ONE | BYTES n | UNIT i num den
   int <outer> <inner> <kind index>    (caught classes as letters A T V O, - for none)  -> C | D | R<letter>
   float <caught> <kind index>                                       -> C | D | R<letter> *)
open Filtstr_x
let rec pos_of_int n = if n = 1 then XH else if n land 1 = 0 then XO (pos_of_int (n lsr 1)) else XI (pos_of_int (n lsr 1))
let n_of_int n = if n = 0 then N0 else Npos (pos_of_int n)
let rec int_of_pos = function XH -> 1 | XO p -> 2 * int_of_pos p | XI p -> 2 * int_of_pos p + 1
let int_of_n = function N0 -> 0 | Npos p -> int_of_pos p
let rec nat_of_int n = if n = 0 then O else S (nat_of_int (n - 1))
let rec int_of_nat = function O -> 0 | S n -> 1 + int_of_nat n
let cps s = if s = "-" then [] else List.map (fun x -> n_of_int (int_of_string x)) (String.split_on_char ',' s)
let show_cps l = if l = [] then "-" else String.concat "," (List.map (fun n -> string_of_int (int_of_n n)) l)
let z_of_string s = read_Z (List.init (String.length s) (fun i -> n_of_int (Char.code s.[i])))
let string_of_z z = String.concat "" (List.map (fun n -> String.make 1 (Char.chr (int_of_n n))) (show_Z z))
let exns s = if s = "-" then [] else List.init (String.length s) (fun i -> match s.[i] with
  | 'A' -> AssertionError | 'T' -> TypeError | 'V' -> ValueError | 'O' -> OverflowError | _ -> failwith "exn")
let letter = function AssertionError -> "A" | TypeError -> "T" | ValueError -> "V" | OverflowError -> "O"
let kind_of i = List.nth all_kinds i
let shape = function SConverted -> "C" | SDefault -> "D" | SRaises e -> "R" ^ letter e
let () =
  try while true do
    let line = input_line stdin in
    match List.filter (fun x -> x <> "") (String.split_on_char ' ' line) with
    | [] -> print_endline ""
    | ["truncate"; pol; len; kw; e; lw; s] ->
        (match do_truncate (z_of_string pol) (cps s) (z_of_string len) (kw = "1") (cps e)
                 (if lw = "?" then None else Some (z_of_string lw)) with
         | Ok r -> print_endline ("OK " ^ show_cps r)
         | Err _ -> print_endline "ERR AssertionError")
    | ["indent"; w; first; blank; s] ->
        let w' = if w.[0] = 'i' then WInt (z_of_string (String.sub w 1 (String.length w - 1)))
                 else WStr (cps (String.sub w 1 (String.length w - 1))) in
        print_endline ("OK " ^ show_cps (do_indent (cps s) w' (first = "1") (blank = "1")))
    | ["center"; w; s] -> print_endline ("OK " ^ show_cps (do_center (cps s) (z_of_string w)))
    | ["wordcount"; s] -> print_endline ("N " ^ string_of_int (int_of_n (do_wordcount ascii_word (cps s))))
    | ["splitlines"; s] -> print_endline ("L " ^ String.concat ";" (List.map show_cps (splitlines (cps s))))
    | ["filesize"; b; bin] ->
        (match do_filesizeformat (z_of_string b) (bin = "1") with
         | FOneByte -> print_endline "ONE"
         | FBytes n -> print_endline ("BYTES " ^ string_of_z n)
         | FUnit (i, num, den) -> print_endline ("UNIT " ^ string_of_int (int_of_nat i) ^ " " ^ string_of_z num ^ " " ^ string_of_z den))
    | ["int"; o; i; k] -> print_endline (shape (int_shape (exns o) (exns i) (kind_of (int_of_string k))))
    | ["float"; c; k] -> print_endline (shape (float_shape (exns c) (kind_of (int_of_string k))))
    | _ -> failwith ("bad line " ^ line)
  done with End_of_file -> ()
