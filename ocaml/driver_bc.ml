(* C27 driver.  byte strings: comma-separated ints, "-" = empty.
   L <pickle classes> <marshal classes> <want> <magic> <data>      -> H<code> | M | R<exn tag>
        classes: comma-separated of B (BaseException) X (Exception) K (LookupError) A (ArithmeticError) or an exn tag; "-" = none
   W <c|f> <k> <old: ~ | bytes> <nchunks> <chunk>...               -> <real: ~ | bytes> <tmp: ~ | bytes>
   S <opts e0> <opts e1> <src of name 1> <op>...                   ops l:<e>:<n>  m:<n>:<s>  c
                                                                    -> per op  <src>.<opts> | U   ';'-separated *)
open Bc_x
let rec pos_of_int n = if n = 1 then XH else if n land 1 = 0 then XO (pos_of_int (n lsr 1)) else XI (pos_of_int (n lsr 1))
let n_of_int n = if n = 0 then N0 else Npos (pos_of_int n)
let rec int_of_pos = function XH -> 1 | XO p -> 2 * int_of_pos p | XI p -> 2 * int_of_pos p + 1
let int_of_n = function N0 -> 0 | Npos p -> int_of_pos p
let rec nat_of_int n = if n = 0 then O else S (nat_of_int (n - 1))
let bytes_of s = if s = "-" then [] else List.map (fun x -> n_of_int (int_of_string x)) (String.split_on_char ',' s)
let show b = if b = [] then "-" else String.concat "," (List.map (fun n -> string_of_int (int_of_n n)) b)
let exn_of_tag = function
  | 0 -> EEOF | 1 -> EValue | 2 -> EType | 3 -> EUnpickling | 4 -> EAttribute | 5 -> EImport | 6 -> EIndex | 7 -> EKey
  | 8 -> EUnicodeDecode | 9 -> EMemory | 10 -> EOverflow | 11 -> EOtherException | _ -> ENotException
let tag_of_exn = function
  | EEOF -> 0 | EValue -> 1 | EType -> 2 | EUnpickling -> 3 | EAttribute -> 4 | EImport -> 5 | EIndex -> 6 | EKey -> 7
  | EUnicodeDecode -> 8 | EMemory -> 9 | EOverflow -> 10 | EOtherException -> 11 | ENotException -> 12
let classes s = if s = "-" then [] else List.map (function
    | "B" -> HBaseException | "X" -> HException | "K" -> HLookupError | "A" -> HArithmeticError
    | t -> HClass (exn_of_tag (int_of_string t))) (String.split_on_char ',' s)
let show_opt = function None -> "~" | Some b -> show b
let () =
  try while true do
    let line = input_line stdin in
    match String.split_on_char ' ' line |> List.filter (fun x -> x <> "") with
    | [] -> print_endline ""
    | ["L"; hp; hm; want; magic; data] ->
      let tbl = { h_pickle = classes hp; h_marshal = classes hm } in
      (match toy_load (bytes_of magic) tbl (n_of_int (int_of_string want)) (bytes_of data) with
       | Hit c -> print_endline ("H" ^ string_of_int (int_of_n c))
       | Miss -> print_endline "M"
       | Raise e -> print_endline ("R" ^ string_of_int (tag_of_exn e)))
    | "W" :: mode :: k :: old :: _ :: chunks ->
      let real = n_of_int 1 and tmp = n_of_int 2 in
      let s0 = fun f -> if f = real && old <> "~" then Some (bytes_of old) else None in
      let chunks = List.map bytes_of chunks in
      let k = nat_of_int (int_of_string k) in
      let s = if mode = "c" then crash_after real tmp s0 chunks k else fault_after real tmp s0 chunks k in
      print_endline (show_opt (s real) ^ " " ^ show_opt (s tmp))
    | "S" :: o0 :: o1 :: src1 :: ops ->
      let opts e = if e = N0 then n_of_int (int_of_string o0) else n_of_int (int_of_string o1) in
      let parse s = match String.split_on_char ':' s with
        | ["l"; e; n] -> HLoad (n_of_int (int_of_string e), n_of_int (int_of_string n))
        | ["m"; n; v] -> HModify (n_of_int (int_of_string n), n_of_int (int_of_string v))
        | ["c"] -> HClear
        | _ -> failwith ("bad op " ^ s) in
      let (_, xs) = hrun (fun x -> x) opts (world0 (fun _ -> n_of_int (int_of_string src1))) (List.map parse ops) in
      print_endline (String.concat ";" (List.map (function None -> "U" | Some (s, o) -> string_of_int (int_of_n s) ^ "." ^ string_of_int (int_of_n o)) xs))
    | _ -> failwith ("bad line " ^ line)
  done with End_of_file -> ()
