"""T2-style translator for C01: every `raise` / `assert` in the modules on the template loading
path (lexer, parser, compiler, idtracking, optimizer, visitor, nodes, ext), with its enclosing
function and the raised class, as a Coq table.  Fail-closed: an exception expression it cannot
classify is reported as class "Other"."""
import ast
import os

FILES = ["lexer.py", "parser.py", "compiler.py", "idtracking.py", "optimizer.py", "visitor.py", "nodes.py", "ext.py"]

SYNTAX = {"TemplateSyntaxError", "TemplateAssertionError"}
CONTROL = {"VisitorExit", "CompilerExit", "StopIteration"}
IMPOSSIBLE = {"Impossible", "nodes.Impossible"}


def classify(fname, func, node, src_tree_funcs):
    e = node.exc
    if e is None:
        return "Reraise"
    name = ast.unparse(e.func) if isinstance(e, ast.Call) else ast.unparse(e)
    if name in SYNTAX:
        return "Syntax"
    if name in IMPOSSIBLE:
        return "Impossible"
    if name in CONTROL:
        return "Control"
    # dynamic classes that the code itself restricts to TemplateSyntaxError subclasses
    if (fname, func, name) in {("lexer.py", "Failure.__call__", "self.error_class"),
                               ("parser.py", "Parser.fail", "exc"),
                               ("lexer.py", "Lexer.tokeniter", "token")}:
        return "SyntaxDyn"
    if name in ("RuntimeError", "NotImplementedError", "AssertionError", "TypeError"):
        return name
    return "Other"


def sites(src_root):
    out = []
    for f in FILES:
        tree = ast.parse(open(os.path.join(src_root, "jinja2", f)).read())

        class V(ast.NodeVisitor):
            def __init__(self):
                self.stack = []

            def visit_ClassDef(self, n):
                self.stack.append(n.name); self.generic_visit(n); self.stack.pop()

            def visit_FunctionDef(self, n):
                self.stack.append(n.name); self.generic_visit(n); self.stack.pop()

            visit_AsyncFunctionDef = visit_FunctionDef

            def visit_Raise(self, n):
                fn = ".".join(self.stack)
                out.append((f, fn, classify(f, fn, n, None)))

            def visit_Assert(self, n):
                out.append((f, ".".join(self.stack), "Assert"))

        V().visit(tree)
    return out


def dynamic_class_facts(src_root):
    """the three dynamic raise sites are TemplateSyntaxError only if: Parser.fail's default exc
    is TemplateSyntaxError and its callers pass TemplateAssertionError at most; Failure's default
    cls is TemplateSyntaxError; tokeniter's `token` being raised is a Failure instance."""
    lex = open(os.path.join(src_root, "jinja2", "lexer.py")).read()
    par = open(os.path.join(src_root, "jinja2", "parser.py")).read()
    facts = {
        "failure_default_cls": "cls: type[TemplateSyntaxError] = TemplateSyntaxError" in lex,
        "parser_fail_default": "exc: type[TemplateSyntaxError] = TemplateSyntaxError" in par,
        "tokeniter_raises_failure": "if isinstance(token, Failure):" in lex,
    }
    return facts


def fold_handlers(src_root):
    """every `except` clause inside the constant-folding entry points of nodes.py (the as_const
    methods and args_as_const): the class it catches and whether its body raises Impossible.  Folding
    runs arbitrary operators / filters on constants while the template is loaded, so whatever they
    raise must be turned into Impossible (the expression is then compiled for evaluation at render
    time)."""
    tree = ast.parse(open(os.path.join(src_root, "jinja2", "nodes.py")).read())
    out = []

    class V(ast.NodeVisitor):
        def __init__(self):
            self.stack = []

        def visit_ClassDef(self, n):
            self.stack.append(n.name); self.generic_visit(n); self.stack.pop()

        def visit_FunctionDef(self, n):
            self.stack.append(n.name); self.generic_visit(n); self.stack.pop()

        def visit_Try(self, n):
            fn = ".".join(self.stack)
            if self.stack and self.stack[-1] in ("as_const", "args_as_const"):
                for h in n.handlers:
                    ty = ast.unparse(h.type) if h.type is not None else "BaseException"
                    imp = any(isinstance(x, ast.Raise) and x.exc is not None and
                              ast.unparse(x.exc.func if isinstance(x.exc, ast.Call) else x.exc) in IMPOSSIBLE
                              for x in h.body)
                    out.append((fn, ty, imp))
            self.generic_visit(n)

    V().visit(tree)
    return out


def emit(src_root):
    ss = sites(src_root)
    facts = dynamic_class_facts(src_root)
    fh = fold_handlers(src_root)
    lines = ["(* regenerated from %s/jinja2 by gen/c01_raises.py — do not edit *)" % src_root,
             "From Coq Require Import List String Bool.", "Import ListNotations.", "Open Scope string_scope.",
             "From JV Require Import Model.C01Raises.", "",
             "Definition sites : list (string * string * cls) := ["]
    lines.append(";\n".join('  ("%s", "%s", %s)' % (f, fn, c) for f, fn, c in ss))
    lines.append("].")
    lines.append("Definition dyn_facts : list bool := [%s]." % "; ".join("true" if v else "false" for v in facts.values()))
    lines.append("Definition fold_handlers : list (string * string * bool) := [")
    lines.append(";\n".join('  ("%s", "%s", %s)' % (fn, ty.replace('"', "'"), "true" if imp else "false") for fn, ty, imp in fh))
    lines.append("].")
    lines.append("")
    lines.append("(* obligation: every raise / assert site on the loading path raises a template syntax error, is")
    lines.append("   engine-internal control flow caught by the engine, or is a listed internal")
    lines.append("   guard; every handler in the constant-folding entry points catches Exception and raises Impossible,")
    lines.append("   and the eight entry points that run operators, filters, tests, subscripts and attribute lookups on")
    lines.append("   constants all have one *)")
    lines.append("Theorem load_path_raises_only_syntax_errors : forallb site_ok sites = true /\\ forallb (fun b => b) dyn_facts = true /\\")
    lines.append("  forallb fold_handler_ok fold_handlers = true /\\ forallb (fun f => existsb (fun h => String.eqb (fst (fst h)) f) fold_handlers) fold_entry_points = true.")
    lines.append("Proof. repeat split; vm_compute; reflexivity. Qed.")
    lines.append("Print Assumptions load_path_raises_only_syntax_errors.")
    return "\n".join(lines) + "\n", ss


if __name__ == "__main__":
    import sys
    txt, _ = emit(sys.argv[1] if len(sys.argv) > 1 else "/repo/src")
    print(txt)
