"""Coq text of Gen_macrobody.v around the terms produced by gen/macrobody_translate.py (the Definitions
at the top are regenerated on every run, the proof script is fixed)."""

TEMPLATE = r'''(* regenerated from %(root)s/jinja2/compiler.py (CodeGenerator.macro_body) by gen/macrobody_translate.py - do not edit *)
From Coq Require Import List NArith Bool String Arith Lia.
Import ListNotations.
From JV Require Import Model.Macro Lib.PyMacroBody.
Open Scope string_scope.

Definition loop_body : list stmt := %(loop_body)s.
Definition pre_stmts : list stmt := [%(pre)s].
Definition loop_stmt : stmt := %(loop_stmt)s.
Definition und_stmt : stmt := %(und)s.
Definition caller_stmt : stmt := %(caller)s.
Definition kwargs_stmt : stmt := %(kwargs)s.
Definition varargs_stmt : stmt := %(varargs)s.
Definition post_stmts : list stmt := [und_stmt; caller_stmt; kwargs_stmt; varargs_stmt].

Notation mkenv v_explicit_caller v_skip v_args v_idx v_arg v_undeclared :=
  [("explicit_caller", v_explicit_caller); ("skip_special_params", v_skip); ("args", v_args); ("idx", v_idx);
   ("arg", v_arg); ("undeclared", v_undeclared)] (only parsing).
Definition fl0 : flags := {| fl_caller := false; fl_kwargs := false; fl_varargs := false |}.

Definition present (d : mdef) (f : flow) : option cres :=
  match f with
  | Fall en fl => match env_get "args" en with
                  | BParams py => Some (COk py {| r_args := d_params d; r_kwargs := fl_kwargs fl;
                                                  r_varargs := fl_varargs fl; r_caller := fl_caller fl |})
                  | _ => None end
  | Fail => Some CFail
  | Bad => None
  end.

Definition gen_macro_body (d : mdef) : flow :=
  execs (pre_stmts ++ loop_stmt :: post_stmts) d (mkenv BUnbound BUnbound BUnbound BUnbound BUnbound BUnbound) fl0.

Definition ecv (o : option nat) : bv := match o with Some i => BNat i | None => BNone end.

Lemma loop_eq : forall d names k o sk a v_idx v_arg v_und fl,
  exists sk' vi va,
  for_enum "idx" "arg" loop_body d names k (mkenv (ecv o) (BSet sk) (BParams a) v_idx v_arg v_und) fl
  = Fall (mkenv (ecv (last_index n_caller names k o)) (BSet sk') (BParams (a ++ map PName names)) vi va v_und) fl
  /\ mem n_kwargs sk' = mem n_kwargs sk || mem n_kwargs names
  /\ mem n_varargs sk' = mem n_varargs sk || mem n_varargs names.
Proof.
  intros d names. induction names as [|n r IH]; intros k o sk a v_idx v_arg v_und fl.
  - exists sk, v_idx, v_arg. cbn [for_enum last_index map mem]. rewrite app_nil_r, !orb_false_r. auto.
  - cbn [for_enum last_index map]. unfold loop_body at 1. bstep.
    destruct (N.eqb_spec n n_caller) as [E1|E1]; bstep;
    destruct (N.eqb_spec n n_kwargs) as [E2|E2]; bstep;
    destruct (N.eqb_spec n n_varargs) as [E3|E3]; bstep;
    match goal with |- context [for_enum _ _ _ _ _ _ ?E _] =>
      match E with context [("explicit_caller", ?EC)] => match E with context [("skip_special_params", BSet ?SK)] =>
      match E with context [("args", BParams ?A)] =>
        let o' := match EC with BNat ?i => constr:(Some i) | _ => constr:(o) end in
        destruct (IH (S k) o' SK A (BNat k) (BName n) v_und fl) as [sk' [vi [va [H [Hk Hv]]]]]
      end end end end;
    unfold ecv in H; cbn [ecv] in *; (rewrite H || (unfold ecv; rewrite H)); clear H;
    exists sk', vi, va; rewrite <- app_assoc; cbn [app]; (split; [reflexivity|]);
    rewrite Hk, Hv; cbn [mem]; subst;
    repeat match goal with |- context [N.eqb ?x ?y] => destruct (N.eqb_spec x y); try congruence end;
    cbn [orb]; rewrite ?orb_true_r; try (split; reflexivity); try (unfold n_kwargs, n_varargs, n_caller in *; congruence).
Qed.

Lemma execs_app : forall l1 l2 d en fl,
  execs (l1 ++ l2) d en fl = match execs l1 d en fl with Fall en1 fl1 => execs l2 d en1 fl1 | other => other end.
Proof.
  intros l1. induction l1 as [|x r IH]; intros l2 d en fl; cbn [app execs]; [reflexivity|].
  destruct (exec x d en fl); try reflexivity. apply IH.
Qed.

Ltac ccbn := cbn [present env_get String.eqb Ascii.eqb Bool.eqb fl_caller fl_kwargs fl_varargs d_params d_defaults andb negb orb
                   special_param N.eqb Pos.eqb n_caller n_kwargs n_varargs undeclared_of mem app u_caller u_kwargs u_varargs set_flag].
Ltac go := repeat (progress (bstep; ccbn; cbv beta iota)).

Ltac go3 M1 M2 M3 := repeat (progress (bstep; rewrite ?M1, ?M2, ?M3; cbv beta iota)).

Lemma caller_stmt_eq : forall ps ds uc uk uv o sk a vi va fl,
  let d := {| d_params := ps; d_defaults := ds; u_caller := uc; u_kwargs := uk; u_varargs := uv |} in
  exec caller_stmt d (mkenv (ecv o) (BSet sk) (BParams a) vi va (BSet (undeclared_of d))) fl =
  if uc then
    match o with
    | Some idx =>
        if Nat.ltb (List.length ds) (List.length ps - idx) then Fail
        else if Nat.leb (List.length ps + List.length ds) idx then Fail
        else Fall (mkenv (ecv o) (BSet sk) (BParams a) vi va (BSet (undeclared_of d))) (set_flag FCaller fl)
    | None => Fall (mkenv (ecv o) (BSet sk) (BParams (a ++ [PCaller])) vi va (BSet (undeclared_of d))) (set_flag FCaller fl)
    end
  else Fall (mkenv (ecv o) (BSet sk) (BParams a) vi va (BSet (undeclared_of d))) fl.
Proof.
  intros ps ds uc uk uv o sk a vi va fl d. destruct (mem_undeclared d) as [M1 [M2 M3]]; cbn [u_caller u_kwargs u_varargs] in M1, M2, M3. subst d. unfold caller_stmt, ecv.
  destruct uc, o as [idx|]; go3 M1 M2 M3; try reflexivity;
  repeat (match goal with |- context [if ?b then _ else _] => match b with true => fail 1 | false => fail 1 | _ => destruct b end end; go3 M1 M2 M3);
  cbn [special_param N.eqb Pos.eqb n_caller]; reflexivity.
Qed.

Lemma special_stmt_eq : forall (which : bool) ps ds uc uk uv ec sk a vi va fl,
  let d := {| d_params := ps; d_defaults := ds; u_caller := uc; u_kwargs := uk; u_varargs := uv |} in
  exec (if which then kwargs_stmt else varargs_stmt) d (mkenv ec (BSet sk) (BParams a) vi va (BSet (undeclared_of d))) fl =
  if (if which then uk else uv) && negb (mem (if which then n_kwargs else n_varargs) sk)
  then Fall (mkenv ec (BSet sk) (BParams (a ++ [if which then PKwargs else PVarargs])) vi va (BSet (undeclared_of d)))
            (set_flag (if which then FKwargs else FVarargs) fl)
  else Fall (mkenv ec (BSet sk) (BParams a) vi va (BSet (undeclared_of d))) fl.
Proof.
  intros which ps ds uc uk uv ec sk a vi va fl d. destruct (mem_undeclared d) as [M1 [M2 M3]]; cbn [u_caller u_kwargs u_varargs] in M1, M2, M3. subst d. unfold kwargs_stmt, varargs_stmt.
  destruct which; [destruct uk|destruct uv]; go3 M1 M2 M3; try reflexivity;
  match goal with |- context [mem ?n sk] => destruct (mem n sk) end; go3 M1 M2 M3;
  cbn [special_param N.eqb Pos.eqb n_caller n_kwargs n_varargs]; reflexivity.
Qed.

Theorem macro_body_source_eq_model : forall d, present d (gen_macro_body d) = Some (macro_body_sig d).
Proof.
  intros [ps ds uc uk uv]. unfold gen_macro_body, macro_body_sig. rewrite execs_app.
  unfold pre_stmts, fl0. bstep. unfold loop_stmt. cbn [execs]. autorewrite with pybody. cbn [d_params].
  set (d := {| d_params := ps; d_defaults := ds; u_caller := uc; u_kwargs := uk; u_varargs := uv |}).
  destruct (loop_eq d ps 0 None [] [] BUnbound BUnbound BUnbound fl0) as [sk' [vi [va [H [Hk Hv]]]]].
  unfold ecv, fl0 in H. cbn [ecv] in H. rewrite H. clear H. cbn [mem orb app] in Hk, Hv.
  unfold post_stmts. cbn [execs]. unfold und_stmt at 1. autorewrite with pybody. cbn [eval env_set String.eqb Ascii.eqb Bool.eqb].
  fold (ecv (last_index n_caller ps 0 None)).
  subst d. rewrite caller_stmt_eq. unfold no_default. cbn [d_params d_defaults u_caller u_kwargs u_varargs].
  destruct (last_index n_caller ps 0 None) as [idx|] eqn:LI.
  - pose proof (last_index_bound _ _ _ _ _ LI) as [B|B]; [discriminate|].
    assert (LE : Nat.leb (List.length ps + List.length ds) idx = false) by (apply Nat.leb_gt; cbn in B; lia).
    rewrite LE.
    destruct uc; cbn [andb]; [destruct (Nat.ltb (List.length ds) (List.length ps - idx)); [reflexivity|]|];
    rewrite (special_stmt_eq true); cbn [andb]; rewrite Hk;
    destruct (uk && negb (mem n_kwargs ps)); rewrite (special_stmt_eq false); rewrite Hv;
    destruct (uv && negb (mem n_varargs ps)); ccbn; rewrite <- ?app_assoc; reflexivity.
  - destruct uc; cbn [andb];
    rewrite (special_stmt_eq true); cbn [andb]; rewrite Hk;
    destruct (uk && negb (mem n_kwargs ps)); rewrite (special_stmt_eq false); rewrite Hv;
    destruct (uv && negb (mem n_varargs ps)); ccbn; rewrite <- ?app_assoc; reflexivity.
Qed.
Print Assumptions macro_body_source_eq_model.
'''
