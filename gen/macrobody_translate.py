"""T5 translator for the parameter-assembly part of jinja2.compiler.CodeGenerator.macro_body (from
`explicit_caller = None` to the `varargs` branch): turns the CURRENT source into a term of the deep
embedding Lib/PyMacroBody.v and emits Gen_macrobody.v, which proves

    present d (interpreted source term) = Some (Model.Macro.macro_body_sig d)

for every macro definition d: the `for idx, arg in enumerate(node.args)` loop by induction over the
parameter list, the rest by symbolic evaluation per statement.  Also checks (textually) that the
emitted `def` joins exactly `args`, and that macro_def hands node.args and the three accesses_* flags to
Macro(...) in the order the runtime expects.  Fail-closed: anything else raises Untranslatable."""
import ast
import os


class Untranslatable(Exception):
    pass


NAMES = {"caller": "n_caller", "kwargs": "n_kwargs", "varargs": "n_varargs"}
FLAGS = {"accesses_caller": "FCaller", "accesses_kwargs": "FKwargs", "accesses_varargs": "FVarargs"}


def q(s):
    return '"%s"' % s


def expr(n):
    if isinstance(n, ast.Name):
        return f"(ELocal {q(n.id)})"
    if isinstance(n, ast.Constant):
        if n.value is None:
            return "ENone"
        if isinstance(n.value, str) and n.value in NAMES:
            return f"(EStr {NAMES[n.value]})"
        raise Untranslatable("constant " + repr(n.value))
    if isinstance(n, ast.Attribute) and n.attr == "name":
        return f"(ENameOf {expr(n.value)})"
    if isinstance(n, ast.List) and not n.elts:
        return "EEmptyList"
    src = ast.unparse(n)
    if src == "set()":
        return "EEmptySet"
    if src == "find_undeclared(node.body, ('caller', 'kwargs', 'varargs'))":
        return "EFindUndeclared"
    if isinstance(n, ast.Call) and not n.keywords and len(n.args) == 1:
        f = ast.unparse(n.func)
        if f == "frame.symbols.ref":
            return f"(ERef {expr(n.args[0])})"
        if f == "frame.symbols.declare_parameter" and isinstance(n.args[0], ast.Constant) and n.args[0].value in NAMES:
            return f"(EDeclare {NAMES[n.args[0].value]})"
    if isinstance(n, ast.Compare) and len(n.ops) == 1:
        op, a, b = n.ops[0], n.left, n.comparators[0]
        if isinstance(op, ast.Eq):
            return f"(EEq {expr(a)} {expr(b)})"
        if isinstance(op, ast.In) and isinstance(b, ast.Tuple):
            names = [e.value for e in b.elts if isinstance(e, ast.Constant) and e.value in NAMES]
            if len(names) != len(b.elts):
                raise Untranslatable("tuple " + ast.unparse(b))
            return f"(EInNames {expr(a)} [" + "; ".join(NAMES[x] for x in names) + "])"
        if isinstance(op, ast.In):
            return f"(EIn {expr(a)} {expr(b)})"
        if isinstance(op, ast.NotIn):
            return f"(ENotIn {expr(a)} {expr(b)})"
        if isinstance(op, ast.IsNot) and isinstance(b, ast.Constant) and b.value is None:
            return f"(EIsNotNone {expr(a)})"
    if isinstance(n, ast.BoolOp) and isinstance(n.op, ast.And) and len(n.values) == 2:
        return f"(EAnd {expr(n.values[0])} {expr(n.values[1])})"
    raise Untranslatable("expression " + src)


def stmts(body):
    return "[" + "; ".join(stmt(s) for s in body) + "]"


def stmt(st):
    if isinstance(st, ast.Assign) and len(st.targets) == 1:
        tg = st.targets[0]
        if isinstance(tg, ast.Name):
            return f"(SAssign {q(tg.id)} {expr(st.value)})"
        if isinstance(tg, ast.Attribute) and ast.unparse(tg.value) == "macro_ref" and tg.attr in FLAGS \
                and isinstance(st.value, ast.Constant) and st.value.value is True:
            return f"(SSetFlag {FLAGS[tg.attr]})"
    if isinstance(st, ast.If):
        return f"(SIf {expr(st.test)} {stmts(st.body)} {stmts(st.orelse)})"
    if isinstance(st, ast.For) and not st.orelse and ast.unparse(st.iter) == "enumerate(node.args)" \
            and isinstance(st.target, ast.Tuple) and len(st.target.elts) == 2 and all(isinstance(e, ast.Name) for e in st.target.elts):
        return f"(SForEnum {q(st.target.elts[0].id)} {q(st.target.elts[1].id)} loop_body)", stmts(st.body)
    if isinstance(st, ast.Expr) and isinstance(st.value, ast.Call) and not st.value.keywords:
        c = st.value
        if isinstance(c.func, ast.Attribute) and isinstance(c.func.value, ast.Name) and len(c.args) == 1:
            if c.func.attr == "add":
                return f"(SSetAdd {q(c.func.value.id)} {expr(c.args[0])})"
            if c.func.attr == "append":
                return f"(SAppend {q(c.func.value.id)} {expr(c.args[0])})"
        if ast.unparse(c.func) == "self.fail":
            return "SFail"
    if isinstance(st, ast.Try) and len(st.handlers) == 1 and not st.orelse and not st.finalbody and len(st.body) == 1:
        h, b = st.handlers[0], st.body[0]
        if isinstance(h.type, ast.Name) and h.type.id == "IndexError" and h.name is None and isinstance(b, ast.Expr):
            e = b.value
            if (isinstance(e, ast.Subscript) and ast.unparse(e.value) == "node.defaults" and isinstance(e.slice, ast.BinOp)
                    and isinstance(e.slice.op, ast.Sub) and isinstance(e.slice.left, ast.Name)
                    and ast.unparse(e.slice.right) == "len(node.args)"):
                return f"(STryDefault {q(e.slice.left.id)} {stmts(h.body)})"
    raise Untranslatable("statement " + ast.unparse(st)[:80])


EXPECTED_LOCALS = ["explicit_caller", "skip_special_params", "args", "idx", "arg", "undeclared"]


def translate(src_root):
    tree = ast.parse(open(os.path.join(src_root, "jinja2", "compiler.py")).read())
    cls = [n for n in tree.body if isinstance(n, ast.ClassDef) and n.name == "CodeGenerator"]
    if len(cls) != 1:
        raise Untranslatable("class CodeGenerator not found")
    funcs = {n.name: n for n in cls[0].body if isinstance(n, ast.FunctionDef)}
    f = funcs.get("macro_body")
    if f is None or "macro_def" not in funcs:
        raise Untranslatable("macro_body / macro_def missing")
    body = [s for s in f.body if not (isinstance(s, ast.Expr) and isinstance(s.value, ast.Constant))]
    src = [ast.unparse(s) for s in body]
    try:
        a = src.index("explicit_caller = None")
    except ValueError:
        raise Untranslatable("macro_body no longer starts parameter assembly with `explicit_caller = None`")
    if "macro_ref = MacroRef(node)" not in src[:a]:
        raise Untranslatable("macro_ref = MacroRef(node) missing before the parameter assembly")
    part = body[a:a + 8]
    if len(part) != 8 or not isinstance(part[3], ast.For) or not all(isinstance(s, ast.If) for s in part[5:8]):
        raise Untranslatable("statement structure of the parameter assembly changed")
    rest = "\n".join(src[a + 8:])
    if "({', '.join(args)}):" not in rest or "self.func('macro')" not in rest:
        raise Untranslatable("the emitted def no longer joins `args`")
    for s in body[a + 8:]:
        for n in ast.walk(s):
            if isinstance(n, ast.Call) and ast.unparse(n.func) in ("args.append", "args.insert", "args.extend", "args.pop"):
                raise Untranslatable("`args` modified after the parameter assembly")
    md = ast.unparse(funcs["macro_def"])
    if "for x in macro_ref.node.args" not in md or \
            "{macro_ref.accesses_kwargs!r}, {macro_ref.accesses_varargs!r}, {macro_ref.accesses_caller!r}" not in md:
        raise Untranslatable("macro_def no longer passes node.args and accesses_kwargs/varargs/caller in that order")
    locals_ = []
    for s in part:
        for n in ast.walk(s):
            if isinstance(n, ast.Name) and isinstance(n.ctx, ast.Store) and n.id not in locals_:
                locals_.append(n.id)
    if locals_ != EXPECTED_LOCALS:
        raise Untranslatable("locals of the parameter assembly changed: %r" % (locals_,))
    pre = [stmt(s) for s in part[:3]]
    loop_stmt, loop_body = stmt(part[3])
    if not loop_stmt.startswith('(SForEnum "idx" "arg"'):
        raise Untranslatable("loop variables renamed")
    post = [stmt(s) for s in part[4:8]]
    return {"pre": pre, "loop_stmt": loop_stmt, "loop_body": loop_body, "post": post}


def emit(src_root):
    t = translate(src_root)
    from macrobody_template import TEMPLATE
    return TEMPLATE % {"root": src_root, "loop_body": t["loop_body"], "pre": "; ".join(t["pre"]), "loop_stmt": t["loop_stmt"],
                       "und": t["post"][0], "caller": t["post"][1], "kwargs": t["post"][2], "varargs": t["post"][3]}


if __name__ == "__main__":
    import sys
    sys.path.insert(0, os.path.dirname(os.path.abspath(__file__)))
    print(emit(sys.argv[1] if len(sys.argv) > 1 else "/repo/src"))
