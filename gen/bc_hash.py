"""T1 for C27: regenerate what BytecodeCache.get_source_checksum and get_cache_key HASH, as facts.

The expression handed to sha1 (and to hash.update) is taken from the CURRENT source and translated into a small term
language (Lib-free: the predicates live in the generated file).  Obligation: what is hashed is an INJECTIVE encoding of
the source (resp. of name and filename): the string itself, encoded as UTF-8 with an error handler that loses nothing
("strict" cannot encode every str and was the defect fixed in 52496bf; "surrogatepass" is injective; "replace",
"ignore", "xmlcharrefreplace", "backslashreplace" ... conflate or are not injective) — no splitlines / join / strip /
lower / replace / normalize in between.  Fail-closed on anything else."""
import ast
import os


class Untranslatable(Exception):
    pass


def u(n):
    return ast.unparse(n)


def hashed(expr, var):
    """term for the argument of sha1(...) / .update(...)"""
    if isinstance(expr, ast.Call) and isinstance(expr.func, ast.Attribute) and expr.func.attr == "encode":
        args = [a.value for a in expr.args if isinstance(a, ast.Constant)]
        if len(args) != len(expr.args) or expr.keywords:
            kw = {k.arg: k.value.value for k in expr.keywords if isinstance(k.value, ast.Constant)}
            if len(kw) != len(expr.keywords):
                raise Untranslatable("encode arguments " + u(expr))
            args += [kw.get("encoding", "utf-8")] if "encoding" in kw and not args else []
            if "errors" in kw:
                args = (args or ["utf-8"]) + [kw["errors"]]
        codec = (args[0] if args else "utf-8").lower().replace("_", "-")
        errors = args[1] if len(args) > 1 else "strict"
        return f'(HEncode {text(expr.func.value, var)} "{codec}" "{errors}")'
    raise Untranslatable("hashed expression " + u(expr))


def text(expr, var):
    if isinstance(expr, ast.Name) and expr.id in var:
        return f"(HVar {var[expr.id]})"
    if isinstance(expr, ast.JoinedStr):
        parts = []
        for v in expr.values:
            if isinstance(v, ast.Constant):
                parts.append('(HLit "%s")' % v.value.replace('"', '""'))
            elif isinstance(v, ast.FormattedValue) and v.conversion == -1 and v.format_spec is None:
                parts.append(text(v.value, var))
            else:
                raise Untranslatable("f-string part " + u(v))
        out = parts[0]
        for p in parts[1:]:
            out = f"(HCat {out} {p})"
        return out
    if isinstance(expr, ast.Call) and isinstance(expr.func, ast.Attribute):
        inner = '(HLit "")' if isinstance(expr.func.value, ast.Constant) else text(expr.func.value, var)
        return '(HTransform "%s" %s)' % (expr.func.attr, inner)
    raise Untranslatable("text expression " + u(expr))


def strip_doc(body):
    return [s for s in body if not (isinstance(s, ast.Expr) and isinstance(s.value, ast.Constant))]


def translate(src_root):
    tree = ast.parse(open(os.path.join(src_root, "jinja2", "bccache.py")).read())
    cls = [n for n in tree.body if isinstance(n, ast.ClassDef) and n.name == "BytecodeCache"]
    if len(cls) != 1:
        raise Untranslatable("class BytecodeCache not found")
    fns = {n.name: n for n in cls[0].body if isinstance(n, ast.FunctionDef)}
    # get_source_checksum: [assignments to the source variable]* ; return sha1(<hashed>).hexdigest()
    f = fns.get("get_source_checksum")
    if f is None or len(f.args.args) != 2:
        raise Untranslatable("get_source_checksum")
    svar = f.args.args[1].arg
    cur = f"(HVar 0)"
    env = {svar: 0}
    body = strip_doc(f.body)
    pre, ret = body[:-1], body[-1]
    subst = {}
    for st in pre:
        # a re-assignment of the source variable is a transformation of what gets hashed
        if isinstance(st, ast.Assign) and len(st.targets) == 1 and isinstance(st.targets[0], ast.Name) and st.targets[0].id == svar:
            subst[svar] = f'(HTransform "{u(st.value)[:40].replace(chr(34), chr(39))}" {cur})'
            cur = subst[svar]
        else:
            raise Untranslatable("get_source_checksum statement " + u(st)[:60])
    if not (isinstance(ret, ast.Return) and u(ret.value).startswith("sha1(") and u(ret.value).endswith(").hexdigest()")):
        raise Untranslatable("get_source_checksum return " + u(ret)[:80])
    arg = ret.value.func.value.args[0]
    ck = hashed(arg, env)
    if subst:
        ck = ck.replace("(HVar 0)", subst[svar])
    # get_cache_key: hash = sha1(<hashed name>) ; if filename is not None: hash.update(<hashed>) ; return hash.hexdigest()
    g = fns.get("get_cache_key")
    if g is None or len(g.args.args) != 3:
        raise Untranslatable("get_cache_key")
    nvar, fvar = g.args.args[1].arg, g.args.args[2].arg
    gb = strip_doc(g.body)
    if len(gb) != 3:
        raise Untranslatable("get_cache_key shape")
    a, i, r = gb
    if not (isinstance(a, ast.Assign) and u(a.value).startswith("sha1(") and isinstance(a.targets[0], ast.Name)):
        raise Untranslatable("get_cache_key first statement")
    hv = a.targets[0].id
    k1 = hashed(a.value.args[0], {nvar: 1})
    if not (isinstance(i, ast.If) and u(i.test) == f"{fvar} is not None" and not i.orelse and len(i.body) == 1
            and isinstance(i.body[0], ast.Expr) and u(i.body[0].value.func) == f"{hv}.update"):
        raise Untranslatable("get_cache_key filename branch")
    k2 = hashed(i.body[0].value.args[0], {fvar: 2})
    if u(r) != f"return {hv}.hexdigest()":
        raise Untranslatable("get_cache_key return")
    return ck, k1, k2


COQ = r'''(* regenerated from %(root)s/jinja2/bccache.py by gen/bc_hash.py — do not edit *)
From Coq Require Import List Bool String.
Import ListNotations.
Open Scope string_scope.

Inductive htext :=
| HVar (i : nat)                         (* 0 = source, 1 = name, 2 = filename *)
| HLit (s : string)
| HCat (a b : htext)
| HTransform (what : string) (t : htext). (* any method call / re-assignment: splitlines, join, strip, lower, replace, ... *)
Inductive hbytes := HEncode (t : htext) (codec errors : string).

(* what is hashed keeps every distinction between two strings: the variable itself (possibly after a constant prefix),
   UTF-8 with an error handler that is total and injective *)
Fixpoint faithful_text (t : htext) : bool :=
  match t with
  | HVar _ => true
  | HLit _ => false
  | HCat (HLit _) b => faithful_text b
  | HCat _ _ => false
  | HTransform _ _ => false
  end.
Definition faithful (b : hbytes) : bool :=
  match b with HEncode t codec errors => faithful_text t && (codec =? "utf-8") && (errors =? "surrogatepass") end.

Definition gen_checksum : hbytes := %(ck)s.
Definition gen_key_name : hbytes := %(k1)s.
Definition gen_key_filename : hbytes := %(k2)s.

Lemma checksum_hashes_the_source_faithfully : faithful gen_checksum = true.
Proof. vm_compute. reflexivity. Qed.
Lemma key_hashes_name_and_filename_faithfully : faithful gen_key_name && faithful gen_key_filename = true.
Proof. vm_compute. reflexivity. Qed.
'''


def emit(src_root):
    ck, k1, k2 = translate(src_root)
    return COQ % {"root": src_root, "ck": ck, "k1": k1, "k2": k2}


if __name__ == "__main__":
    import sys
    print(emit(sys.argv[1] if len(sys.argv) > 1 else "/repo/src"))
