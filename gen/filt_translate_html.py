"""T5 translator for the HTML-producing cores of C24: utils.htmlsafe_json_dumps,
filters.do_forceescape, filters.do_xmlattr, filters.do_indent.  Turns the CURRENT source of each
function into a term of the deep embedding Lib/PyHtml.v (fail-closed) and emits
Gen_filt_<name>.v proving  interpreted source term = model function  for all inputs."""
import ast
import os


class Untranslatable(Exception):
    pass


def q(s):
    return '"%s"' % s


def cps(s):
    return "[" + "; ".join(f"{ord(c)}%N" for c in s) + "]"


def is_name(n, name):
    return isinstance(n, ast.Name) and n.id == name


def is_markup_ctor(f):
    return is_name(f, "Markup") or (isinstance(f, ast.Attribute) and f.attr == "Markup" and is_name(f.value, "markupsafe"))


def is_escape(f):
    return is_name(f, "escape") or (isinstance(f, ast.Attribute) and f.attr == "escape" and is_name(f.value, "markupsafe"))


def expr(n):
    if isinstance(n, ast.Name):
        return f"(EVar {q(n.id)})"
    if isinstance(n, ast.Constant):
        if n.value is None:
            return "ENone"
        if isinstance(n.value, str):
            return f"(EStr {cps(n.value)})"
    if isinstance(n, ast.Attribute) and n.attr == "autoescape" and is_name(n.value, "eval_ctx"):
        return f"(EVar {q('eval_ctx.autoescape')})"
    if isinstance(n, ast.JoinedStr):
        parts = []
        for v in n.values:
            if isinstance(v, ast.Constant) and isinstance(v.value, str):
                parts.append(f"(EStr {cps(v.value)})")
            elif isinstance(v, ast.FormattedValue) and v.conversion == -1 and v.format_spec is None:
                parts.append(expr(v.value))
            else:
                raise Untranslatable("f-string part " + ast.unparse(n))
        return "(EFmt [" + "; ".join(parts) + "])"
    if isinstance(n, ast.BinOp) and isinstance(n.op, ast.Add):
        return f"(EConcat {expr(n.left)} {expr(n.right)})"
    if isinstance(n, ast.BinOp) and isinstance(n.op, ast.Mult):
        return f"(ERepeat {expr(n.left)} {expr(n.right)})"
    if isinstance(n, ast.IfExp):
        return f"(EIfExp {expr(n.test)} {expr(n.body)} {expr(n.orelse)})"
    if isinstance(n, ast.BoolOp):
        op = "EOr" if isinstance(n.op, ast.Or) else "EAnd"
        vs = [expr(v) for v in n.values]
        out = vs[-1]
        for v in reversed(vs[:-1]):
            out = f"({op} {v} {out})"
        return out
    if isinstance(n, ast.Compare) and len(n.ops) == 1:
        op, a, b = n.ops[0], n.left, n.comparators[0]
        if isinstance(b, ast.Constant) and b.value is None:
            # _attr_key_re.search(key) is not None
            if (isinstance(op, ast.IsNot) and isinstance(a, ast.Call) and isinstance(a.func, ast.Attribute)
                    and a.func.attr == "search" and is_name(a.func.value, "_attr_key_re") and len(a.args) == 1):
                return f"(EKeyBad {expr(a.args[0])})"
            if isinstance(op, ast.Is):
                return f"(EIsNone {expr(a)})"
    if isinstance(n, ast.Subscript) and isinstance(n.slice, ast.Slice) and n.slice.upper is None and n.slice.step is None \
            and isinstance(n.slice.lower, ast.Constant) and isinstance(n.slice.lower.value, int) and n.slice.lower.value >= 0:
        return f"(ESliceFrom {expr(n.value)} {n.slice.lower.value})"
    if isinstance(n, ast.Call):
        f, args, kws = n.func, n.args, n.keywords
        if is_name(f, "trim_url") and len(args) == 1 and is_name(args[0], "middle") and not kws:
            return f"(EVar {q('trim_url(middle)')})"       # the (possibly shortened) link text, an oracle
        if (isinstance(f, ast.Attribute) and f.attr == "split" and is_name(f.value, "re") and len(args) == 2 and not kws
                and isinstance(args[0], ast.Constant) and args[0].value == "(\\s+)"):
            return f"(ESplitWs {expr(args[1])})"
        if isinstance(f, ast.Attribute) and f.attr == "cast" and is_name(f.value, "t") and len(args) == 2 and not kws:
            return expr(args[1])                       # typing.cast is the identity
        if is_name(f, "dumps") and len(args) == 1 and is_name(args[0], "obj") and len(kws) == 1 and kws[0].arg is None:
            return f"(EVar {q('dumped')})"             # dumps(obj, **kwargs): the JSON text, an oracle
        if not kws:
            if is_markup_ctor(f) and len(args) == 1:
                return f"(EMarkup {expr(args[0])})"
            if is_escape(f) and len(args) == 1:
                return f"(EEscape {expr(args[0])})"
            if is_name(f, "str") and len(args) == 1:
                return f"(EStrOf {expr(args[0])})"
            if is_name(f, "hasattr") and len(args) == 2 and isinstance(args[1], ast.Constant) and args[1].value == "__html__":
                return f"(EHasHtml {expr(args[0])})"
            if is_name(f, "isinstance") and len(args) == 2 and isinstance(args[1], ast.Name):
                k = {"str": "EIsStr", "Markup": "EIsMarkup", "Undefined": "EIsUndef"}.get(args[1].id)
                if k:
                    return f"({k} {expr(args[0])})"
            if isinstance(f, ast.Attribute):
                if f.attr == "__html__" and not args:
                    return f"(EHtml {expr(f.value)})"
                if f.attr == "replace" and len(args) == 2:
                    return f"(EReplace {expr(f.value)} {expr(args[0])} {expr(args[1])})"
                if f.attr == "splitlines" and not args:
                    return f"(ESplitlines {expr(f.value)})"
                if f.attr == "items" and not args:
                    return f"(EItems {expr(f.value)})"
                if f.attr == "join" and len(args) == 1:
                    g = args[0]
                    if isinstance(g, ast.GeneratorExp):
                        if (len(g.generators) != 1 or g.generators[0].ifs or g.generators[0].is_async
                                or not isinstance(g.generators[0].target, ast.Name)):
                            raise Untranslatable("generator expression " + ast.unparse(g))
                        c = g.generators[0]
                        return f"(EJoinMap {expr(f.value)} {q(c.target.id)} {expr(c.iter)} {expr(g.elt)})"
                    return f"(EJoin {expr(f.value)} {expr(g)})"
    raise Untranslatable("expression " + ast.unparse(n)[:90])


LOOPS = []


def loop_name(term):
    name = f"loop_body{len(LOOPS) + 1}"
    LOOPS.append((name, term))
    return name


def block(body):
    out = "BNil"
    for st in reversed([stmt(s) for s in body]):
        if st is not None:
            out = f"(BCons {st} {out})"
    return out


def stmt(st):
    if isinstance(st, ast.Expr) and isinstance(st.value, ast.Constant) and isinstance(st.value.value, str):
        return None
    if isinstance(st, ast.Assign) and len(st.targets) == 1 and isinstance(st.targets[0], ast.Name):
        x, v = st.targets[0].id, st.value
        if isinstance(v, ast.List) and not v.elts:
            return f"(SNewList {q(x)})"
        if (isinstance(v, ast.Call) and isinstance(v.func, ast.Attribute) and v.func.attr == "pop"
                and isinstance(v.func.value, ast.Name) and [ast.unparse(a) for a in v.args] == ["0"] and not v.keywords):
            return f"(SPop0 {q(x)} {q(v.func.value.id)})"
        return f"(SAssign {q(x)} {expr(v)})"
    if isinstance(st, ast.AugAssign) and isinstance(st.target, ast.Name) and isinstance(st.op, ast.Add):
        return f"(SAugAdd {q(st.target.id)} {expr(st.value)})"
    if isinstance(st, ast.If):
        return f"(SIf {expr(st.test)} {block(st.body)} {block(st.orelse)})"
    if (isinstance(st, ast.For) and not st.orelse and isinstance(st.target, ast.Tuple) and len(st.target.elts) == 2
            and all(isinstance(e, ast.Name) for e in st.target.elts)):
        k, v = (e.id for e in st.target.elts)
        return f"(SForItems {q(k)} {q(v)} {expr(st.iter)} {loop_name(block(st.body))})"
    if isinstance(st, ast.Continue):
        return "SContinue"
    if isinstance(st, ast.Raise) and isinstance(st.exc, ast.Call) and is_name(st.exc.func, "ValueError") and st.cause is None:
        for a in st.exc.args:
            if not isinstance(a, (ast.JoinedStr, ast.Constant)):
                raise Untranslatable("ValueError argument with side effects")
        return "SRaiseValueError"
    if isinstance(st, ast.Return) and st.value is not None:
        return f"(SReturn {expr(st.value)})"
    if (isinstance(st, ast.Expr) and isinstance(st.value, ast.Call) and not st.value.keywords and len(st.value.args) == 1
            and isinstance(st.value.func, ast.Attribute) and st.value.func.attr == "append"
            and isinstance(st.value.func.value, ast.Name)):
        return f"(SAppendLine {q(st.value.func.value.id)} {expr(st.value.args[0])})"
    raise Untranslatable("statement " + ast.unparse(st)[:90])


def get_function(src_root, module, name):
    tree = ast.parse(open(os.path.join(src_root, "jinja2", module)).read())
    fns = [n for n in tree.body if isinstance(n, ast.FunctionDef) and n.name == name]
    if len(fns) != 1:
        raise Untranslatable(f"function {name} not found exactly once in {module}")
    return tree, fns[0]


def expect(what, got, want):
    if got != want:
        raise Untranslatable(f"{what}: {got!r}, the equation is stated for {want!r}")


def signature(fn):
    a = fn.args
    return ([x.arg for x in a.args], [ast.unparse(d) for d in a.defaults], a.vararg.arg if a.vararg else None,
            a.kwarg.arg if a.kwarg else None, [ast.unparse(d) for d in fn.decorator_list])


def module_constant(tree, name):
    for n in tree.body:
        if isinstance(n, ast.Assign) and len(n.targets) == 1 and is_name(n.targets[0], name):
            return ast.unparse(n.value)
    raise Untranslatable(f"module constant {name} not found")


# ---------------------------------------------------------------- generated files
HEADER = "(* regenerated from @@root@@/jinja2 by gen/filt_translate_html.py — do not edit *)\n"


def fill(template, **kw):
    out = template
    for k, v in kw.items():
        out = out.replace("@@" + k + "@@", v)
    if "@@" in out:
        raise Untranslatable("unfilled placeholder in template")
    return out


TOJSON_V = r"""From Coq Require Import List ZArith NArith Bool String Lia.
Import ListNotations.
From JV Require Import Model.FiltStr Model.FiltHtml Lib.PyHtml.
Open Scope string_scope. Open Scope Z_scope.

Definition json_body : block := @@body@@.
Theorem json_dumps_source_eq_model : forall d,
  run_fun json_body [("dumped", VT (Plain d))] = Good (VT (Mk (replace4 d))).
Proof. intros d. reflexivity. Qed.

Print Assumptions json_dumps_source_eq_model.
"""

FORCEESCAPE_V = r"""From Coq Require Import List ZArith NArith Bool String Lia.
Import ListNotations.
From JV Require Import Model.FiltStr Model.FiltHtml Lib.PyHtml.
Open Scope string_scope. Open Scope Z_scope.

Definition forceescape_body : block := @@body@@.
Theorem forceescape_source_eq_model : forall v,
  run_fun forceescape_body [("value", VT v)] = Good (VT (do_forceescape v)).
Proof. intros [s|s]; reflexivity. Qed.

Print Assumptions forceescape_source_eq_model.
"""

XMLATTR_V = r"""From Coq Require Import List ZArith NArith Bool String Lia.
Import ListNotations.
From JV Require Import Model.FiltStr Model.FiltHtml Lib.PyHtml.
Open Scope string_scope. Open Scope Z_scope.

Definition loop_body1 : block := @@loop1@@.
Definition xmlattr_body : block := @@body@@.
Definition conv (x : xval) : option tstr := match x with XVal t => Some t | _ => None end.
Definition conv_items (d : list (str * xval)) : list (str * option tstr) := map (fun kv => (fst kv, conv (snd kv))) d.
Definition mk_env (ae : bool) (d0 : list (str * xval)) (sp : bool) (vi vk vv vr : value) : env :=
  [("eval_ctx.autoescape", VB ae); ("d", VItems d0); ("autospace", VB sp); ("items", vi); ("key", vk); ("value", vv); ("rv", vr)].
Ltac run := cbn [execs exec eval get set String.eqb Ascii.eqb Bool.eqb truthy mk_env of_xval payload t_escape escape_t app].

Lemma loop ae d0 sp : forall d l vk vv vr,
  exists vk' vv',
  loop_items (fun key val en' => execs loop_body1 (set "value" (of_xval val) (set "key" (VT (Plain key)) en'))) d
             (mk_env ae d0 sp (VLines (map Plain l)) vk vv vr)
  = match xmlattr_items (conv_items d) with
    | Some its => Fall (mk_env ae d0 sp (VLines (map Plain (l ++ its))) vk' vv' vr)
    | None => Raise HValueError
    end.
Proof.
  induction d as [|[k x] r IH]; intros l vk vv vr.
  - exists vk, vv. cbn [loop_items conv_items map xmlattr_items]. now rewrite app_nil_r.
  - cbn [loop_items conv_items map xmlattr_items fst snd]. fold (conv_items r).
    unfold loop_body1 at 1. destruct x as [| |t]; cbn [conv]; run.
    + apply IH.
    + apply IH.
    + destruct (existsb bad_key_char k); run; [exists vk, vv; reflexivity|].
      destruct (IH (l ++ [attr_text k t])%list (VT (Plain k)) (VT t) vr) as (vk' & vv' & H).
      exists vk', vv'.
      replace (escape k ++ 61%N :: 34%N :: escape_t t ++ [34%N])%list with (attr_text k t) by reflexivity.
      replace (map Plain l ++ [Plain (attr_text k t)])%list with (map Plain (l ++ [attr_text k t])%list)
        by (now rewrite map_app).
      unfold mk_env in H.
      rewrite H. destruct (xmlattr_items (conv_items r)); [|reflexivity]. now rewrite <- app_assoc.
Qed.

Lemma map_payload_plain l : map payload (map Plain l) = l.
Proof. rewrite map_map. cbn [payload]. apply map_id. Qed.

Theorem xmlattr_source_eq_model : forall ae d sp,
  run_fun xmlattr_body (mk_env ae d sp VNone VNone VNone VNone)
  = match do_xmlattr (conv_items d) sp with
    | Some s => Good (VT (if ae then Mk s else Plain s))
    | None => Bad HValueError
    end.
Proof.
  intros ae d sp. unfold run_fun, xmlattr_body, do_xmlattr.
  cbn [execs exec eval get set String.eqb Ascii.eqb Bool.eqb mk_env].
  destruct (loop ae d sp d [] VNone VNone VNone) as (vk & vv & H). cbn [map] in H. fold loop_body1. unfold mk_env in H.
  rewrite H. clear H. destruct (xmlattr_items (conv_items d)) as [its|]; [|reflexivity].
  cbn [app]. run. cbn [t_join]. rewrite map_payload_plain.
  destruct sp; run; [destruct (nonempty (join [32%N] its)); run|]; destruct ae; run; reflexivity.
Qed.
Print Assumptions xmlattr_source_eq_model.
"""

INDENT_V = r"""From Coq Require Import List ZArith NArith Bool String Lia.
Import ListNotations.
From JV Require Import Model.FiltStr Model.FiltHtml Proofs.FiltStrProofs Lib.PyHtml.
Open Scope string_scope. Open Scope Z_scope.

Definition indent_body : block := @@body@@.
Definition indent_rest : block :=
  match indent_body with BCons _ (BCons _ (BCons _ r)) => r | _ => BNil end.
Definition indent_head (k : nat) : stmt :=
  match k, indent_body with
  | O, BCons a _ => a
  | S O, BCons _ (BCons a _) => a
  | _, BCons _ (BCons _ (BCons a _)) => a
  | _, _ => SContinue
  end.
Lemma indent_body_split :
  indent_body = BCons (indent_head 0) (BCons (indent_head 1) (BCons (indent_head 2) indent_rest)).
Proof. reflexivity. Qed.

Lemma execs_cons s r en : execs (BCons s r) en = match exec s en with Fall en' => execs r en' | other => other end.
Proof. reflexivity. Qed.

Definition tag (m : bool) (x : str) : tstr := if m then Mk x else Plain x.
Lemma payload_tag m x : payload (tag m x) = x. Proof. now destruct m. Qed.
Lemma concat_tag m a b : t_concat (tag m a) (tag m b) = tag m (a ++ b)%list. Proof. now destruct m. Qed.
Lemma map_id' {X} (f : X -> X) l : (forall x, f x = x) -> map f l = l.
Proof. intros H. induction l as [|x r IH]; [reflexivity|]. cbn [map]. now rewrite H, IH. Qed.
Lemma join_tag m sep ls : t_join (tag m sep) (map (tag m) ls) = tag m (join sep ls).
Proof. destruct m; cbn [tag t_join]; rewrite map_map; cbn [escape_t payload]; now rewrite map_id' by reflexivity. Qed.
Lemma join_tag_cons m sep x ls : t_join (tag m sep) (tag m x :: map (tag m) ls) = tag m (join sep (x :: ls)).
Proof. exact (join_tag m sep (x :: ls)). Qed.
Lemma splitlines_tag m s : t_splitlines (tag m s) = map (tag m) (splitlines s). Proof. now destruct m. Qed.

(* do_indent with the indentation made explicit *)
Definition indent_core (s ind : str) (first blank : bool) : str :=
  let nl := [10%N] in
  let s' := (s ++ nl)%list in
  let rv :=
    if blank then join (nl ++ ind)%list (splitlines s')
    else match splitlines s' with
         | [] => []
         | l0 :: lines =>
             match lines with
             | [] => l0
             | _ => (l0 ++ nl ++ join nl (map (fun line => if nonempty line then (ind ++ line)%list else line) lines))%list
             end
         end in
  if first then (ind ++ rv)%list else rv.
Lemma do_indent_core s w first blank : do_indent s w first blank = indent_core s (indention_of w) first blank.
Proof. reflexivity. Qed.

Definition mk_env (vs vw : value) (f b : bool) (vi vn vr vl : value) : env :=
  [("s", vs); ("width", vw); ("first", VB f); ("blank", VB b); ("indention", vi); ("newline", vn); ("rv", vr); ("lines", vl)].
Ltac run := cbn [execs exec eval get set String.eqb Ascii.eqb Bool.eqb truthy mk_env payload t_escape escape_t].

Lemma map_out_tag m (f : tstr -> outcome value) (h : str -> str) ls :
  (forall x, f (tag m x) = Good (VT (tag m (h x)))) -> map_out f (map (tag m) ls) = Good (map (tag m) (map h ls)).
Proof. intros H. induction ls as [|x r IH]; [reflexivity|]. cbn [map map_out]. now rewrite H, IH. Qed.

Lemma rest_ok m s0 ind f b vw vr vl :
  execs indent_rest (mk_env (VT (tag m s0)) vw f b (VT (tag m ind)) (VT (tag m [10%N])) vr vl)
  = Ret (VT (tag m (indent_core s0 ind f b))).
Proof.
  unfold indent_rest, indent_body, indent_core. run. rewrite concat_tag.
  destruct b; run.
  - rewrite concat_tag, splitlines_tag, join_tag.
    destruct f; run; [rewrite concat_tag|]; reflexivity.
  - rewrite splitlines_tag. pose proof (splitlines_go_nonempty s0 []) as Hne. fold (splitlines (s0 ++ [10%N])%list) in Hne.
    destruct (splitlines (s0 ++ [10%N])%list) as [|l0 rest]; [congruence|]. cbn [map]. run.
    destruct rest as [|l1 rest'].
    + cbn [map]. run. destruct f; run; [rewrite concat_tag|]; reflexivity.
    + cbn [map]. run.
      rewrite (map_out_tag m _ (fun line => if nonempty line then (ind ++ line)%list else line) (l1 :: rest')).
      * cbn [map]. rewrite join_tag_cons, !concat_tag. destruct f; run; [rewrite concat_tag|]; reflexivity.
      * intros x. run. rewrite payload_tag. destruct (nonempty x); run; [rewrite concat_tag|]; reflexivity.
Qed.

Lemma concat_repeat_single (c : N) k : List.concat (repeat [c] k) = repeat c k.
Proof. induction k as [|k IH]; [reflexivity|]. cbn [repeat List.concat app]. now rewrite IH. Qed.
Lemma escape_spaces k : escape (repeat 32%N k) = repeat 32%N k.
Proof. induction k as [|k IH]; [reflexivity|]. cbn [repeat escape flat_map]. fold (escape (repeat 32%N k)). now rewrite IH. Qed.

Ltac heads := unfold run_fun; rewrite indent_body_split; cbn [indent_head indent_body]; run.

Theorem indent_plain_str_source_eq_model : forall s w f b,
  run_fun indent_body (mk_env (VT (Plain s)) (VT (Plain w)) f b VNone VNone VNone VNone)
  = Good (VT (Plain (do_indent s (WStr w) f b))).
Proof.
  intros s w f b. heads.
  change (VT (Plain s)) with (VT (tag false s)). change (VT (Plain w)) with (VT (tag false w)) at 2.
  change (VT (Plain [10%N])) with (VT (tag false [10%N])).
  pose proof (rest_ok false s w f b (VT (Plain w)) VNone VNone) as H. unfold mk_env in H. rewrite H. reflexivity.
Qed.

Theorem indent_plain_int_source_eq_model : forall s n f b,
  run_fun indent_body (mk_env (VT (Plain s)) (VZ n) f b VNone VNone VNone VNone)
  = Good (VT (Plain (do_indent s (WInt n) f b))).
Proof.
  intros s n f b. heads. unfold t_repeat. cbn [payload]. rewrite concat_repeat_single.
  change (VT (Plain s)) with (VT (tag false s)). change (VT (Plain (repeat 32%N (Z.to_nat n)))) with (VT (tag false (repeat 32%N (Z.to_nat n)))).
  change (VT (Plain [10%N])) with (VT (tag false [10%N])).
  pose proof (rest_ok false s (repeat 32%N (Z.to_nat n)) f b (VZ n) VNone VNone) as H. unfold mk_env in H. rewrite H. reflexivity.
Qed.

Theorem indent_markup_str_source_eq_model : forall s w f b,
  run_fun indent_body (mk_env (VT (Mk s)) (VT w) f b VNone VNone VNone VNone)
  = Good (VT (indent_markup s w f b)).
Proof.
  intros s w f b. heads.
  change (VT (Mk s)) with (VT (tag true s)). change (VT (t_escape w)) with (VT (tag true (escape_t w))).
  change (VT (Mk [10%N])) with (VT (tag true [10%N])).
  pose proof (rest_ok true s (escape_t w) f b (VT w) VNone VNone) as H. unfold mk_env in H. rewrite H. reflexivity.
Qed.

Theorem indent_markup_int_source_eq_model : forall s n f b,
  run_fun indent_body (mk_env (VT (Mk s)) (VZ n) f b VNone VNone VNone VNone)
  = Good (VT (Mk (do_indent s (WInt n) f b))).
Proof.
  intros s n f b. heads. unfold t_escape, t_repeat. cbn [payload escape_t]. rewrite concat_repeat_single, escape_spaces.
  change (VT (Mk s)) with (VT (tag true s)). change (VT (Mk (repeat 32%N (Z.to_nat n)))) with (VT (tag true (repeat 32%N (Z.to_nat n)))).
  change (VT (Mk [10%N])) with (VT (tag true [10%N])).
  pose proof (rest_ok true s (repeat 32%N (Z.to_nat n)) f b (VZ n) VNone VNone) as H. unfold mk_env in H. rewrite H. reflexivity.
Qed.
Print Assumptions indent_plain_str_source_eq_model.
Print Assumptions indent_markup_str_source_eq_model.
"""


def emit_tojson(src_root):
    _, fn = get_function(src_root, "utils.py", "htmlsafe_json_dumps")
    expect("htmlsafe_json_dumps signature", signature(fn), (["obj", "dumps"], ["None"], None, "kwargs", []))
    body = [s for s in fn.body if not (isinstance(s, ast.Expr) and isinstance(s.value, ast.Constant))]
    expect("htmlsafe_json_dumps statements before the return", [ast.unparse(s) for s in body[:-1]],
           ["if dumps is None:\n    dumps = json.dumps"])
    if not isinstance(body[-1], ast.Return):
        raise Untranslatable("htmlsafe_json_dumps does not end with a return")
    return fill(HEADER + TOJSON_V, root=src_root, body=f"(BCons {stmt(body[-1])} BNil)")


def emit_forceescape(src_root):
    _, fn = get_function(src_root, "filters.py", "do_forceescape")
    expect("do_forceescape signature", signature(fn), (["value"], [], None, None, []))
    return fill(HEADER + FORCEESCAPE_V, root=src_root, body=block(fn.body))


def emit_xmlattr(src_root):
    tree, fn = get_function(src_root, "filters.py", "do_xmlattr")
    expect("do_xmlattr signature", signature(fn), (["eval_ctx", "d", "autospace"], ["True"], None, None, ["pass_eval_context"]))
    # EKeyBad is the model's bad_key_char: the pattern must be the one it was written for
    expect("_attr_key_re", module_constant(tree, "_attr_key_re"), "re.compile('[\\\\s/>=]', flags=re.ASCII)")
    del LOOPS[:]
    body = block(fn.body)
    if len(LOOPS) != 1:
        raise Untranslatable("do_xmlattr: expected exactly one for loop")
    return fill(HEADER + XMLATTR_V, root=src_root, loop1=LOOPS[0][1], body=body)


def emit_indent(src_root):
    _, fn = get_function(src_root, "filters.py", "do_indent")
    expect("do_indent signature", signature(fn), (["s", "width", "first", "blank"], ["4", "False", "False"], None, None, []))
    del LOOPS[:]
    body = block(fn.body)
    if LOOPS:
        raise Untranslatable("do_indent: unexpected loop")
    return fill(HEADER + INDENT_V, root=src_root, body=body)


URLIZE_V = r"""From Coq Require Import List ZArith NArith Bool String Lia.
Import ListNotations.
From JV Require Import Model.FiltStr Model.FiltHtml Lib.PyHtml.
Open Scope string_scope. Open Scope Z_scope.

(* the escape + split statement, the rel / target attribute expressions and the five anchor
   f-strings of utils.urlize, as they are in the current source *)
Definition words_expr : expr := @@words@@.
Definition rel_expr : expr := @@rel@@.
Definition target_expr : expr := @@target@@.
Definition anchor1 : expr := @@a1@@.
Definition anchor2 : expr := @@a2@@.
Definition anchor3 : expr := @@a3@@.
Definition anchor4 : expr := @@a4@@.
Definition anchor5 : expr := @@a5@@.

Definition opt_v (o : option tstr) : value := match o with Some t => VT t | None => VNone end.

(* words = re.split(r"(\s+)", str(markupsafe.escape(text))) is the model's words_of (escape_t text) *)
Theorem urlize_words_source_eq_model : forall text,
  eval words_expr [("text", VT text)] = Good (VLines (map Plain (words_of (escape_t text)))).
Proof. intros [s|s]; reflexivity. Qed.

(* the rel / target attributes are the model's attrs_of: the values go through escape *)
Theorem urlize_attrs_source_eq_model : forall (rel target : option tstr),
  (forall r, rel = Some r -> nonempty (payload r) = true) ->
  (forall t, target = Some t -> nonempty (payload t) = true) ->
  exists ra ta, eval rel_expr [("rel", opt_v rel)] = Good (VT (Plain ra)) /\
                eval target_expr [("target", opt_v target)] = Good (VT (Plain ta)) /\
                (ra ++ ta)%list = attrs_of rel target.
Proof.
  intros rel target Hr Ht. unfold attrs_of.
  destruct rel as [r|], target as [t|]; cbn [opt_v].
  - exists (s_rel ++ escape_t r ++ [34%N])%list, (s_target ++ escape_t t ++ [34%N])%list.
    unfold rel_expr, target_expr. cbn [eval get String.eqb Ascii.eqb Bool.eqb truthy payload t_escape].
    rewrite (Hr r eq_refl), (Ht t eq_refl). cbn [app]. rewrite ?app_nil_r. repeat split; reflexivity.
  - exists (s_rel ++ escape_t r ++ [34%N])%list, []%list.
    unfold rel_expr, target_expr. cbn [eval get String.eqb Ascii.eqb Bool.eqb truthy payload t_escape].
    rewrite (Hr r eq_refl). cbn [app]. rewrite ?app_nil_r. repeat split; reflexivity.
  - exists []%list, (s_target ++ escape_t t ++ [34%N])%list.
    unfold rel_expr, target_expr. cbn [eval get String.eqb Ascii.eqb Bool.eqb truthy payload t_escape].
    rewrite (Ht t eq_refl). cbn [app]. rewrite ?app_nil_r. repeat split; reflexivity.
  - exists []%list, []%list. repeat split; reflexivity.
Qed.

(* the five anchor forms are the rendered pieces of the model's link function, in its branch order *)
Definition aenv (m ra ta t : str) : env :=
  [("middle", VT (Plain m)); ("rel_attr", VT (Plain ra)); ("target_attr", VT (Plain ta)); ("trim_url(middle)", VT (Plain t))].
Ltac anchor := intros; cbn [eval get String.eqb Ascii.eqb Bool.eqb payload aenv render_piece app s_https s_mailto];
  rewrite ?app_nil_r, <- ?app_assoc; cbn [app]; rewrite <- ?app_assoc; reflexivity.
Theorem urlize_anchor_forms_source_eq_model : forall m ra ta t,
  eval anchor1 (aenv m ra ta t) = Good (VT (Plain (render_piece (Anchor m (ra ++ ta)%list t)))) /\
  eval anchor2 (aenv m ra ta t) = Good (VT (Plain (render_piece (Anchor (s_https ++ m)%list (ra ++ ta)%list t)))) /\
  eval anchor3 (aenv m ra ta t) = Good (VT (Plain (render_piece (Anchor m [] (skipn 7 m))))) /\
  eval anchor4 (aenv m ra ta t) = Good (VT (Plain (render_piece (Anchor (s_mailto ++ m)%list [] m)))) /\
  eval anchor5 (aenv m ra ta t) = Good (VT (Plain (render_piece (Anchor m (ra ++ ta)%list m)))).
Proof. intros m ra ta t. repeat split; unfold anchor1, anchor2, anchor3, anchor4, anchor5; anchor. Qed.
Print Assumptions urlize_anchor_forms_source_eq_model.
"""


def emit_urlize(src_root):
    """partial tie: the escape + split statement, the rel / target attribute expressions and the
    anchor f-strings (in source order) of utils.urlize; the trimming loops and the branch
    conditions are not translated"""
    _, fn = get_function(src_root, "utils.py", "urlize")
    expect("urlize parameters", signature(fn)[0], ["text", "trim_url_limit", "rel", "target", "extra_schemes"])
    assigns = {}
    anchors = []
    for n in ast.walk(fn):
        if isinstance(n, ast.Assign) and len(n.targets) == 1 and isinstance(n.targets[0], ast.Name):
            x = n.targets[0].id
            if x in ("words", "rel_attr", "target_attr"):
                if x in assigns:
                    raise Untranslatable(f"urlize assigns {x} more than once")
                assigns[x] = n.value
    class V(ast.NodeVisitor):
        def visit_Assign(self, n):
            if (len(n.targets) == 1 and is_name(n.targets[0], "middle") and isinstance(n.value, ast.JoinedStr)):
                anchors.append(n.value)
            self.generic_visit(n)
    V().visit(fn)
    for x in ("words", "rel_attr", "target_attr"):
        if x not in assigns:
            raise Untranslatable(f"urlize no longer assigns {x}")
    if len(anchors) != 5:
        raise Untranslatable(f"urlize builds {len(anchors)} anchors, the equations are stated for 5")
    # any other write of markup into middle / words would escape the five forms
    for n in ast.walk(fn):
        if isinstance(n, ast.Assign) and any(is_name(t, "middle") for t in n.targets) and not isinstance(n.value, ast.JoinedStr):
            if "<" in ast.unparse(n.value):
                raise Untranslatable("urlize: middle assigned markup outside the anchor f-strings")
    kw = {"words": expr(assigns["words"]), "rel": expr(assigns["rel_attr"]), "target": expr(assigns["target_attr"])}
    for i, a in enumerate(anchors):
        kw[f"a{i + 1}"] = expr(a)
    return fill(HEADER + URLIZE_V, root=src_root, **kw)


EMIT = {"urlize": emit_urlize, "tojson": emit_tojson, "forceescape": emit_forceescape, "xmlattr": emit_xmlattr, "indent": emit_indent}

if __name__ == "__main__":
    import sys
    print(EMIT[sys.argv[2] if len(sys.argv) > 2 else "tojson"](sys.argv[1] if len(sys.argv) > 1 else "/repo/src"))
