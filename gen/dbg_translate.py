"""C35 translator (T5 style): turns the CURRENT source of CodeGenerator.write / newline / writeline,
the bookkeeping fields' initial values in CodeGenerator.__init__ and Template.get_corresponding_lineno
into terms of the deep embedding Lib/DbgPy.v and emits the equations
    interpreted source term = Model.Dbg function      (for every state and argument).
Also checks that no other method of compiler.py assigns the bookkeeping fields and that the
debug_info string written by the compiler / parsed by Template.debug_info is the `a=b&c=d` form.
Fail-closed: any construct outside the vocabulary raises Untranslatable."""
import ast
import os


class Untranslatable(Exception):
    pass


FIELDS = {"_new_lines": "FNewLines", "_first_write": "FFirstWrite", "code_lineno": "FCodeLineno",
          "_write_debug_info": "FWdi", "_last_line": "FLastLine"}
PARAMS = {"node": 0, "extra": 1, "lineno": 2}


def self_attr(n):
    if isinstance(n, ast.Attribute) and isinstance(n.value, ast.Name) and n.value.id == "self":
        return n.attr
    return None


def expr(n, locals_=None):
    locals_ = locals_ or {}
    a = self_attr(n)
    if a in FIELDS:
        return f"(EField {FIELDS[a]})"
    if isinstance(n, ast.Constant):
        if n.value is None:
            return "ENoneE"
        if n.value is True:
            return "ETrue"
        if n.value is False:
            return "EFalse"
        if isinstance(n.value, int) and n.value >= 0:
            return f"(ENum {n.value})"
    if isinstance(n, ast.Name):
        if n.id in locals_:
            return f"(ELocal {locals_[n.id]})"
        if n.id in PARAMS:
            return f"(EParam {PARAMS[n.id]})"
    if isinstance(n, ast.Attribute) and isinstance(n.value, ast.Name) and n.value.id == "node" and n.attr == "lineno":
        return "ENodeLine"
    if isinstance(n, ast.BinOp) and isinstance(n.op, ast.Add):
        return f"(EAdd {expr(n.left, locals_)} {expr(n.right, locals_)})"
    if (isinstance(n, ast.Call) and isinstance(n.func, ast.Name) and n.func.id == "max" and len(n.args) == 2
            and not n.keywords):
        return f"(EMax {expr(n.args[0], locals_)} {expr(n.args[1], locals_)})"
    if isinstance(n, ast.UnaryOp) and isinstance(n.op, ast.Not):
        return f"(ENot {expr(n.operand, locals_)})"
    if isinstance(n, ast.BoolOp) and isinstance(n.op, ast.And) and len(n.values) == 2:
        return f"(EAnd {expr(n.values[0], locals_)} {expr(n.values[1], locals_)})"
    if isinstance(n, ast.Compare) and len(n.ops) == 1:
        op, l, r = n.ops[0], n.left, n.comparators[0]
        if isinstance(op, ast.IsNot) and isinstance(r, ast.Constant) and r.value is None:
            return f"(EIsNotNone {expr(l, locals_)})"
        if isinstance(op, ast.NotEq):
            return f"(ENe {expr(l, locals_)} {expr(r, locals_)})"
        if isinstance(op, ast.LtE):
            return f"(ELe {expr(l, locals_)} {expr(r, locals_)})"
    raise Untranslatable("expression " + ast.unparse(n))


def pure_text(n):
    """argument of self.stream.write: text built from constants, x, and bookkeeping fields only"""
    for sub in ast.walk(n):
        if isinstance(sub, (ast.Call, ast.Await, ast.Yield, ast.NamedExpr, ast.Lambda)):
            return False
    return True


def stmts(body):
    out = []
    for st in body:
        t = stmt(st)
        if t is not None:
            out.append(t)
    return "[" + "; ".join(out) + "]"


def stmt(st):
    if isinstance(st, ast.Expr) and isinstance(st.value, ast.Constant) and isinstance(st.value.value, str):
        return None
    if isinstance(st, ast.If) and not st.orelse:
        return f"(SIf {expr(st.test)} {stmts(st.body)})"
    if isinstance(st, ast.Assign) and len(st.targets) == 1 and self_attr(st.targets[0]) in FIELDS:
        return f"(SSet {FIELDS[self_attr(st.targets[0])]} {expr(st.value)})"
    if isinstance(st, ast.AugAssign) and isinstance(st.op, ast.Add) and self_attr(st.target) in FIELDS:
        return f"(SAugAdd {FIELDS[self_attr(st.target)]} {expr(st.value)})"
    if isinstance(st, ast.Expr) and isinstance(st.value, ast.Call) and not st.value.keywords:
        c = st.value
        f = c.func
        if (isinstance(f, ast.Attribute) and f.attr == "write" and self_attr(f.value) == "stream"
                and len(c.args) == 1 and pure_text(c.args[0])):
            return "SStream"
        if (isinstance(f, ast.Attribute) and f.attr == "append" and self_attr(f.value) == "debug_info"
                and len(c.args) == 1 and isinstance(c.args[0], ast.Tuple) and len(c.args[0].elts) == 2):
            a, b = c.args[0].elts
            return f"(SDbgAppend {expr(a)} {expr(b)})"
    raise Untranslatable("statement " + ast.unparse(st)[:100])


def params(fn):
    names = [a.arg for a in fn.args.args]
    defaults = [ast.unparse(d) for d in fn.args.defaults]
    if fn.args.vararg or fn.args.kwarg or fn.args.kwonlyargs:
        raise Untranslatable(f"{fn.name}: star parameters")
    return names, defaults


def translate(src_root):
    comp = ast.parse(open(os.path.join(src_root, "jinja2", "compiler.py")).read())
    cg = [n for n in comp.body if isinstance(n, ast.ClassDef) and n.name == "CodeGenerator"]
    if len(cg) != 1:
        raise Untranslatable("class CodeGenerator not found")
    funcs = {n.name: n for n in cg[0].body if isinstance(n, ast.FunctionDef)}
    for need in ("write", "newline", "writeline", "__init__"):
        if need not in funcs:
            raise Untranslatable("method missing: " + need)
    if params(funcs["write"]) != (["self", "x"], []):
        raise Untranslatable("write parameters")
    if params(funcs["newline"]) != (["self", "node", "extra"], ["None", "0"]):
        raise Untranslatable("newline parameters")
    if params(funcs["writeline"]) != (["self", "x", "node", "extra"], ["None", "0"]):
        raise Untranslatable("writeline parameters")
    wl = [s for s in funcs["writeline"].body if not (isinstance(s, ast.Expr) and isinstance(s.value, ast.Constant))]
    if [ast.unparse(s) for s in wl] != ["self.newline(node, extra)", "self.write(x)"]:
        raise Untranslatable("writeline is no longer newline(node, extra); write(x)")
    out = {"write": stmts(funcs["write"].body), "newline": stmts(funcs["newline"].body)}
    # initial values
    init = {}
    for st in ast.walk(funcs["__init__"]):
        tg = None
        if isinstance(st, ast.Assign) and len(st.targets) == 1:
            tg, val = st.targets[0], st.value
        elif isinstance(st, ast.AnnAssign) and st.value is not None:
            tg, val = st.target, st.value
        if tg is not None and (self_attr(tg) in FIELDS or self_attr(tg) == "debug_info"):
            init[self_attr(tg)] = ast.unparse(val)
    want = {"code_lineno": "1", "_new_lines": "0", "_last_line": "0", "_first_write": "True",
            "_write_debug_info": "None", "debug_info": "[]"}
    if set(init) != set(want):
        raise Untranslatable(f"__init__ initialises {sorted(init)}")
    coq_init = {"1": "1", "0": "0", "True": "true", "False": "false", "None": "None", "[]": "[]"}
    for k, v in init.items():
        if v not in coq_init:
            raise Untranslatable(f"__init__: {k} = {v}")
    out["init"] = "mkSt %s %s %s %s %s %s" % tuple(
        coq_init[init[k]] for k in ("code_lineno", "_new_lines", "_last_line", "_write_debug_info", "_first_write", "debug_info"))
    # nobody else touches the bookkeeping
    for name, fn in funcs.items():
        if name in ("write", "newline", "__init__"):
            continue
        for sub in ast.walk(fn):
            tgs = []
            if isinstance(sub, ast.Assign):
                tgs = sub.targets
            elif isinstance(sub, (ast.AugAssign, ast.AnnAssign)):
                tgs = [sub.target]
            elif isinstance(sub, ast.Delete):
                tgs = sub.targets
            for tg in tgs:
                for leaf in ast.walk(tg):
                    if self_attr(leaf) in FIELDS or self_attr(leaf) == "debug_info":
                        raise Untranslatable(f"{name} assigns self.{self_attr(leaf)}")
            if (isinstance(sub, ast.Call) and isinstance(sub.func, ast.Attribute) and self_attr(sub.func.value) == "debug_info"):
                raise Untranslatable(f"{name} calls a method of self.debug_info")
    # serialisation of the pairs into the module and back
    vt = funcs.get("visit_Template")
    ser = [ast.unparse(s) for s in ast.walk(vt) if isinstance(s, ast.Assign) and "debug_info" in ast.unparse(s)] if vt else []
    if ser != ["debug_kv_str = '&'.join((f'{k}={v}' for k, v in self.debug_info))"]:
        raise Untranslatable(f"visit_Template serialises debug_info as {ser}")
    envm = ast.parse(open(os.path.join(src_root, "jinja2", "environment.py")).read())
    tpl = [n for n in envm.body if isinstance(n, ast.ClassDef) and n.name == "Template"][0]
    tf = {n.name: n for n in tpl.body if isinstance(n, ast.FunctionDef)}
    di = [s for s in tf["debug_info"].body if not (isinstance(s, ast.Expr) and isinstance(s.value, ast.Constant))]
    if " ;; ".join(ast.unparse(s).replace("\n", " / ") for s in di) != (
            "if self._debug_info: /     return [tuple(map(int, x.split('='))) for x in self._debug_info.split('&')] ;; return []"):
        raise Untranslatable("Template.debug_info shape")
    g = tf["get_corresponding_lineno"]
    if params(g) != (["self", "lineno"], []):
        raise Untranslatable("get_corresponding_lineno parameters")
    body = [s for s in g.body if not (isinstance(s, ast.Expr) and isinstance(s.value, ast.Constant))]
    if not (len(body) == 2 and isinstance(body[0], ast.For) and not body[0].orelse and isinstance(body[1], ast.Return)):
        raise Untranslatable("get_corresponding_lineno: expected a for loop and a return")
    loop, ret = body
    if ast.unparse(loop.iter) != "reversed(self.debug_info)":
        raise Untranslatable("get_corresponding_lineno iterates " + ast.unparse(loop.iter))
    if not (isinstance(loop.target, ast.Tuple) and len(loop.target.elts) == 2 and all(isinstance(e, ast.Name) for e in loop.target.elts)):
        raise Untranslatable("loop target")
    loc = {loop.target.elts[0].id: 0, loop.target.elts[1].id: 1}
    if not (len(loop.body) == 1 and isinstance(loop.body[0], ast.If) and not loop.body[0].orelse
            and len(loop.body[0].body) == 1 and isinstance(loop.body[0].body[0], ast.Return)):
        raise Untranslatable("loop body")
    out["cond"] = expr(loop.body[0].test, loc)
    out["ret"] = expr(loop.body[0].body[0].value, loc)
    if not (isinstance(ret.value, ast.Constant) and isinstance(ret.value.value, int)):
        raise Untranslatable("default return")
    out["dflt"] = str(ret.value.value)
    return out


COQ = r'''(* regenerated from %(root)s/jinja2/{compiler,environment}.py by gen/dbg_translate.py -- do not edit *)
From Coq Require Import List NArith Bool.
Import ListNotations.
From JV Require Import Model.Dbg Lib.DbgPy.
Open Scope N_scope.

Definition write_body : list stmt := %(write)s.
Definition newline_body : list stmt := %(newline)s.
Definition init_src : st := %(init)s.
Definition cond_src : expr := %(cond)s.
Definition ret_src : expr := %(ret)s.
Definition dflt_src : N := %(dflt)s.

Theorem init_source_eq_model : init_src = init.
Proof. reflexivity. Qed.

Theorem write_source_eq_model : forall s, execs write_body s (mkArgs None 0) = step s EWrite.
Proof.
  intros [c n l w f d]. unfold write_body, step. cbn.
  destruct (n =? 0); cbn; [reflexivity|]. destruct f; cbn; [reflexivity|]. destruct w; reflexivity.
Qed.

Theorem newline_source_eq_model : forall s node extra,
  execs newline_body s (mkArgs node extra) = step s (ENewline node extra).
Proof.
  intros [c n l w f d] [nl|] extra; unfold newline_body, step; cbn; [|reflexivity].
  destruct (nl =? l); reflexivity.
Qed.

(* writeline(x, node, extra) is newline(node, extra); write(x) (checked by the translator) *)
Theorem writeline_source_eq_model : forall s node extra,
  execs write_body (execs newline_body s (mkArgs node extra)) (mkArgs None 0) = run s [ENewline node extra; EWrite].
Proof. intros s node extra. now rewrite newline_source_eq_model, write_source_eq_model. Qed.

Theorem lookup_source_eq_model : forall info c,
  lookup_src cond_src ret_src dflt_src info c = corresponding (rev info) c.
Proof.
  intros info c. unfold lookup_src. induction (rev info) as [|[tl cl] r IH]; [reflexivity|].
  cbn. rewrite IH. reflexivity.
Qed.

Print Assumptions write_source_eq_model.
Print Assumptions newline_source_eq_model.
Print Assumptions lookup_source_eq_model.
'''


def emit(src_root):
    d = translate(src_root)
    d["root"] = src_root
    return COQ % d


if __name__ == "__main__":
    import sys
    print(emit(sys.argv[1] if len(sys.argv) > 1 else "/repo/src"))
