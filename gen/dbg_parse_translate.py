"""C35 translator (T5 style) for the two places where the parser turns a token into a syntax
error: lexer.TokenStream.expect and parser.Parser.fail.  The current source is translated into
terms of Lib/DbgParsePy.v (fail-closed) and the generated file proves
    interpreted expect = Model.Dbg.expect      interpreted fail = Model.Dbg.fail
for every current token / test result / lineno argument."""
import ast
import os


class Untranslatable(Exception):
    pass


def lexpr(n):
    s = ast.unparse(n)
    if s in ("self.current.lineno", "self.stream.current.lineno"):
        return "LCurrent"
    if s == "lineno":
        return "LParam"
    if isinstance(n, ast.Constant) and isinstance(n.value, int) and n.value >= 0:
        return f"(LConst {n.value})"
    raise Untranslatable("line expression " + s)


def cond(n):
    s = ast.unparse(n)
    if s == "not self.current.test(expr)":
        return "CNotTest"
    if s == "self.current.type is TOKEN_EOF":
        return "CIsEof"
    if s == "lineno is None":
        return "CLinenoIsNone"
    raise Untranslatable("condition " + s)


def stmts(body, exc_names):
    out = []
    for st in body:
        if isinstance(st, ast.Expr) and isinstance(st.value, ast.Constant) and isinstance(st.value.value, str):
            continue
        out.append(stmt(st, exc_names))
    return "[" + "; ".join(out) + "]"


def stmt(st, exc_names):
    if isinstance(st, ast.If) and not st.orelse:
        return f"(PIf {cond(st.test)} {stmts(st.body, exc_names)})"
    if isinstance(st, ast.Assign) and len(st.targets) == 1 and isinstance(st.targets[0], ast.Name):
        t = st.targets[0].id
        if t == "lineno":
            return f"(PSetLineno {lexpr(st.value)})"
        if t == "expr" and ast.unparse(st.value) == "describe_token_expr(expr)":
            return "PAssignText"
    if isinstance(st, ast.Raise) and st.cause is None and isinstance(st.exc, ast.Call) and isinstance(st.exc.func, ast.Name) \
            and st.exc.func.id in exc_names and not st.exc.keywords and len(st.exc.args) == 4 \
            and [ast.unparse(a) for a in st.exc.args[2:]] == ["self.name", "self.filename"]:
        return f"(PRaise {lexpr(st.exc.args[1])})"
    if isinstance(st, ast.Return) and st.value is not None and ast.unparse(st.value) == "next(self)":
        return "PReturnNext"
    raise Untranslatable("statement " + ast.unparse(st)[:90])


def method(path, cls, name):
    tree = ast.parse(open(path).read())
    c = [n for n in tree.body if isinstance(n, ast.ClassDef) and n.name == cls]
    if len(c) != 1:
        raise Untranslatable(f"class {cls} not found")
    f = [n for n in c[0].body if isinstance(n, ast.FunctionDef) and n.name == name]
    if len(f) != 1:
        raise Untranslatable(f"{cls}.{name} not found")
    return tree, f[0]


def translate(src_root):
    lx, ex = method(os.path.join(src_root, "jinja2", "lexer.py"), "TokenStream", "expect")
    if [a.arg for a in ex.args.args] != ["self", "expr"]:
        raise Untranslatable("expect parameters")
    out = {"expect": stmts(ex.body, {"TemplateSyntaxError"})}
    # Token.lineno is the first field of the token tuple and TOKEN_EOF the eof type
    tok = [n for n in lx.body if isinstance(n, ast.ClassDef) and n.name == "Token"]
    if len(tok) != 1 or "lineno: int" not in ast.unparse(tok[0]):
        raise Untranslatable("class Token has no lineno field")
    ps, fl = method(os.path.join(src_root, "jinja2", "parser.py"), "Parser", "fail")
    names = [a.arg for a in fl.args.args]
    defaults = [ast.unparse(d) for d in fl.args.defaults]
    if names != ["self", "msg", "lineno", "exc"] or defaults != ["None", "TemplateSyntaxError"]:
        raise Untranslatable(f"fail parameters {names} {defaults}")
    out["fail"] = stmts(fl.body, {"exc"})
    return out


COQ = r'''(* regenerated from %(root)s/jinja2/{lexer,parser}.py by gen/dbg_parse_translate.py -- do not edit *)
From Coq Require Import List NArith Bool.
Import ListNotations.
From JV Require Import Model.Dbg Lib.DbgParsePy.
Open Scope N_scope.

Definition expect_body : list pstmt := %(expect)s.
Definition fail_body : list pstmt := %(fail)s.

Theorem expect_source_eq_model : forall cur matches,
  pexecs expect_body (mkPenv cur matches None) = FDone (expect cur matches).
Proof. intros [l e] [|]; cbn; [reflexivity|]. destruct e; reflexivity. Qed.

Theorem fail_source_eq_model : forall cur lineno,
  pexecs fail_body (mkPenv cur true lineno) = FDone (fail cur lineno).
Proof. intros [l e] [n|]; reflexivity. Qed.

Print Assumptions expect_source_eq_model.
Print Assumptions fail_source_eq_model.
'''


def emit(src_root):
    d = translate(src_root)
    d["root"] = src_root
    return COQ % d


if __name__ == "__main__":
    import sys
    print(emit(sys.argv[1] if len(sys.argv) > 1 else "/repo/src"))
