"""T5 translator for jinja2.bccache: turns the CURRENT source of Bucket.load_bytecode and of
FileSystemBytecodeCache.dump_bytecode into terms of the deep embeddings in Lib/PyBc.v and emits
  * load_source_eq_model : interp_load <term> = Model.Bc.load_bytecode with the handler classes the term carries,
    for every magic, every pickle / marshal outcome function, every wanted checksum and every byte string;
  * the handler-table predicates on the classes of the term (vm_compute);
  * dump_source_crash / dump_source_fault / dump_source_replace_oserror (symbolic evaluation of the term): interpreted
    under every crash and fault point, leaves the file system Model.Bc.crash_after / fault_after describe.
Fail-closed: any construct outside the vocabulary raises Untranslatable."""
import ast
import os

CLASSES = {
    "BaseException": "HBaseException", "Exception": "HException",
    "EOFError": "HClass EEOF", "ValueError": "HClass EValue", "TypeError": "HClass EType",
    "UnpicklingError": "HClass EUnpickling", "AttributeError": "HClass EAttribute",
    "ImportError": "HClass EImport", "ModuleNotFoundError": "HClass EImport",
    "IndexError": "HClass EIndex", "KeyError": "HClass EKey", "UnicodeDecodeError": "HClass EUnicodeDecode",
    "MemoryError": "HClass EMemory", "OverflowError": "HClass EOverflow",
    "LookupError": "HLookupError", "ArithmeticError": "HArithmeticError",
}


class Untranslatable(Exception):
    pass


def q(s):
    return '"%s"' % s


def strip_doc(body):
    return [s for s in body if not (isinstance(s, ast.Expr) and isinstance(s.value, ast.Constant))]


def is_name(n, name):
    return isinstance(n, ast.Name) and n.id == name


def is_self_attr(n, attr):
    return isinstance(n, ast.Attribute) and is_name(n.value, "self") and n.attr == attr


def is_call(n, mod, fn, nargs=None):
    return (isinstance(n, ast.Call) and isinstance(n.func, ast.Attribute) and n.func.attr == fn
            and is_name(n.func.value, mod) and not n.keywords and (nargs is None or len(n.args) == nargs))


# ------------------------------------------------------------------------------------------- load_bytecode
class Load:
    def __init__(self, fn):
        self.f = fn.args.args[1].arg
        self.tables = {"pickle": None, "marshal": None}

    def expr(self, n):
        if isinstance(n, ast.Name):
            if n.id == "bc_magic":
                return "EMagic"
            return f"(EVar {q(n.id)})"
        if is_self_attr(n, "checksum"):
            return "ESelfChecksum"
        if (is_call(n, self.f, "read", 1) and isinstance(n.args[0], ast.Call) and is_name(n.args[0].func, "len")
                and len(n.args[0].args) == 1 and is_name(n.args[0].args[0], "bc_magic")):
            return "EReadMagic"
        if is_call(n, "pickle", "load", 1) and is_name(n.args[0], self.f):
            return "EPickleLoad"
        if is_call(n, "marshal", "load", 1) and is_name(n.args[0], self.f):
            return "EMarshalLoad"
        raise Untranslatable("expression " + ast.unparse(n))

    def cond(self, n):
        if isinstance(n, ast.Compare) and len(n.ops) == 1 and isinstance(n.ops[0], (ast.Eq, ast.NotEq)):
            return f"({'CEq' if isinstance(n.ops[0], ast.Eq) else 'CNe'} {self.expr(n.left)} {self.expr(n.comparators[0])})"
        raise Untranslatable("condition " + ast.unparse(n))

    def stmts(self, body):
        return "[" + "; ".join(self.stmt(s) for s in strip_doc(body)) + "]"

    def stmt(self, st):
        if isinstance(st, ast.Return) and st.value is None:
            return "SReturn"
        if isinstance(st, ast.Expr) and isinstance(st.value, ast.Call) and is_self_attr(st.value.func, "reset") \
                and not st.value.args and not st.value.keywords:
            return "SReset"
        if isinstance(st, ast.Assign) and len(st.targets) == 1:
            tg = st.targets[0]
            if isinstance(tg, ast.Name):
                return f"(SAssign {q(tg.id)} {self.expr(st.value)})"
            if is_self_attr(tg, "code"):
                return f"(SSetCode {self.expr(st.value)})"
        if isinstance(st, ast.If):
            return f"(SIf {self.cond(st.test)} {self.stmts(st.body)} {self.stmts(st.orelse)})"
        if isinstance(st, ast.Try) and len(st.handlers) == 1 and not st.orelse and not st.finalbody:
            h = st.handlers[0]
            if h.name is not None:
                raise Untranslatable("handler binds the exception")
            if h.type is None:
                names = ["BaseException"]
            elif isinstance(h.type, ast.Tuple):
                names = [self.cname(e) for e in h.type.elts]
            else:
                names = [self.cname(h.type)]
            for nm in names:
                if nm not in CLASSES:
                    raise Untranslatable(f"unknown exception class {nm!r}")
            classes = "[" + "; ".join(CLASSES[nm] for nm in names) + "]"
            body = self.stmts(st.body)
            for mod, tag in (("pickle", "EPickleLoad"), ("marshal", "EMarshalLoad")):
                if tag in body:
                    if self.tables[mod] is not None:
                        raise Untranslatable(f"{mod}.load inside more than one try")
                    self.tables[mod] = classes
            return f"(STry {body} {classes} {self.stmts(h.body)})"
        raise Untranslatable("statement " + ast.unparse(st)[:80])

    @staticmethod
    def cname(n):
        if isinstance(n, ast.Name):
            return n.id
        if isinstance(n, ast.Attribute) and is_name(n.value, "pickle"):
            return n.attr
        raise Untranslatable("exception expression " + ast.unparse(n))


def translate_load(tree):
    bucket = [n for n in tree.body if isinstance(n, ast.ClassDef) and n.name == "Bucket"]
    if len(bucket) != 1:
        raise Untranslatable("class Bucket not found")
    funcs = {n.name: n for n in bucket[0].body if isinstance(n, ast.FunctionDef)}
    for need in ("load_bytecode", "reset", "__init__"):
        if need not in funcs:
            raise Untranslatable("Bucket." + need + " missing")
    # reset() must unload the code, __init__ must end in a reset (a fresh bucket has no code)
    rs = strip_doc(funcs["reset"].body)
    if not (len(rs) == 1 and isinstance(rs[0], (ast.Assign, ast.AnnAssign))
            and is_self_attr(rs[0].targets[0] if isinstance(rs[0], ast.Assign) else rs[0].target, "code")
            and isinstance(rs[0].value, ast.Constant) and rs[0].value.value is None):
        raise Untranslatable("Bucket.reset is not `self.code = None`")
    if "self.reset()" not in ast.unparse(funcs["__init__"]):
        raise Untranslatable("Bucket.__init__ does not reset")
    fn = funcs["load_bytecode"]
    if len(fn.args.args) != 2:
        raise Untranslatable("load_bytecode signature")
    tr = Load(fn)
    body = tr.stmts(fn.body)
    return body, tr.tables["pickle"] or "[]", tr.tables["marshal"] or "[]"


# ------------------------------------------------------------------------------------------- dump_bytecode
DH = {"OSError": "DHOSError", "BaseException": "DHBaseException"}


def translate_dump(tree):
    cls = [n for n in tree.body if isinstance(n, ast.ClassDef) and n.name == "FileSystemBytecodeCache"]
    if len(cls) != 1:
        raise Untranslatable("class FileSystemBytecodeCache not found")
    fn = [n for n in cls[0].body if isinstance(n, ast.FunctionDef) and n.name == "dump_bytecode"]
    if len(fn) != 1 or len(fn[0].args.args) != 2:
        raise Untranslatable("dump_bytecode not found")
    fn = fn[0]
    bucket = fn.args.args[1].arg
    body = strip_doc(fn.body)
    if len(body) < 3:
        raise Untranslatable("dump_bytecode body")
    # name = self._get_cache_filename(bucket)
    a = body[0]
    if not (isinstance(a, ast.Assign) and len(a.targets) == 1 and isinstance(a.targets[0], ast.Name)
            and isinstance(a.value, ast.Call) and is_self_attr(a.value.func, "_get_cache_filename")
            and len(a.value.args) == 1 and is_name(a.value.args[0], bucket)):
        raise Untranslatable("first statement is not name = self._get_cache_filename(bucket)")
    name = a.targets[0].id
    out = []
    tmpvar = None
    remove_fn = None

    def dstmts(l):
        return "[" + "; ".join(dstmt(s) for s in strip_doc(l)) + "]"

    def dstmt(st):
        nonlocal tmpvar
        if isinstance(st, ast.Raise) and st.exc is None:
            return "DReraise"
        if isinstance(st, ast.Expr) and isinstance(st.value, ast.Call):
            c = st.value
            if remove_fn and is_name(c.func, remove_fn) and not c.args and not c.keywords:
                return "DRemoveSilent"
            if (is_call(c, "os", "replace", 2) and isinstance(c.args[0], ast.Attribute) and c.args[0].attr == "name"
                    and is_name(c.args[0].value, tmpvar) and is_name(c.args[1], name)):
                return "DReplace"
        if isinstance(st, ast.With) and len(st.items) == 1 and st.items[0].optional_vars is None \
                and is_name(st.items[0].context_expr, tmpvar) and len(st.body) == 1:
            b = st.body[0]
            if (isinstance(b, ast.Expr) and is_call(b.value, bucket, "write_bytecode", 1) and is_name(b.value.args[0], tmpvar)):
                return "DWithWrite"
        if isinstance(st, ast.Try) and not st.orelse and not st.finalbody and 1 <= len(st.handlers) <= 2:
            hs = []
            for h in st.handlers:
                if h.name is not None or not isinstance(h.type, ast.Name) or h.type.id not in DH:
                    raise Untranslatable("handler " + ast.unparse(h)[:60])
                hs.append(f"{DH[h.type.id]} {dstmts(h.body)}")
            return f"(DTry{len(hs)} {dstmts(st.body)} {' '.join(hs)})"
        raise Untranslatable("statement " + ast.unparse(st)[:80])

    for st in body[1:]:
        if isinstance(st, ast.Assign) and len(st.targets) == 1 and isinstance(st.targets[0], ast.Name) \
                and is_call_kw(st.value, "tempfile", "NamedTemporaryFile"):
            kw = {k.arg: k.value for k in st.value.keywords}
            ok = (not st.value.args and set(kw) == {"mode", "dir", "prefix", "suffix", "delete"}
                  and isinstance(kw["mode"], ast.Constant) and kw["mode"].value == "wb"
                  and isinstance(kw["delete"], ast.Constant) and kw["delete"].value is False
                  and isinstance(kw["suffix"], ast.Constant) and isinstance(kw["suffix"].value, str) and kw["suffix"].value != ""
                  and ast.unparse(kw["dir"]) == f"os.path.dirname({name})"
                  and ast.unparse(kw["prefix"]) == f"os.path.basename({name})")
            if not ok or tmpvar is not None:
                raise Untranslatable("NamedTemporaryFile call " + ast.unparse(st.value)[:100])
            tmpvar = st.targets[0].id
            out.append("DCreateTemp")
            continue
        if isinstance(st, ast.FunctionDef):
            b = strip_doc(st.body)
            ok = (tmpvar is not None and not st.args.args and len(b) == 1 and isinstance(b[0], ast.Try)
                  and len(b[0].handlers) == 1 and not b[0].orelse and not b[0].finalbody
                  and isinstance(b[0].handlers[0].type, ast.Name) and b[0].handlers[0].type.id == "OSError"
                  and all(isinstance(x, ast.Pass) for x in b[0].handlers[0].body)
                  and len(b[0].body) == 1 and isinstance(b[0].body[0], ast.Expr)
                  and ast.unparse(b[0].body[0].value) == f"os.remove({tmpvar}.name)")
            if not ok or remove_fn is not None:
                raise Untranslatable("nested function " + st.name)
            remove_fn = st.name
            continue
        if tmpvar is None:
            raise Untranslatable("statement before the temp file exists: " + ast.unparse(st)[:60])
        out.append(dstmt(st))
    return "[" + "; ".join(out) + "]"


def is_call_kw(n, mod, fn):
    return (isinstance(n, ast.Call) and isinstance(n.func, ast.Attribute) and n.func.attr == fn and is_name(n.func.value, mod))


COQ = r'''(* regenerated from %(root)s/jinja2/bccache.py by gen/bc_translate.py — do not edit *)
From Coq Require Import List NArith Bool String Arith Lia.
Import ListNotations.
From JV Require Import Model.Bc Proofs.BcProofs Lib.PyBc.
Open Scope N_scope. Open Scope string_scope.

(* ---- Bucket.load_bytecode *)
Definition gen_load : list stmt := %(load)s.
Definition gen_table : htable := {| h_pickle := %(hp)s; h_marshal := %(hm)s |}.

Ltac names := cbn [interp_load execs exec eval eval_cond env_get String.eqb Ascii.eqb Bool.eqb veq truthy
                   l_stream l_code l_env fst snd negb h_pickle h_marshal gen_table] in *.
Ltac crunch :=
  repeat (names;
          match goal with
          | |- context [match ?x with _ => _ end] =>
              match x with
              | context [match _ with _ => _ end] => fail 1
              | _ => destruct x eqn:?
              end
          end);
  names; try reflexivity; try congruence.

Theorem load_source_eq_model : forall magic pl ml want data,
  interp_load magic pl ml want gen_load data = load_bytecode magic pl ml gen_table want data.
Proof.
  intros magic pl ml want data. unfold gen_load, load_bytecode, interp_load. crunch.
  all: match goal with
       | H1 : (?a =? ?b)%%N = _, H2 : negb (?b =? ?a)%%N = _ |- _ =>
           rewrite (N.eqb_sym b a) in H2; rewrite H1 in H2; discriminate
       end.
Qed.

Lemma gen_pickle_ok : pickle_table_ok gen_table = true. Proof. vm_compute. reflexivity. Qed.
Lemma gen_marshal_ok : marshal_table_ok gen_table = true. Proof. vm_compute. reflexivity. Qed.

(* hence, for the code as it is now: the interpreted source never raises on any byte string *)
Theorem load_source_never_raises : forall magic pl ml,
  (forall b e, pl b = PExn e -> e <> ENotException) ->
  (forall b e, ml b = MExn e -> In e [EEOF; EValue; EType]) ->
  forall want data e, interp_load magic pl ml want gen_load data <> Raise e.
Proof.
  intros magic pl ml Lp Lm want data e. rewrite load_source_eq_model.
  exact (load_never_raises magic pl ml gen_table gen_pickle_ok gen_marshal_ok Lp Lm want data e).
Qed.

(* ---- FileSystemBytecodeCache.dump_bytecode, control skeleton *)
Definition gen_dump : list dstmt := %(dump)s.
(* the interpreted term itself (symbolic evaluation of the interpreter on gen_dump; the budgeted primitive runs are
   decomposed with PyBc.prims_cases), for every crash point ... *)
Theorem dump_source_crash : forall real tmp chunks s0 k, tmp <> real ->
  d_fs (fst (interp_dump real tmp chunks EvCrash gen_dump s0 k)) = crash_after real tmp s0 chunks k.
Proof.
  intros real tmp chunks s0 k D. unfold interp_dump, crash_after, gen_dump. rewrite dump_steps_eq.
  cbn [dexecs dexec]. set (ws := (List.map WWrite chunks ++ [WClose])%%list).
  destruct k as [|k]; [reflexivity|]. cbn [prims d_budget d_fs firstn fold_left].
  set (s1 := exec_step real tmp s0 WCreate).
  destruct (prims_cases real tmp D EvCrash ws s1 k) as [[H (st' & E & F)]|[H E]]; rewrite E.
  - cbn [dcatches fst]. rewrite F. rewrite firstn_app. replace (k - List.length ws)%%nat with 0%%nat by lia.
    cbn [firstn]. now rewrite app_nil_r.
  - cbn [prims d_budget d_fs].
    destruct (k - List.length ws)%%nat as [|j] eqn:Ej.
    + cbn [fst d_fs]. rewrite firstn_app, Ej. cbn [firstn]. rewrite app_nil_r. now rewrite firstn_all2 by lia.
    + cbn [fst d_fs]. rewrite firstn_all2 by (rewrite app_length; cbn; lia). now rewrite fold_left_app.
Qed.

(* ... and for every fault point, an OSError or any other exception; the temp name is fresh *)
Theorem dump_source_fault : forall real tmp chunks s0 k x, tmp <> real -> s0 tmp = None -> forall g,
  d_fs (fst (interp_dump real tmp chunks (EvFault x) gen_dump s0 k)) g = fault_after real tmp s0 chunks k g.
Proof.
  intros real tmp chunks s0 k x D Hfresh g. unfold interp_dump, fault_after, crash_after, gen_dump. rewrite dump_steps_eq.
  cbn [dexecs dexec]. set (ws := (List.map WWrite chunks ++ [WClose])%%list).
  destruct k as [|k].
  - cbn [prims d_budget fst d_fs firstn fold_left]. unfold fupd. destruct (g =? tmp)%%N eqn:Eg; [|reflexivity].
    apply N.eqb_eq in Eg. now subst g.
  - cbn [prims d_budget d_fs firstn fold_left]. set (s1 := exec_step real tmp s0 WCreate).
    destruct (prims_cases real tmp D (EvFault x) ws s1 k) as [[H (st' & E & F)]|[H E]]; rewrite E.
    + cbn [dcatches dexec fst d_fs]. rewrite F. rewrite firstn_app. replace (k - List.length ws)%%nat with 0%%nat by lia.
      cbn [firstn]. now rewrite app_nil_r.
    + cbn [prims d_budget d_fs].
      destruct (k - List.length ws)%%nat as [|j] eqn:Ej.
      * rewrite firstn_app, Ej. cbn [firstn]. rewrite app_nil_r. rewrite firstn_all2 by lia.
        destruct x; cbn [dcatches dexec fst d_fs]; reflexivity.
      * cbn [fst d_fs]. rewrite firstn_all2 by (rewrite app_length; cbn; lia).
        change (exec_step real tmp (fold_left (exec_step real tmp) ws s1) WReplace)
          with (fold_left (exec_step real tmp) [WReplace] (fold_left (exec_step real tmp) ws s1)).
        rewrite <- fold_left_app. unfold fupd. destruct (g =? tmp)%%N eqn:Eg; [|reflexivity].
        apply N.eqb_eq in Eg. subst g. apply full_tmp_none.
Qed.

(* an OSError raised by os.replace is swallowed, any other exception propagates *)
Theorem dump_source_replace_oserror : forall real tmp chunks s0, tmp <> real ->
  snd (interp_dump real tmp chunks (EvFault XOSError) gen_dump s0 (S (List.length (List.map WWrite chunks ++ [WClose])%%list))) = DNormal /\
  snd (interp_dump real tmp chunks (EvFault XOther) gen_dump s0 (S (List.length (List.map WWrite chunks ++ [WClose])%%list))) = DRaise XOther.
Proof.
  intros real tmp chunks s0 D. unfold interp_dump, gen_dump. cbn [dexecs dexec]. set (ws := (List.map WWrite chunks ++ [WClose])%%list).
  cbn [prims d_budget d_fs]. set (s1 := exec_step real tmp s0 WCreate).
  split.
  - destruct (prims_cases real tmp D (EvFault XOSError) ws s1 (List.length ws)) as [[H _]|[H E]]; [lia|]. rewrite E.
    rewrite Nat.sub_diag. reflexivity.
  - destruct (prims_cases real tmp D (EvFault XOther) ws s1 (List.length ws)) as [[H _]|[H E]]; [lia|]. rewrite E.
    rewrite Nat.sub_diag. reflexivity.
Qed.

Print Assumptions load_source_eq_model.
Print Assumptions load_source_never_raises.
Print Assumptions dump_source_crash.
Print Assumptions dump_source_fault.
'''


def emit(src_root):
    tree = ast.parse(open(os.path.join(src_root, "jinja2", "bccache.py")).read())
    load, hp, hm = translate_load(tree)
    dump = translate_dump(tree)
    return COQ % {"root": src_root, "load": load, "hp": hp, "hm": hm, "dump": dump}


if __name__ == "__main__":
    import sys
    print(emit(sys.argv[1] if len(sys.argv) > 1 else "/repo/src"))
