"""T5 translator for jinja2.runtime.LoopContext / AsyncLoopContext: turns the CURRENT source of
index, first, depth, length, _peek_next, __next__/__anext__, last, nextitem, previtem, revindex0,
revindex, changed, cycle into terms of the deep embedding Lib/PyLoop.v and emits Gen_loop.v, which
proves  interpreted source term = Model.Loop function  (m_length for both kinds of iterable,
m_peek, m_next, the m_query case of every property) for every state.  `await e` is translated as
`e`, `[x async for x in it]` as `list(it)`, `it.__anext__()` / StopAsyncIteration as `next(it)` /
StopIteration, so the async class goes through the same equations.  Fail-closed: anything outside
the vocabulary raises Untranslatable."""
import ast
import os


class Untranslatable(Exception):
    pass


FIELDS = {"_length", "_after", "_before", "_current", "_last_changed_value", "index0", "depth0"}
PROPS = {"length", "index", "first"}


def q(s):
    return '"%s"' % s


def is_self(n, attr=None):
    return (isinstance(n, ast.Attribute) and isinstance(n.value, ast.Name) and n.value.id == "self"
            and (attr is None or n.attr == attr))


def z(n):
    return f"({n})" if n < 0 else str(n)


def expr(n):
    if isinstance(n, ast.Await):
        return expr(n.value)
    if isinstance(n, ast.Name):
        if n.id == "missing":
            return "EMissing"
        return f"(ELocal {q(n.id)})"
    if isinstance(n, ast.Constant):
        if n.value is None:
            return "ENone"
        if n.value is True or n.value is False:
            return f"(EBool {'true' if n.value else 'false'})"
        if isinstance(n.value, int):
            return f"(EInt {z(n.value)})"
        raise Untranslatable("constant " + repr(n.value))
    if is_self(n):
        if n.attr in FIELDS:
            return f"(EField {q(n.attr)})"
        if n.attr in PROPS:
            return f"(EProp {q(n.attr)})"
        raise Untranslatable("self attribute " + n.attr)
    if isinstance(n, ast.Tuple) and len(n.elts) == 2 and isinstance(n.elts[1], ast.Name) and n.elts[1].id == "self":
        return f"(EWithSelf {expr(n.elts[0])})"
    if isinstance(n, ast.ListComp):
        if ast.unparse(n) == "[x async for x in self._iterator]":
            return "EDrain"
        raise Untranslatable("comprehension " + ast.unparse(n))
    if isinstance(n, ast.Call):
        src = ast.unparse(n)
        if src == "self._peek_next()":
            return "EPeek"
        if src == "len(self._iterable)":
            return "ELenIterable"
        if src == "list(self._iterator)":
            return "EDrain"
        if src in ("next(self._iterator)", "self._iterator.__anext__()"):
            return "ENext"
        if src == "self._undefined('there is no previous item')":
            return "EUndefPrev"
        if src == "self._undefined('there is no next item')":
            return "EUndefNext"
        f = n.func
        if isinstance(f, ast.Name) and f.id == "next" and len(n.args) == 2 and ast.unparse(n.args[0]) == "self._iterator" and not n.keywords:
            return f"(ENextD {expr(n.args[1])})"
        if isinstance(f, ast.Name) and f.id == "len" and len(n.args) == 1 and isinstance(n.args[0], ast.Name) and not n.keywords:
            return f"(ELen {expr(n.args[0])})"
        if is_self(f, "_to_iterator") and len(n.args) == 1 and not n.keywords:
            return f"(EToIterator {expr(n.args[0])})"
        raise Untranslatable("call " + src)
    if isinstance(n, ast.Compare) and len(n.ops) == 1:
        op, a, b = n.ops[0], n.left, n.comparators[0]
        for cls, con in ((ast.Is, "EIs"), (ast.IsNot, "EIsNot"), (ast.Eq, "EEq"), (ast.NotEq, "ENe")):
            if isinstance(op, cls):
                return f"({con} {expr(a)} {expr(b)})"
    if isinstance(n, ast.BinOp):
        for cls, con in ((ast.Add, "EAdd"), (ast.Sub, "ESub"), (ast.Mod, "EMod")):
            if isinstance(n.op, cls):
                return f"({con} {expr(n.left)} {expr(n.right)})"
    if isinstance(n, ast.UnaryOp) and isinstance(n.op, ast.Not):
        return f"(ENot {expr(n.operand)})"
    if isinstance(n, ast.Subscript) and isinstance(n.value, ast.Name) and not isinstance(n.slice, ast.Slice):
        return f"(ESubscript {expr(n.value)} {expr(n.slice)})"
    raise Untranslatable("expression " + ast.unparse(n))


EXN = {"TypeError": "XTypeError", "StopIteration": "XStop", "StopAsyncIteration": "XStop"}


def stmts(body):
    out = [t for t in (stmt(s) for s in body) if t is not None]
    return "[" + "; ".join(out) + "]"


def stmt(st):
    if isinstance(st, ast.Expr) and isinstance(st.value, ast.Constant) and isinstance(st.value.value, str):
        return None
    if isinstance(st, ast.Return) and st.value is not None:
        return f"(SReturn {expr(st.value)})"
    if isinstance(st, ast.Assign) and len(st.targets) == 1:
        tg = st.targets[0]
        if isinstance(tg, ast.Name):
            return f"(SAssign {q(tg.id)} {expr(st.value)})"
        if is_self(tg) and tg.attr in (FIELDS | {"_iterator"}):
            return f"(SSetField {q(tg.attr)} {expr(st.value)})"
    if isinstance(st, ast.AugAssign) and isinstance(st.op, ast.Add) and is_self(st.target) and st.target.attr in FIELDS \
            and isinstance(st.value, ast.Constant) and isinstance(st.value.value, int):
        return f"(SIncrField {q(st.target.attr)} {z(st.value.value)})"
    if isinstance(st, ast.If):
        return f"(SIf {expr(st.test)} {stmts(st.body)} {stmts(st.orelse)})"
    if isinstance(st, ast.Try) and len(st.handlers) == 1 and not st.orelse and not st.finalbody:
        h = st.handlers[0]
        if isinstance(h.type, ast.Name) and h.type.id in EXN and h.name is None:
            return f"(STry {stmts(st.body)} {EXN[h.type.id]} {stmts(h.body)})"
    if isinstance(st, ast.Raise) and isinstance(st.exc, ast.Call) and isinstance(st.exc.func, ast.Name) \
            and st.exc.func.id == "TypeError" and (st.cause is None or (isinstance(st.cause, ast.Constant) and st.cause.value is None)):
        return "SRaiseTypeError"
    raise Untranslatable("statement " + ast.unparse(st)[:80])


# method -> (is property, parameter spec)
SYNC = {"index": (True, None), "first": (True, None), "depth": (True, None), "length": (True, None),
        "_peek_next": (False, None), "__next__": (False, None), "last": (True, None), "nextitem": (True, None),
        "previtem": (True, None), "revindex0": (True, None), "revindex": (True, None),
        "changed": (False, "value"), "cycle": (False, "args"), "__len__": (False, None)}
ASYNC = {"length": (True, None), "_peek_next": (False, None), "__anext__": (False, None), "last": (True, None),
         "nextitem": (True, None), "revindex0": (True, None), "revindex": (True, None), "__len__": (False, None)}
INIT_NEED = ["self._iterable = iterable", "self._iterator = self._to_iterator(iterable)", "self._undefined = undefined",
             "self.depth0 = depth0"]
CLASS_DEFAULTS = ["index0 = -1", "_length: int | None = None", "_after: t.Any = missing", "_current: t.Any = missing",
                  "_before: t.Any = missing", "_last_changed_value: t.Any = missing"]


def methods_of(cls, table, label):
    funcs = {n.name: n for n in cls.body if isinstance(n, (ast.FunctionDef, ast.AsyncFunctionDef))}
    out = {}
    for m, (is_prop, vararg) in table.items():
        if m not in funcs:
            raise Untranslatable(f"{label}.{m} missing")
        f = funcs[m]
        decos = [ast.unparse(d) for d in f.decorator_list]
        if decos != (["property"] if is_prop else []):
            raise Untranslatable(f"{label}.{m} decorators {decos}")
        a = f.args
        if len(a.args) != 1 or a.kwarg is not None or a.kwonlyargs or a.defaults or \
                (a.vararg.arg if a.vararg else None) != vararg:
            raise Untranslatable(f"{label}.{m} signature")
        out[m] = stmts(f.body)
    return out, funcs


def translate(src_root):
    tree = ast.parse(open(os.path.join(src_root, "jinja2", "runtime.py")).read())
    classes = {n.name: n for n in tree.body if isinstance(n, ast.ClassDef)}
    for c in ("LoopContext", "AsyncLoopContext"):
        if c not in classes:
            raise Untranslatable("class missing: " + c)
    if [ast.unparse(b) for b in classes["AsyncLoopContext"].bases] != ["LoopContext"]:
        raise Untranslatable("AsyncLoopContext no longer derives from LoopContext")
    sync, funcs = methods_of(classes["LoopContext"], SYNC, "LoopContext")
    asyn, afuncs = methods_of(classes["AsyncLoopContext"], ASYNC, "AsyncLoopContext")
    # methods of the sync class that the async class must not override beyond the translated ones
    extra = set(afuncs) - set(ASYNC) - {"_to_iterator", "__aiter__", "__repr__"}
    if extra:
        raise Untranslatable("AsyncLoopContext overrides untranslated members: " + ", ".join(sorted(extra)))
    init = ast.unparse(funcs["__init__"])
    for need in INIT_NEED:
        if need not in init:
            raise Untranslatable("__init__ no longer contains: " + need)
    body_src = [ast.unparse(n) for n in classes["LoopContext"].body if isinstance(n, (ast.Assign, ast.AnnAssign))]
    for need in CLASS_DEFAULTS:
        if need not in body_src:
            raise Untranslatable("class default changed: " + need)
    if ast.unparse(funcs["_to_iterator"].body[-1]) != "return iter(iterable)":
        raise Untranslatable("_to_iterator")
    if ast.unparse(afuncs["_to_iterator"].body[-1]) != "return auto_aiter(iterable)":
        raise Untranslatable("async _to_iterator")
    return sync, asyn


def emit(src_root):
    sync, asyn = translate(src_root)
    from loop_template import render
    return render(sync, asyn, src_root)


if __name__ == "__main__":
    import sys
    sys.path.insert(0, os.path.dirname(os.path.abspath(__file__)))
    print(emit(sys.argv[1] if len(sys.argv) > 1 else "/repo/src"))
