"""C21 translator: class tables of the undefined types, regenerated from /repo's source.

Reads (python `ast`, nothing is imported or executed)
  * src/jinja2/runtime.py : class bodies of Undefined, ChainableUndefined, DebugUndefined,
    StrictUndefined and of the class defined inside make_logging_undefined (with the alias
    assignments  `__add__ = __radd__ = ... = _fail_with_undefined_error`),
  * src/jinja2/tests.py   : test_defined / test_undefined,
  * src/jinja2/filters.py : do_default,
and emits (a) Gallina text  `Definition tables : tables := [...]`  over JV.Model.Undef and
(b) the same tables as text lines for the extracted driver.

Fail-closed: any statement in a class body, any decorator, any dunder method body whose shape is
not one of the recognised ones raises TranslateError (the check then reports a broken
obligation and searches for a failing input).  Non-dunder helper methods with unknown bodies are
kept as KOther (they cannot be reached by the operations of C21 except by attribute name).
"""
from __future__ import annotations

import ast
import os

# method-name ids shared with coq/theories/Model/Undef.v (checked by an Example in the
# regenerated file) and ocaml/driver_undef.ml (which only sees numbers)
NAMES = [
    "<other>", "__str__", "__repr__", "__bool__", "__len__", "__iter__", "__contains__", "__eq__", "__ne__",
    "__hash__", "__lt__", "__le__", "__gt__", "__ge__", "__add__", "__radd__", "__sub__", "__rsub__",
    "__mul__", "__rmul__", "__truediv__", "__rtruediv__", "__floordiv__", "__rfloordiv__", "__mod__",
    "__rmod__", "__pow__", "__rpow__", "__pos__", "__neg__", "__int__", "__float__", "__index__",
    "__call__", "__getitem__", "__getattr__", "_fail_with_undefined_error", "_undefined_message",
    "__init__", "__html__", "__aiter__", "__copy__", "__deepcopy__", "__reduce_ex__", "__reduce__",
    "__getstate__", "__setstate__", "__getnewargs_ex__", "__getnewargs__", "__trunc__",
]
NAME_ID = {n: i for i, n in enumerate(NAMES)}
COQ_NAME = {n: "m_" + n.strip("_<>") for n in NAMES}
COQ_NAME["_fail_with_undefined_error"] = "m_fail"
COQ_NAME["_undefined_message"] = "m_message"

FORBIDDEN = {"__getattribute__", "__new__", "__init_subclass__", "__class_getitem__", "__set_name__",
             "__get__", "__set__", "__delete__", "__setattr__", "__delattr__", "__instancecheck__",
             "__subclasscheck__", "__class__"}

BASES = {"Undefined": "BU", "ChainableUndefined": "BC", "DebugUndefined": "BD", "StrictUndefined": "BS"}


class TranslateError(Exception):
    pass


def _is_dunder(n):
    return n[:2] == "__" and n[-2:] == "__"


def _body(fn):
    b = list(fn.body)
    if b and isinstance(b[0], ast.Expr) and isinstance(b[0].value, ast.Constant) and isinstance(b[0].value.value, str):
        b = b[1:]
    return b


def _u(nodes):
    return " ;; ".join(ast.unparse(n).replace("\n", " / ") for n in nodes)


DUNDER_GUARD = "if name[:2] == '__' and name[-2:] == '__': /     raise AttributeError(name)"

FIXED_SHAPES = {
    "raise self._undefined_exception(self._undefined_message)": "KFail",
    ("try: /     super()._fail_with_undefined_error(*args, **kwargs) / except self._undefined_exception as e: /"
     "     logger.error('Template variable error: %s', e) /     raise e"): "KFailLogged",
    DUNDER_GUARD + " ;; return self._fail_with_undefined_error()": "KGetattrFail",
    DUNDER_GUARD + " ;; return self": "KGetattrSelf",
    "return self": "KRetSelf",
    "return type(self) is type(other)": "KEqType",
    "return not self.__eq__(other)": "KNeNotEq",
    "return id(type(self))": "KHashType",
    "yield from ()": "KIterEmpty",
    "for _ in (): /     yield": "KAiterEmpty",
    "return str(self)": "KStrOfSelf",
    "return str(escape(str(self)))": "KEscStrOfSelf",
    ("if self._undefined_hint: /     message = f'undefined value printed: {self._undefined_hint}' / "
     "elif self._undefined_obj is missing: /     message = self._undefined_name / else: /     "
     "message = f'no such element: {object_type_repr(self._undefined_obj)}[{self._undefined_name!r}]' ;; "
     "return f'{{{{ {message} }}}}'"): "KDebugStr",
    ("self._undefined_hint = hint ;; self._undefined_obj = obj ;; self._undefined_name = name ;; "
     "self._undefined_exception = exc"): "KInit",
    ("if self._undefined_hint: /     return self._undefined_hint ;; if self._undefined_obj is missing: /     "
     "return f'{self._undefined_name!r} is undefined' ;; if not isinstance(self._undefined_name, str): /     "
     "return f'{object_type_repr(self._undefined_obj)} has no element {self._undefined_name!r}' ;; "
     "return f'{object_type_repr(self._undefined_obj)!r} has no attribute {self._undefined_name!r}'"): "KMessage",
}


def _const_kind(v):
    if v is None:
        return "VNone"
    if v is True:
        return "VTrue"
    if v is False:
        return "VFalse"
    if isinstance(v, str):
        return "VStrEmpty" if v == "" else "VStrOther"
    if isinstance(v, int):
        return "VInt0" if v == 0 else "VIntOther"
    raise TranslateError(f"constant of unsupported type {type(v).__name__}")


def classify(fn, in_logging):
    """kind (Coq constructor text) of one method definition"""
    name = fn.name
    for d in fn.decorator_list:
        if not (isinstance(d, ast.Name) and d.id in ("internalcode", "property")):
            raise TranslateError(f"{name}: unexpected decorator {ast.unparse(d)}")
    is_prop = any(isinstance(d, ast.Name) and d.id == "property" for d in fn.decorator_list)
    b = _body(fn)
    text = _u(b)
    if text in FIXED_SHAPES:
        k = FIXED_SHAPES[text]
        if k == "KMessage" and not is_prop:
            raise TranslateError("_undefined_message is no longer a property")
        if k != "KMessage" and is_prop:
            raise TranslateError(f"{name}: unexpected property")
        if k == "KAiterEmpty" and not isinstance(fn, ast.AsyncFunctionDef):
            raise TranslateError("__aiter__ shape on a non-async def")
        if k == "KFailLogged" and not in_logging:
            raise TranslateError("logging failure shape outside make_logging_undefined")
        return k
    if isinstance(fn, ast.AsyncFunctionDef):
        raise TranslateError(f"{name}: unknown async method shape: {text}")
    if len(b) == 1 and isinstance(b[0], ast.Return) and isinstance(b[0].value, ast.Constant):
        return f"(KRetConst {_const_kind(b[0].value.value)})"
    if in_logging and text == f"_log_message(self) ;; return super().{name}()":
        if name not in NAME_ID:
            raise TranslateError(f"log-then-super on unknown method {name}")
        return f"(KLogSuper {COQ_NAME[name]})"
    if _is_dunder(name) or name in ("_undefined_message", "_fail_with_undefined_error"):
        raise TranslateError(f"{name}: unknown method shape: {text}")
    return "KOther"


def class_table(cdef, known, in_logging=False):
    """-> ordered dict name -> (kind, fid-key) ; known: tables of already translated classes"""
    if cdef.decorator_list or cdef.keywords:
        raise TranslateError(f"class {cdef.name}: decorators / keywords not supported")
    d = {}
    local_defs = {}
    for st in cdef.body:
        if isinstance(st, ast.Expr) and isinstance(st.value, ast.Constant) and isinstance(st.value.value, str):
            continue
        if isinstance(st, (ast.FunctionDef, ast.AsyncFunctionDef)):
            if st.name in FORBIDDEN:
                raise TranslateError(f"class {cdef.name} defines {st.name}")
            k = classify(st, in_logging)
            fidkey = (cdef.name, st.name)
            local_defs[st.name] = (k, fidkey)
            d[st.name] = (k, fidkey)
            continue
        if isinstance(st, ast.Assign):
            tg = st.targets
            if not all(isinstance(t, ast.Name) for t in tg):
                raise TranslateError(f"class {cdef.name}: unsupported assignment {ast.unparse(st)}")
            names = [t.id for t in tg]
            if names == ["__slots__"]:
                continue
            v = st.value
            if isinstance(v, ast.Name) and v.id in local_defs:
                src = local_defs[v.id]
            elif (isinstance(v, ast.Attribute) and isinstance(v.value, ast.Name) and v.value.id in known
                  and v.attr in known[v.value.id]):
                src = known[v.value.id][v.attr]
            elif isinstance(v, ast.Constant) and v.value is None:
                src = ("KHashNone", (cdef.name, "None"))
                if names != ["__hash__"]:
                    raise TranslateError(f"class {cdef.name}: {ast.unparse(st)}")
            else:
                raise TranslateError(f"class {cdef.name}: unsupported alias {ast.unparse(st)}")
            for n in names:
                if n in FORBIDDEN:
                    raise TranslateError(f"class {cdef.name} assigns {n}")
                d[n] = src
                local_defs[n] = src
            continue
        raise TranslateError(f"class {cdef.name}: unsupported statement {type(st).__name__}: {ast.unparse(st)[:80]}")
    # Python: a class that defines __eq__ without __hash__ gets __hash__ = None
    if "__eq__" in d and "__hash__" not in d:
        d["__hash__"] = ("KHashNone", (cdef.name, "implicit-hash-none"))
    return d


def test_kind(fn):
    t = _u(_body(fn))
    if t == "return not isinstance(value, Undefined)":
        return "TNotIsUndefined"
    if t == "return isinstance(value, Undefined)":
        return "TIsUndefined"
    raise TranslateError(f"{fn.name}: unknown shape {t}")


def default_kind(fn):
    t = _u(_body(fn))
    args = [a.arg for a in fn.args.args]
    defaults = [ast.unparse(x) for x in fn.args.defaults]
    if (t == "if isinstance(value, Undefined) or (boolean and (not value)): /     return default_value ;; return value"
            and args == ["value", "default_value", "boolean"] and defaults == ["''", "False"]):
        return "DUndefinedOrFalsy"
    raise TranslateError(f"do_default: unknown shape {t} {args} {defaults}")


def translate(src_dir):
    rt = ast.parse(open(os.path.join(src_dir, "jinja2", "runtime.py")).read())
    known = {}
    parents = {}
    logging_def = None
    for n in rt.body:
        if isinstance(n, ast.ClassDef) and n.name in BASES:
            bases = [ast.unparse(b) for b in n.bases]
            if n.name == "Undefined":
                if bases:
                    raise TranslateError(f"Undefined has bases {bases}")
                parents[n.name] = None
            else:
                if len(bases) != 1 or bases[0] not in known:
                    raise TranslateError(f"{n.name}: bases {bases}")
                parents[n.name] = bases[0]
            known[n.name] = class_table(n, known)
        if isinstance(n, ast.FunctionDef) and n.name == "make_logging_undefined":
            cds = [m for m in n.body if isinstance(m, ast.ClassDef)]
            if len(cds) != 1 or [ast.unparse(b) for b in cds[0].bases] != ["base"]:
                raise TranslateError("make_logging_undefined: expected one class deriving from `base`")
            args = [a.arg for a in n.args.args]
            if args != ["logger", "base"]:
                raise TranslateError(f"make_logging_undefined parameters {args}")
            ret = [m for m in n.body if isinstance(m, ast.Return)]
            if len(ret) != 1 or ast.unparse(ret[0]) != f"return {cds[0].name}":
                raise TranslateError("make_logging_undefined does not return its class")
            lm = [m for m in n.body if isinstance(m, ast.FunctionDef) and m.name == "_log_message"]
            if len(lm) != 1 or _u(_body(lm[0])) != "logger.warning('Template variable warning: %s', undef._undefined_message)":
                raise TranslateError("_log_message shape")
            logging_def = cds[0]
    uses_escape = any(k == "KEscStrOfSelf" for tab in known.values() for k, _ in tab.values())
    imports = [ast.unparse(n) for n in rt.body if isinstance(n, ast.ImportFrom) and any(a.name == "escape" for a in n.names)]
    if uses_escape and not any(i.startswith("from markupsafe import") for i in imports):
        raise TranslateError(f"`escape` is not markupsafe's: {imports}")
    if set(known) != set(BASES) or logging_def is None:
        raise TranslateError(f"classes found: {sorted(known)}")
    logging_tab = class_table(logging_def, known, in_logging=True)

    ts = ast.parse(open(os.path.join(src_dir, "jinja2", "tests.py")).read())
    fl = ast.parse(open(os.path.join(src_dir, "jinja2", "filters.py")).read())
    fns = {n.name: n for n in ts.body if isinstance(n, ast.FunctionDef)}
    ffs = {n.name: n for n in fl.body if isinstance(n, ast.FunctionDef)}
    for need, where in (("test_defined", fns), ("test_undefined", fns), ("do_default", ffs)):
        if need not in where:
            raise TranslateError(f"{need} not found")
    facts = {"test_defined": test_kind(fns["test_defined"]), "test_undefined": test_kind(fns["test_undefined"]),
             "do_default": default_kind(ffs["do_default"])}

    # function identities -> numbers
    fids = {}

    def fid(key):
        return fids.setdefault(key, len(fids) + 1)

    classes = []  # (coq cname, parent coq cname or None, local, [(name, kind, fid)])
    for cn in ("Undefined", "ChainableUndefined", "DebugUndefined", "StrictUndefined"):
        rows = [(m, k, fid(fk)) for m, (k, fk) in known[cn].items()]
        p = parents[cn]
        classes.append((f"(Named {BASES[cn]})", None if p is None else f"(Named {BASES[p]})", False, rows))
    for cn in ("Undefined", "ChainableUndefined", "DebugUndefined", "StrictUndefined"):
        rows = [(m, k, fid((f"Logging[{cn}]", fk[1]) if fk[0] == logging_def.name else fk)) for m, (k, fk) in logging_tab.items()]
        classes.append((f"(Logging {BASES[cn]})", f"(Named {BASES[cn]})", True, rows))
    return {"classes": classes, "facts": facts}


def coq_text(tr, module_comment="regenerated from /repo"):
    out = [f"(* {module_comment} -- do not edit *)",
           "From Coq Require Import List NArith Bool.", "Import ListNotations.",
           "From JV Require Import Model.Undef.", "Open Scope N_scope.", ""]
    out.append("Definition tables : tables := [")
    rows = []
    for cname, parent, local, meths in tr["classes"]:
        ms = ";\n      ".join(
            f"({COQ_NAME.get(m, 'm_other')}, mkM {k} {f})" for m, k, f in meths)
        rows.append(f"  ({cname}, mkC {('(Some ' + parent + ')') if parent else 'None'} {'true' if local else 'false'} [\n      {ms}])")
    out.append(";\n".join(rows))
    out.append("].")
    f = tr["facts"]
    out.append(f"Definition facts : facts := mkF {f['test_defined']} {f['test_undefined']} {f['do_default']}.")
    ids = " /\\ ".join(f"{COQ_NAME[n]} = {i}" for i, n in enumerate(NAMES))
    out.append(f"Example name_ids_agree : {ids}.\nProof. repeat split; reflexivity. Qed.")
    return "\n".join(out) + "\n"


KIND_CODE = {"KFail": "Fail", "KFailLogged": "FailLogged", "KGetattrFail": "GetattrFail", "KGetattrSelf": "GetattrSelf",
             "KRetSelf": "RetSelf", "KEqType": "EqType", "KNeNotEq": "NeNotEq", "KHashType": "HashType",
             "KIterEmpty": "IterEmpty", "KDebugStr": "DebugStr", "KStrOfSelf": "StrOfSelf", "KEscStrOfSelf": "EscStrOfSelf", "KHashNone": "HashNone",
             "KInit": "Init", "KMessage": "Message", "KAiterEmpty": "AiterEmpty", "KOther": "Other"}


def driver_lines(tr):
    """table lines for ocaml/driver_undef.ml:  C <cls> <parent|-> <local> name:kind:fid ..."""
    def cn(c):
        return c.strip("()").replace("Named ", "N").replace("Logging ", "L")
    lines = []
    for cname, parent, local, meths in tr["classes"]:
        ms = []
        for m, k, f in meths:
            if k.startswith("(KRetConst"):
                kc = "Const" + k.split()[1].rstrip(")")
            elif k.startswith("(KLogSuper"):
                kc = "LogSuper" + str(NAME_ID[[n for n, c in COQ_NAME.items() if c == k.split()[1].rstrip(")")][0]])
            else:
                kc = KIND_CODE[k]
            ms.append(f"{NAME_ID.get(m, 0)}:{kc}:{f}")
        lines.append(f"C {cn(cname)} {cn(parent) if parent else '-'} {1 if local else 0} " + " ".join(ms))
    f = tr["facts"]
    lines.append(f"F {f['test_defined']} {f['test_undefined']} {f['do_default']}")
    return lines


if __name__ == "__main__":
    import sys
    src = sys.argv[1] if len(sys.argv) > 1 else "/repo/src"
    tr = translate(src)
    if len(sys.argv) > 2 and sys.argv[2] == "--driver":
        print("\n".join(driver_lines(tr)))
    else:
        print(coq_text(tr, "snapshot of the class tables of /repo (gen/undef_tables.py); the check regenerates them on every run"))
