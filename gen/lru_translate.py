"""T5 translator for jinja2.utils.LRUCache: turns the CURRENT source of the methods
__getitem__, __setitem__, __delitem__, clear, __contains__, __len__, get, setdefault into terms
of the deep embedding Lib/PyLru.v and emits the equations  interpreted term = Model.LRU function
(for every state and argument) together with the fact that each operation the concurrent claim
covers runs entirely inside `with self._wlock:`.  Fail-closed: any construct outside the
vocabulary raises Untranslatable."""
import ast
import os


class Untranslatable(Exception):
    pass


def is_self_attr(n, attr):
    return isinstance(n, ast.Attribute) and isinstance(n.value, ast.Name) and n.value.id == "self" and n.attr == attr


def q(s):
    return '"%s"' % s


def expr(n):
    if isinstance(n, ast.Name):
        return f"(EVar {q(n.id)})"
    if isinstance(n, ast.Constant) and n.value is None:
        return "ENone"
    if isinstance(n, ast.Subscript):
        if is_self_attr(n.value, "_mapping"):
            return f"(EMapGet {expr(n.slice)})"
        if is_self_attr(n.value, "_queue"):
            s = n.slice
            if isinstance(s, ast.UnaryOp) and isinstance(s.op, ast.USub) and isinstance(s.operand, ast.Constant) and s.operand.value == 1:
                return "EQLast"
            raise Untranslatable("queue index " + ast.unparse(n))
        if isinstance(n.value, ast.Name) and n.value.id == "self":
            return f"(ESelfGet {expr(n.slice)})"
    if isinstance(n, ast.Compare) and len(n.ops) == 1:
        op, a, b = n.ops[0], n.left, n.comparators[0]
        if isinstance(op, ast.In) and is_self_attr(b, "_mapping"):
            return f"(EMapContains {expr(a)})"
        if isinstance(op, ast.Eq):
            return f"(EEq {expr(a)} {expr(b)})"
        if isinstance(op, ast.NotEq):
            return f"(ENe {expr(a)} {expr(b)})"
    if isinstance(n, ast.Call) and not n.keywords:
        if isinstance(n.func, ast.Name) and n.func.id == "len" and len(n.args) == 1 and is_self_attr(n.args[0], "_mapping"):
            return "EMapLen"
        if is_self_attr(n.func, "_popleft") and not n.args:
            return "EQPopleft"
    if is_self_attr(n, "capacity"):
        return "ECap"
    raise Untranslatable("expression " + ast.unparse(n))


EXN = {"KeyError": "KeyError", "IndexError": "IndexError", "ValueError": "ValueErr"}


def stmts(body):
    out = []
    for st in body:
        t = stmt(st)
        if t is not None:
            out.append(t)
    return "[" + "; ".join(out) + "]"


def stmt(st):
    if isinstance(st, ast.Expr) and isinstance(st.value, ast.Constant) and isinstance(st.value.value, str):
        return None                                   # docstring
    if isinstance(st, ast.Pass):
        return "SPass"
    if isinstance(st, ast.Return):
        return f"(SReturn {expr(st.value) if st.value is not None else 'ENone'})"
    if isinstance(st, ast.Assign) and len(st.targets) == 1:
        tg = st.targets[0]
        if isinstance(tg, ast.Name):
            return f"(SAssign {q(tg.id)} {expr(st.value)})"
        if isinstance(tg, ast.Subscript) and is_self_attr(tg.value, "_mapping"):
            return f"(SMapSet {expr(tg.slice)} {expr(st.value)})"
        if isinstance(tg, ast.Subscript) and isinstance(tg.value, ast.Name) and tg.value.id == "self":
            return f"(SSelfSet {expr(tg.slice)} {expr(st.value)})"
    if isinstance(st, ast.Delete) and len(st.targets) == 1:
        tg = st.targets[0]
        if isinstance(tg, ast.Subscript) and is_self_attr(tg.value, "_mapping"):
            return f"(SMapDel {expr(tg.slice)})"
    if isinstance(st, ast.If):
        return f"(SIf {expr(st.test)} {stmts(st.body)} {stmts(st.orelse)})"
    if isinstance(st, ast.Try) and len(st.handlers) == 1 and not st.orelse and not st.finalbody:
        h = st.handlers[0]
        if isinstance(h.type, ast.Name) and h.type.id in EXN and h.name is None:
            return f"(STry {stmts(st.body)} {EXN[h.type.id]} {stmts(h.body)})"
    if isinstance(st, ast.Expr) and isinstance(st.value, ast.Call) and not st.value.keywords:
        c = st.value
        if is_self_attr(c.func, "_remove") and len(c.args) == 1:
            return f"(SQRemove {expr(c.args[0])})"
        if is_self_attr(c.func, "_append") and len(c.args) == 1:
            return f"(SQAppend {expr(c.args[0])})"
        if isinstance(c.func, ast.Attribute) and c.func.attr == "clear" and not c.args:
            if is_self_attr(c.func.value, "_mapping"):
                return "SMapClear"
            if is_self_attr(c.func.value, "_queue"):
                return "SQClear"
    raise Untranslatable("statement " + ast.unparse(st)[:80])


METHODS = ["__getitem__", "__setitem__", "__delitem__", "clear", "__contains__", "__len__", "get", "setdefault"]


def translate(src_root):
    tree = ast.parse(open(os.path.join(src_root, "jinja2", "utils.py")).read())
    cls = [n for n in tree.body if isinstance(n, ast.ClassDef) and n.name == "LRUCache"]
    if len(cls) != 1:
        raise Untranslatable("class LRUCache not found")
    funcs = {n.name: n for n in cls[0].body if isinstance(n, ast.FunctionDef)}
    # the aliases set up in _postinit must still be the deque's own bound methods
    post = ast.unparse(funcs["_postinit"])
    for need in ("self._popleft = self._queue.popleft", "self._remove = self._queue.remove",
                 "self._append = self._queue.append", "self._wlock = Lock()"):
        if need not in post:
            raise Untranslatable("_postinit no longer contains: " + need)
    bodies, locked, params = {}, {}, {}
    for m in METHODS:
        if m not in funcs:
            raise Untranslatable("method missing: " + m)
        f = funcs[m]
        body = [s for s in f.body if not (isinstance(s, ast.Expr) and isinstance(s.value, ast.Constant))]
        is_locked = (len(body) == 1 and isinstance(body[0], ast.With) and len(body[0].items) == 1
                     and is_self_attr(body[0].items[0].context_expr, "_wlock") and body[0].items[0].optional_vars is None)
        if is_locked:
            body = body[0].body
        else:
            for s in ast.walk(f):
                if isinstance(s, ast.With):
                    raise Untranslatable(f"{m}: a with statement that is not the whole body")
        locked[m] = is_locked
        bodies[m] = stmts(body)
        params[m] = [a.arg for a in f.args.args[1:]]
        defaults = [ast.unparse(d) for d in f.args.defaults]
        if any(d != "None" for d in defaults):
            raise Untranslatable(f"{m}: default other than None")
    return bodies, locked, params


COQ = r'''(* regenerated from %(root)s/jinja2/utils.py by gen/lru_translate.py — do not edit *)
From Coq Require Import List NArith Bool String.
Import ListNotations.
From JV Require Import Model.LRU Lib.PyLru.
Open Scope N_scope. Open Scope string_scope.

Definition nocall_get (s : lru) (k : key) : lru * out := (s, ONone).
Definition nocall_set (s : lru) (k : key) (v : val) : lru * out := (s, ONone).

Definition body_getitem : list stmt := %(__getitem__)s.
Definition body_setitem : list stmt := %(__setitem__)s.
Definition body_delitem : list stmt := %(__delitem__)s.
Definition body_clear : list stmt := %(clear)s.
Definition body_contains : list stmt := %(__contains__)s.
Definition body_len : list stmt := %(__len__)s.
Definition body_get : list stmt := %(get)s.
Definition body_setdefault : list stmt := %(setdefault)s.

Definition run0 (b : list stmt) (en : env) (s : lru) := call nocall_get nocall_set b en s.
Definition gen_getitem (s : lru) (k : key) : lru * out :=
  let '(s', f) := run0 body_getitem [("%(p_getitem)s", VN k)] s in (s', out_val f).
Definition gen_setitem (s : lru) (k : key) (v : val) : lru * out :=
  let '(s', f) := run0 body_setitem [("%(p_setitem_k)s", VN k); ("%(p_setitem_v)s", VN v)] s in (s', out_val f).
Definition run1 (b : list stmt) (en : env) (s : lru) := call gen_getitem gen_setitem b en s.

Ltac crunch :=
  repeat (cbn [call execs exec eval env_get String.eqb Ascii.eqb Bool.eqb as_key as_bool veq out_val out_len fst snd
               cap mapping queue negb lookup] in *;
          match goal with
          | |- context [match ?x with _ => _ end] =>
              match x with
              | context [match _ with _ => _ end] => fail 1
              | _ => destruct x eqn:?
              end
          end);
  cbn [call execs exec eval env_get String.eqb Ascii.eqb Bool.eqb as_key as_bool veq out_val out_len fst snd
       cap mapping queue negb lookup] in *;
  try reflexivity; try congruence.

Theorem getitem_source_eq_model : forall s k, gen_getitem s k = getitem s k.
Proof.
  intros s k. unfold gen_getitem, run0, body_getitem, getitem. crunch.
  all: try (rewrite N.eqb_sym in *; crunch).
  all: try (destruct s; reflexivity).
Qed.

Theorem setitem_source_eq_model : forall s k v, gen_setitem s k v = setitem s k v.
Proof.
  intros s k v. unfold gen_setitem, run0, body_setitem, setitem. crunch.
  all: try (destruct s; reflexivity).
Qed.

Theorem delitem_source_eq_model : forall s k,
  (let '(s', f) := run0 body_delitem [("%(p_delitem)s", VN k)] s in (s', out_val f)) = delitem s k.
Proof. intros s k. unfold run0, body_delitem, delitem. crunch. all: try (destruct s; reflexivity). Qed.

Theorem clear_source_eq_model : forall s,
  (let '(s', f) := run0 body_clear [] s in (s', out_val f)) = clear s.
Proof. intros s. unfold run0, body_clear, clear. crunch. Qed.

Theorem contains_source_eq_model : forall s k,
  (let '(s', f) := run0 body_contains [("%(p_contains)s", VN k)] s in (s', out_val f)) = contains s k.
Proof. intros s k. unfold run0, body_contains, contains. crunch. Qed.

Theorem len_source_eq_model : forall s,
  (let '(s', f) := run0 body_len [] s in (s', out_len f)) = len s.
Proof. intros s. unfold run0, body_len, len. crunch. Qed.

Lemma getitem_shape s k : match snd (getitem s k) with OVal _ | OExn _ => True | _ => False end.
Proof.
  unfold getitem. destruct (lookup k (mapping s)); [|exact I].
  destruct (rev (queue s)); [exact I|]. destruct (N.eqb _ _); exact I.
Qed.
Lemma setitem_shape s k v : match snd (setitem s k v) with ONone | OExn _ => True | _ => False end.
Proof.
  unfold setitem. destruct (lookup k (mapping s)).
  - destruct (qremove k (queue s)); exact I.
  - destruct (N.eqb _ _); [|exact I]. destruct (queue s); [exact I|]. destruct (lookup _ _); exact I.
Qed.

Theorem get_source_eq_model : forall s k d,
  (let '(s', f) := run1 body_get [("%(p_get_k)s", VN k); ("%(p_get_d)s", VN d)] s in (s', out_val f)) = get s k d.
Proof.
  intros s k d. unfold run1, body_get, get. cbn [call execs exec eval env_get String.eqb Ascii.eqb Bool.eqb as_key].
  rewrite getitem_source_eq_model. pose proof (getitem_shape s k) as Hs.
  destruct (getitem s k) as [s1 o]. cbn [snd] in Hs. destruct o as [| | | | | | |[]]; try contradiction; reflexivity.
Qed.

Theorem setdefault_source_eq_model : forall s k d,
  (let '(s', f) := run1 body_setdefault [("%(p_sd_k)s", VN k); ("%(p_sd_d)s", VN d)] s in (s', out_val f)) = setdefault s k d.
Proof.
  intros s k d. unfold run1, body_setdefault, setdefault. cbn [call execs exec eval env_get String.eqb Ascii.eqb Bool.eqb as_key].
  rewrite getitem_source_eq_model. pose proof (getitem_shape s k) as Hs.
  destruct (getitem s k) as [s1 o]. cbn [snd] in Hs. destruct o as [| | | | | | |[]]; try contradiction; try reflexivity.
  cbn [call execs exec eval env_get String.eqb Ascii.eqb Bool.eqb as_key].
  rewrite setitem_source_eq_model. pose proof (setitem_shape s1 k d) as Ht.
  destruct (setitem s1 k d) as [s2 o2]. cbn [snd] in Ht. destruct o2 as [| | | | | | |[]]; try contradiction; reflexivity.
Qed.

(* every operation of the concurrent claim runs entirely inside `with self._wlock:` *)
Definition locked_methods : list (string * bool) := [%(locked)s].
Theorem concurrent_ops_locked :
  forallb (fun m => match find (fun p => String.eqb (fst p) m) locked_methods with Some (_, true) => true | _ => false end)
          ["__getitem__"; "__setitem__"; "__delitem__"; "clear"; "__contains__"] = true.
Proof. vm_compute. reflexivity. Qed.

Print Assumptions getitem_source_eq_model.
Print Assumptions setitem_source_eq_model.
Print Assumptions setdefault_source_eq_model.
'''


def emit(src_root):
    bodies, locked, params = translate(src_root)
    d = dict(bodies)
    d["root"] = src_root
    d["p_getitem"] = params["__getitem__"][0]
    d["p_setitem_k"], d["p_setitem_v"] = params["__setitem__"]
    d["p_delitem"] = params["__delitem__"][0]
    d["p_contains"] = params["__contains__"][0]
    d["p_get_k"], d["p_get_d"] = params["get"]
    d["p_sd_k"], d["p_sd_d"] = params["setdefault"]
    d["locked"] = "; ".join('("%s", %s)' % (m, "true" if v else "false") for m, v in locked.items())
    return COQ % d


if __name__ == "__main__":
    import sys
    print(emit(sys.argv[1] if len(sys.argv) > 1 else "/repo/src"))
