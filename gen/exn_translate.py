"""T5-style translator tie for the C09 / C38 runtime helpers (second round).

Turns the CURRENT source of
  A: jinja2.async_utils.auto_await, auto_aiter, auto_to_list, _IteratorToAsyncIterator.__anext__
  B: jinja2.runtime.Context.call; the try/except of Template.render, render_async, generate,
     generate_async; Environment.handle_exception; debug.rewrite_traceback_stack's return shape
into terms of the deep embeddings of coq/theories/Lib/PyAsyExn.v and emits the equations
`interpreted current source = model function` for every input.  Fail-closed: any construct
outside the vocabulary raises Untranslatable (the check reports a broken obligation).
"""
import ast
import os


class Untranslatable(Exception):
    pass


def q(s):
    return '"%s"' % s


def _strip_doc(body):
    return [s for s in body if not (isinstance(s, ast.Expr) and isinstance(s.value, ast.Constant) and isinstance(s.value.value, str))]


def _uncast(n):
    """t.cast(T, x) -> x"""
    while (isinstance(n, ast.Call) and isinstance(n.func, ast.Attribute) and n.func.attr == "cast"
           and isinstance(n.func.value, ast.Name) and n.func.value.id == "t" and len(n.args) == 2):
        n = n.args[1]
    return n


# ------------------------------------------------------------------ part A
def a_expr(n):
    n = _uncast(n)
    if isinstance(n, ast.Name):
        return f"(A.EVar {q(n.id)})"
    if isinstance(n, ast.Await):
        return f"(A.EAwait {a_expr(n.value)})"
    if isinstance(n, ast.Compare) and len(n.ops) == 1 and isinstance(n.ops[0], ast.In):
        l, r = n.left, n.comparators[0]
        if (isinstance(l, ast.Call) and getattr(l.func, "id", "") == "type" and len(l.args) == 1
                and isinstance(r, ast.Name) and r.id == "_common_primitives"):
            return f"(A.ETypeInPrims {a_expr(l.args[0])})"
    if isinstance(n, ast.Call) and not n.keywords:
        f = n.func
        if isinstance(f, ast.Attribute) and isinstance(f.value, ast.Name) and f.value.id == "inspect" and f.attr == "isawaitable" and len(n.args) == 1:
            return f"(A.EIsAwaitable {a_expr(n.args[0])})"
        if isinstance(f, ast.Name) and f.id == "hasattr" and len(n.args) == 2 and isinstance(n.args[1], ast.Constant):
            obj = n.args[0]
            # hasattr(type(x), name): the protocol looked up on the type, as `async for` does; the embedding's values
            # do not distinguish instance and type attributes
            if isinstance(obj, ast.Call) and isinstance(obj.func, ast.Name) and obj.func.id == "type" and len(obj.args) == 1 and not obj.keywords:
                obj = obj.args[0]
            return f"(A.EHasAttr {a_expr(obj)} {q(n.args[1].value)})"
        if isinstance(f, ast.Name) and f.id == "iter" and len(n.args) == 1:
            return f"(A.EIter {a_expr(n.args[0])})"
        if isinstance(f, ast.Name) and f.id == "_IteratorToAsyncIterator" and len(n.args) == 1:
            return f"(A.EWrapIter {a_expr(n.args[0])})"
        if isinstance(f, ast.Name) and f.id == "auto_aiter" and len(n.args) == 1:
            return f"(A.EAutoAiter {a_expr(n.args[0])})"
        if (isinstance(f, ast.Name) and f.id == "next" and len(n.args) == 1 and isinstance(n.args[0], ast.Attribute)
                and getattr(n.args[0].value, "id", "") == "self" and n.args[0].attr == "_iterator"):
            return "A.ENextSelfIterator"
        if isinstance(f, ast.Attribute) and not n.args:
            return f"(A.ECallMeth {a_expr(f.value)} {q(f.attr)})"
    if isinstance(n, ast.ListComp) and len(n.generators) == 1:
        g = n.generators[0]
        if g.is_async and not g.ifs and isinstance(g.target, ast.Name) and isinstance(n.elt, ast.Name) and n.elt.id == g.target.id:
            return f"(A.EAsyncListComp {a_expr(g.iter)})"
    raise Untranslatable("async_utils expression: " + ast.unparse(n)[:80])


A_EXN = {"StopIteration": "A.StopIter", "StopAsyncIteration": "A.StopAsyncIter", "TypeError": "A.TypeErr"}


def a_stmts(body):
    return "[" + "; ".join(a_stmt(s) for s in _strip_doc(body)) + "]"


def a_stmt(s):
    if isinstance(s, ast.If):
        return f"(A.SIf {a_expr(s.test)} {a_stmts(s.body)} {a_stmts(s.orelse)})"
    if isinstance(s, ast.Return) and s.value is not None:
        return f"(A.SReturn {a_expr(s.value)})"
    if isinstance(s, ast.Try) and len(s.handlers) == 1 and not s.orelse and not s.finalbody:
        h = s.handlers[0]
        if isinstance(h.type, ast.Name) and h.type.id in A_EXN:
            return f"(A.STry {a_stmts(s.body)} {A_EXN[h.type.id]} {a_stmts(h.body)})"
    if isinstance(s, ast.Raise) and s.exc is not None:
        e = s.exc.func if isinstance(s.exc, ast.Call) else s.exc
        if isinstance(e, ast.Name) and e.id in A_EXN:
            return f"(A.SRaise {A_EXN[e.id]})"
    raise Untranslatable("async_utils statement: " + ast.unparse(s)[:80])


def translate_a(src_root):
    tree = ast.parse(open(os.path.join(src_root, "jinja2", "async_utils.py")).read())
    fns = {n.name: n for n in tree.body if isinstance(n, (ast.FunctionDef, ast.AsyncFunctionDef))}
    cls = [n for n in tree.body if isinstance(n, ast.ClassDef) and n.name == "_IteratorToAsyncIterator"]
    if len(cls) != 1:
        raise Untranslatable("class _IteratorToAsyncIterator not found")
    meth = {n.name: n for n in cls[0].body if isinstance(n, (ast.FunctionDef, ast.AsyncFunctionDef))}
    # the facts the interpreter's primitives rest on
    prims = [n for n in tree.body if isinstance(n, ast.Assign) and getattr(n.targets[0], "id", "") == "_common_primitives"]
    if len(prims) != 1 or not isinstance(prims[0].value, ast.Set):
        raise Untranslatable("_common_primitives is not a set literal")
    names = {ast.unparse(e) for e in prims[0].value.elts}
    allowed = {"int", "float", "bool", "str", "list", "dict", "tuple", "type(None)"}
    if not {"int", "list"} <= names or not names <= allowed:
        raise Untranslatable("_common_primitives changed: " + ", ".join(sorted(names)))
    if ast.unparse(_strip_doc(meth["__init__"].body)[0]) != "self._iterator = iterator" or len(_strip_doc(meth["__init__"].body)) != 1:
        raise Untranslatable("_IteratorToAsyncIterator.__init__ changed")
    if [ast.unparse(s) for s in _strip_doc(meth["__aiter__"].body)] != ["return self"]:
        raise Untranslatable("_IteratorToAsyncIterator.__aiter__ changed")
    for name, want_async in (("auto_await", True), ("auto_aiter", False), ("auto_to_list", True)):
        if name not in fns or isinstance(fns[name], ast.AsyncFunctionDef) != want_async:
            raise Untranslatable(f"{name}: missing or sync/async kind changed")
    if not isinstance(meth["__anext__"], ast.AsyncFunctionDef):
        raise Untranslatable("__anext__ is not async")
    d = {
        "auto_await": a_stmts(fns["auto_await"].body), "p_auto_await": fns["auto_await"].args.args[0].arg,
        "auto_aiter": a_stmts(fns["auto_aiter"].body), "p_auto_aiter": fns["auto_aiter"].args.args[0].arg,
        "auto_to_list": a_stmts(fns["auto_to_list"].body), "p_auto_to_list": fns["auto_to_list"].args.args[0].arg,
        "anext": a_stmts(meth["__anext__"].body),
    }
    return d


COQ_A = r'''(* regenerated from %(root)s/jinja2/async_utils.py by gen/exn_translate.py - do not edit *)
From Coq Require Import List ZArith Bool String.
Import ListNotations.
From JV Require Import Model.Asy Lib.PyAsyExn.
Open Scope string_scope.

Definition body_auto_await : list A.stmt := %(auto_await)s.
Definition body_auto_aiter : list A.stmt := %(auto_aiter)s.
Definition body_auto_to_list : list A.stmt := %(auto_to_list)s.
Definition body_anext : list A.stmt := %(anext)s.

Definition no_sibling (v : A.pval) : A.pval + A.pexn := inr A.TypeErr.
Definition result (r : list Z * A.flow) : A.pval + A.pexn :=
  match snd r with A.Ret v => inl v | A.Raise x => inr x | A.Fall => inr A.TypeErr end.

Definition gen_auto_aiter (v : A.pval) : A.pval + A.pexn :=
  result (A.execs no_sibling body_auto_aiter [("%(p_auto_aiter)s", v)] []).

(* await auto_await(v) is the Await step of the Asy model, for every value *)
Theorem auto_await_source_eq_model : forall v : val,
  result (A.execs no_sibling body_auto_await [("%(p_auto_await)s", A.V v)] []) = inl (A.V (A.auto_await_m v)).
Proof. intros [z|[|] l|c]; reflexivity. Qed.

Theorem auto_aiter_source_eq_model : forall v : A.pval, gen_auto_aiter v = A.auto_aiter_m v.
Proof. intros [[z|[|] l|c]|l|l|l|z|b]; reflexivity. Qed.

Theorem auto_to_list_source_eq_model : forall v : A.pval,
  result (A.execs gen_auto_aiter body_auto_to_list [("%(p_auto_to_list)s", v)] []) = A.auto_to_list_m v.
Proof. intros [[z|[|] l|c]|l|l|l|z|b]; reflexivity. Qed.

Theorem anext_source_eq_model : forall l : list Z, A.execs no_sibling body_anext [] l = A.anext_m l.
Proof. intros [|x r]; reflexivity. Qed.

Print Assumptions auto_await_source_eq_model.
Print Assumptions auto_aiter_source_eq_model.
Print Assumptions auto_to_list_source_eq_model.
Print Assumptions anext_source_eq_model.
'''


def emit_a(src_root):
    d = translate_a(src_root)
    d["root"] = src_root
    return COQ_A % d


# ------------------------------------------------------------------ part B
NAMES = {"__self": "self", "__obj": "obj", "args": "args", "kwargs": "kwargs", "pass_arg": "pass_arg"}
PASS = {"context": "B.PCtx", "eval_context": "B.PEval", "environment": "B.PEnv"}
B_CLS = {"StopIteration": "(Exn.B E_StopIteration)", "Exception": "(Exn.B E_Exception)", "BaseException": "(Exn.B E_BaseException)"}


def _is_name(n, name):
    return isinstance(n, ast.Name) and n.id == name


def b_expr(n):
    if isinstance(n, ast.Name) and n.id in NAMES:
        return f"(B.EVar {q(NAMES[n.id])})"
    if isinstance(n, ast.Constant) and n.value is None:
        return "B.ENone"
    if isinstance(n, ast.Attribute):
        if _is_name(n.value, "_PassArg") and n.attr in PASS:
            return f"(B.EPassConst {PASS[n.attr]})"
        if n.attr == "__call__":
            return f"(B.EAttrCall {b_expr(n.value)})"
        if _is_name(n.value, "__self") and n.attr == "eval_ctx":
            return "B.ESelfEvalCtx"
        if _is_name(n.value, "__self") and n.attr == "environment":
            return "B.ESelfEnvironment"
    if isinstance(n, ast.BoolOp) and isinstance(n.op, ast.And) and len(n.values) == 2:
        return f"(B.EAnd {b_expr(n.values[0])} {b_expr(n.values[1])})"
    if isinstance(n, ast.Compare) and len(n.ops) == 1:
        a, b = n.left, n.comparators[0]
        if isinstance(n.ops[0], ast.Is):
            return f"(B.EIs {b_expr(a)} {b_expr(b)})"
        if isinstance(n.ops[0], ast.IsNot):
            return f"(B.EIsNot {b_expr(a)} {b_expr(b)})"
    if isinstance(n, ast.Subscript) and _is_name(n.value, "kwargs") and isinstance(n.slice, ast.Constant):
        return f"(B.EKwItem {q(n.slice.value)})"
    if isinstance(n, ast.BinOp) and isinstance(n.op, ast.Add) and isinstance(n.left, ast.Tuple) and len(n.left.elts) == 1:
        return f"(B.ETupCons {b_expr(n.left.elts[0])} {b_expr(n.right)})"
    if isinstance(n, ast.Call):
        f = n.func
        if _is_name(f, "hasattr") and len(n.args) == 2 and isinstance(n.args[1], ast.Constant) and n.args[1].value == "__call__" and not n.keywords:
            return f"(B.EHasAttrCall {b_expr(n.args[0])})"
        if isinstance(f, ast.Attribute) and _is_name(f.value, "_PassArg") and f.attr == "from_obj" and len(n.args) == 1 and not n.keywords:
            return f"(B.EFromObj {b_expr(n.args[0])})"
        if isinstance(f, ast.Attribute) and _is_name(f.value, "kwargs") and f.attr == "get" and len(n.args) == 1 and isinstance(n.args[0], ast.Constant):
            return f"(B.EKwGet {q(n.args[0].value)})"
        if isinstance(f, ast.Attribute) and f.attr == "derived" and len(n.args) == 1 and not n.keywords:
            return f"(B.EDerived {b_expr(f.value)} {b_expr(n.args[0])})"
        if (isinstance(f, ast.Attribute) and f.attr == "undefined" and isinstance(f.value, ast.Attribute) and f.value.attr == "environment"
                and _is_name(f.value.value, "__self") and all(isinstance(a, ast.Constant) for a in n.args) and not n.keywords):
            return "B.EUndefined"
        if (_is_name(f, "__obj") and len(n.args) == 1 and isinstance(n.args[0], ast.Starred) and _is_name(n.args[0].value, "args")
                and len(n.keywords) == 1 and n.keywords[0].arg is None and _is_name(n.keywords[0].value, "kwargs")):
            return '(B.ECallObj (B.EVar "obj") (B.EVar "args") (B.EVar "kwargs"))'
    raise Untranslatable("Context.call expression: " + ast.unparse(n)[:80])


def b_stmts(body):
    out = []
    for s in _strip_doc(body):
        t = b_stmt(s)
        if t is not None:
            out.append(t)
    return "[" + "; ".join(out) + "]"


def b_stmt(s):
    if isinstance(s, ast.If) and _is_name(s.test, "__debug__"):
        # `if __debug__: __traceback_hide__ = True` : a marker local for the traceback rewriter
        if len(s.body) == 1 and ast.unparse(s.body[0]) == "__traceback_hide__ = True" and not s.orelse:
            return None
        raise Untranslatable("unexpected `if __debug__` body")
    if isinstance(s, ast.Assign) and len(s.targets) == 1 and isinstance(s.targets[0], ast.Name) and s.targets[0].id in NAMES:
        return f"(B.SAssign {q(NAMES[s.targets[0].id])} {b_expr(s.value)})"
    if isinstance(s, ast.If):
        return f"(B.SIf {b_expr(s.test)} {b_stmts(s.body)} {b_stmts(s.orelse)})"
    if isinstance(s, ast.Expr) and isinstance(s.value, ast.Call):
        c = s.value
        if (isinstance(c.func, ast.Attribute) and _is_name(c.func.value, "kwargs") and c.func.attr == "pop" and len(c.args) == 2
                and isinstance(c.args[0], ast.Constant) and isinstance(c.args[1], ast.Constant) and c.args[1].value is None):
            return f"(B.SKwPop {q(c.args[0].value)})"
    if isinstance(s, ast.Return) and s.value is not None:
        return f"(B.SReturn {b_expr(s.value)})"
    if isinstance(s, ast.Try) and len(s.handlers) == 1 and not s.orelse and not s.finalbody:
        h = s.handlers[0]
        if isinstance(h.type, ast.Name) and h.type.id in B_CLS and h.name is None:
            return f"(B.STry {b_stmts(s.body)} {B_CLS[h.type.id]} {b_stmts(h.body)})"
    raise Untranslatable("Context.call statement: " + ast.unparse(s)[:80])


def _entry(fn, where):
    """the try/except of an entry point -> (catch classes, handler form, calls handle_exception)"""
    tries = [n for n in ast.walk(fn) if isinstance(n, ast.Try)]
    if len(tries) != 1:
        raise Untranslatable(f"{where}: expected exactly one try statement, found {len(tries)}")
    t = tries[0]
    if len(t.handlers) != 1 or t.orelse or t.finalbody:
        raise Untranslatable(f"{where}: try statement is not `try / except <one clause>`")
    h = t.handlers[0]
    if h.type is None:
        classes = ["BaseException"]
    elif isinstance(h.type, ast.Name):
        classes = [h.type.id]
    elif isinstance(h.type, ast.Tuple) and all(isinstance(e, ast.Name) for e in h.type.elts):
        classes = [e.id for e in h.type.elts]
    else:
        raise Untranslatable(f"{where}: except expression {ast.unparse(h.type)}")
    for c in classes:
        if c not in B_CLS:
            raise Untranslatable(f"{where}: except class {c}")
    if len(h.body) != 1:
        raise Untranslatable(f"{where}: handler has {len(h.body)} statements")
    st = h.body[0]
    if isinstance(st, ast.Expr) and isinstance(st.value, ast.Yield):
        form, call = "B.HYield", st.value.value
    elif isinstance(st, ast.Expr):
        form, call = "B.HExpr", st.value
    elif isinstance(st, ast.Return):
        form, call = "B.HReturn", st.value
    else:
        raise Untranslatable(f"{where}: handler statement {ast.unparse(st)[:60]}")
    calls = isinstance(call, ast.Call) and ast.unparse(call) == "self.environment.handle_exception()"
    return "{| B.en_catch := [" + "; ".join(B_CLS[c] for c in classes) + f"]; B.en_form := {form}; B.en_calls_handle_exception := {'true' if calls else 'false'} |}}"


def translate_b(src_root):
    d = {}
    rt = ast.parse(open(os.path.join(src_root, "jinja2", "runtime.py")).read())
    ctx = [n for n in rt.body if isinstance(n, ast.ClassDef) and n.name == "Context"]
    if len(ctx) != 1:
        raise Untranslatable("class Context not found")
    call = [n for n in ctx[0].body if isinstance(n, ast.FunctionDef) and n.name == "call"]
    if len(call) != 1:
        raise Untranslatable("Context.call not found")
    a = call[0].args
    if [x.arg for x in a.posonlyargs + a.args] != ["__self", "__obj"] or a.vararg is None or a.vararg.arg != "args" or a.kwarg is None or a.kwarg.arg != "kwargs":
        raise Untranslatable("Context.call signature changed")
    d["ctx_call"] = b_stmts(call[0].body)
    # _PassArg.from_obj: hasattr(obj, "jinja_pass_arg") -> obj.jinja_pass_arg, else None
    ut = ast.parse(open(os.path.join(src_root, "jinja2", "utils.py")).read())
    pa = [n for n in ut.body if isinstance(n, ast.ClassDef) and n.name == "_PassArg"]
    fo = [n for n in pa[0].body if isinstance(n, ast.FunctionDef) and n.name == "from_obj"] if pa else []
    if not fo or [ast.unparse(s) for s in _strip_doc(fo[0].body)] != ["if hasattr(obj, 'jinja_pass_arg'):\n    return obj.jinja_pass_arg", "return None"]:
        raise Untranslatable("_PassArg.from_obj changed")
    members = [ast.unparse(s) for s in pa[0].body if isinstance(s, ast.Assign)]
    if members != ["context = enum.auto()", "eval_context = enum.auto()", "environment = enum.auto()"]:
        raise Untranslatable("_PassArg members changed")
    # entry points
    env = ast.parse(open(os.path.join(src_root, "jinja2", "environment.py")).read())
    tpl = [n for n in env.body if isinstance(n, ast.ClassDef) and n.name == "Template"]
    if len(tpl) != 1:
        raise Untranslatable("class Template not found")
    meth = {n.name: n for n in tpl[0].body if isinstance(n, (ast.FunctionDef, ast.AsyncFunctionDef))}
    for m in ("render", "render_async", "generate", "generate_async"):
        if m not in meth:
            raise Untranslatable("Template." + m + " not found")
        d["entry_" + m] = _entry(meth[m], "Template." + m)
    import exn_handlers
    he_env, he_dbg = exn_handlers.check_handle_exception(os.path.join(src_root, "jinja2"))
    d["hs"] = "{| B.hs_raises_rewrite := %s; B.hs_rewrite_returns_same := %s |}" % ("true" if he_env else "false", "true" if he_dbg else "false")
    return d


COQ_B = r'''(* regenerated from %(root)s/jinja2/{runtime,environment,utils,debug}.py by gen/exn_translate.py - do not edit *)
From Coq Require Import List NArith Bool String.
Import ListNotations.
From JV Require Import Model.Exn Lib.PyAsyExn.
Open Scope string_scope.

Definition body_ctx_call : list B.stmt := %(ctx_call)s.

Definition gen_ctx_call (beh : B.behaviour) (o : B.callee) (args : list B.arg) (kw : B.kwargs) : B.flow :=
  B.execs beh body_ctx_call [("self", B.PSelf []); ("obj", B.PObj o false); ("args", B.PArgs args); ("kwargs", B.PKw kw)].

Ltac step := cbv -[subclass B.kw_get B.kw_remove].
Ltac crunch :=
  repeat (step;
          match goal with
          | |- context [match ?x with _ => _ end] =>
              match x with
              | context [match _ with _ => _ end] => fail 1
              | _ => destruct x eqn:?
              end
          | |- context [if ?x then _ else _] =>
              match x with
              | context [if _ then _ else _] => fail 1
              | context [match _ with _ => _ end] => fail 1
              | _ => destruct x eqn:?
              end
          end);
  step; try reflexivity; try congruence.

(* Context.call, for every callable (its pass-arg marker, with or without a marked __call__), every
   argument list, every keyword dictionary and every behaviour of the callable (incl. which
   exception object it raises): the current source does what the model function does *)
Theorem ctx_call_source_eq_model : forall beh o args kw,
  gen_ctx_call beh o args kw = B.Done (B.ctx_call_m beh o args kw).
Proof.
  intros beh [cp cc id] args kw; unfold gen_ctx_call, body_ctx_call, B.ctx_call_m, B.truthy; crunch.
Qed.

(* the four entry points hand every outcome of the render function on unchanged: a value is
   returned, an exception below the caught classes leaves through handle_exception, which raises
   the object with_traceback returns (the same object), any other exception is not caught *)
Definition hs : B.handle_shape := %(hs)s.
Definition entry_render : B.entry := %(entry_render)s.
Definition entry_render_async : B.entry := %(entry_render_async)s.
Definition entry_generate : B.entry := %(entry_generate)s.
Definition entry_generate_async : B.entry := %(entry_generate_async)s.

Theorem entry_points_source_eq_model : forall o : B.outcome,
  B.entry_outcome hs entry_render o = o /\ B.entry_outcome hs entry_render_async o = o /\
  B.entry_outcome hs entry_generate o = o /\ B.entry_outcome hs entry_generate_async o = o.
Proof.
  intros [v| |x]; cbn; repeat split; try reflexivity;
  match goal with |- context [if ?c then _ else _] => destruct c; reflexivity end.
Qed.

(* and they catch exactly Exception (a BaseException subclass is never rewritten, a plain
   Exception always is) *)
Theorem entry_points_catch_exception :
  forallb (fun e => match B.en_catch e with [Exn.B E_Exception] => true | _ => false end)
          [entry_render; entry_render_async; entry_generate; entry_generate_async] = true.
Proof. vm_compute. reflexivity. Qed.

Print Assumptions ctx_call_source_eq_model.
Print Assumptions entry_points_source_eq_model.
'''


def emit_b(src_root):
    d = translate_b(src_root)
    d["root"] = src_root
    return COQ_B % d


if __name__ == "__main__":
    import sys
    root = sys.argv[2] if len(sys.argv) > 2 else "/repo/src"
    print(emit_a(root) if sys.argv[1] == "a" else emit_b(root))
