"""T5 translator for the arithmetic cores of three filters of jinja2/filters.py:
sync_do_slice, do_batch, do_truncate.  Turns the CURRENT source of each function into a term of
the deep embedding Lib/PyFilt.v (fail-closed: any construct outside the vocabulary raises
Untranslatable) and emits, per function, a file Gen_filt_<name>.v proving

    interpreted source term  =  hand-written model function        (for all inputs)

with Model.FiltColl.do_slice / do_batch and Model.FiltStr.do_truncate.  An edit of a function
changes the term; the equation is what breaks."""
import ast
import os


class Untranslatable(Exception):
    pass


def q(s):
    return '"%s"' % s


BIN = {ast.Add: "EAdd", ast.Sub: "ESub", ast.Mult: "EMul", ast.FloorDiv: "EFloorDiv", ast.Mod: "EMod"}
CMP = {ast.Lt: "ELt", ast.LtE: "ELe", ast.Gt: "EGt", ast.GtE: "EGe", ast.Eq: "EEq"}


def expr(n):
    if isinstance(n, ast.Name):
        return f"(EVar {q(n.id)})"
    if isinstance(n, ast.Constant):
        if n.value is None:
            return "ENone"
        if isinstance(n.value, int) and not isinstance(n.value, bool):
            return f"(EInt ({n.value})%Z)"
    if isinstance(n, ast.List):
        if not n.elts:
            return "EEmpty"
        if len(n.elts) == 1:
            return f"(ESingleton {expr(n.elts[0])})"
    if isinstance(n, ast.BinOp) and type(n.op) in BIN:
        return f"({BIN[type(n.op)]} {expr(n.left)} {expr(n.right)})"
    if isinstance(n, ast.Compare) and len(n.ops) == 1:
        op, a, b = n.ops[0], n.left, n.comparators[0]
        if isinstance(b, ast.Constant) and b.value is None:
            if isinstance(op, ast.Is):
                return f"(EIsNone {expr(a)})"
            if isinstance(op, ast.IsNot):
                return f"(EIsNotNone {expr(a)})"
        if type(op) in CMP:
            return f"({CMP[type(op)]} {expr(a)} {expr(b)})"
    if isinstance(n, ast.BoolOp) and isinstance(n.op, ast.And):
        vs = [expr(v) for v in n.values]
        out = vs[-1]
        for v in reversed(vs[:-1]):
            out = f"(EAnd {v} {out})"
        return out
    if isinstance(n, ast.Call) and not n.keywords and isinstance(n.func, ast.Name) and len(n.args) == 1:
        if n.func.id == "len":
            return f"(ELen {expr(n.args[0])})"
        if n.func.id == "list":
            return f"(EListOf {expr(n.args[0])})"
    if isinstance(n, ast.Subscript):
        s = n.slice
        if isinstance(s, ast.Slice) and s.step is None:
            lo = f"(Some {expr(s.lower)})" if s.lower is not None else "None"
            hi = f"(Some {expr(s.upper)})" if s.upper is not None else "None"
            return f"(ESlice {expr(n.value)} {lo} {hi})"
        # x.rsplit(" ", 1)[0]
        if (isinstance(s, ast.Constant) and s.value == 0 and isinstance(n.value, ast.Call) and not n.value.keywords
                and isinstance(n.value.func, ast.Attribute) and n.value.func.attr == "rsplit"
                and [ast.unparse(a) for a in n.value.args] == ["' '", "1"]):
            return f"(ERsplitSpace {expr(n.value.func.value)})"
        # env.policies["truncate.leeway"]
        if (isinstance(s, ast.Constant) and s.value == "truncate.leeway" and isinstance(n.value, ast.Attribute)
                and n.value.attr == "policies" and isinstance(n.value.value, ast.Name) and n.value.value.id == "env"):
            return f"(EVar {q('policy:truncate.leeway')})"
    raise Untranslatable("expression " + ast.unparse(n)[:80])


LOOPS = []          # (name, term) of the for-loop bodies of the function being translated
PREFIX = ["f"]


def loop_name(term):
    name = f"{PREFIX[0]}_loop{len(LOOPS) + 1}"
    LOOPS.append((name, term))
    return name


def block(body):
    out = "BNil"
    for st in reversed([stmt(s) for s in body]):
        if st is not None:
            out = f"(BCons {st} {out})"
    return out


def stmt(st):
    if isinstance(st, ast.Expr) and isinstance(st.value, ast.Constant) and isinstance(st.value.value, str):
        return None                                   # docstring
    if isinstance(st, ast.Import):
        raise Untranslatable("import inside the function")
    if isinstance(st, ast.Pass):
        return "SPass"
    if isinstance(st, ast.Assign) and len(st.targets) == 1 and isinstance(st.targets[0], ast.Name):
        return f"(SAssign {q(st.targets[0].id)} {expr(st.value)})"
    if isinstance(st, ast.AnnAssign) and isinstance(st.target, ast.Name) and st.value is not None:
        return f"(SAssign {q(st.target.id)} {expr(st.value)})"
    if isinstance(st, ast.AugAssign) and isinstance(st.target, ast.Name) and isinstance(st.op, ast.Add):
        return f"(SAugAdd {q(st.target.id)} {expr(st.value)})"
    if isinstance(st, ast.If):
        return f"(SIf {expr(st.test)} {block(st.body)} {block(st.orelse)})"
    if isinstance(st, ast.For) and isinstance(st.target, ast.Name) and not st.orelse:
        it = st.iter
        if (isinstance(it, ast.Call) and isinstance(it.func, ast.Name) and it.func.id == "range"
                and len(it.args) == 1 and not it.keywords):
            return f"(SForRange {q(st.target.id)} {expr(it.args[0])} {loop_name(block(st.body))})"
        if isinstance(it, ast.Name):
            return f"(SForIn {q(st.target.id)} {expr(it)} {loop_name(block(st.body))})"
    if isinstance(st, ast.Return) and st.value is not None:
        return f"(SReturn {expr(st.value)})"
    if isinstance(st, ast.Assert):
        if st.msg is not None and not isinstance(st.msg, (ast.JoinedStr, ast.Constant)):
            raise Untranslatable("assert message with side effects")
        return f"(SAssert {expr(st.test)})"
    if isinstance(st, ast.Expr):
        v = st.value
        if isinstance(v, ast.Yield) and v.value is not None:
            return f"(SYield {expr(v.value)})"
        if (isinstance(v, ast.Call) and not v.keywords and len(v.args) == 1 and isinstance(v.func, ast.Attribute)
                and v.func.attr == "append" and isinstance(v.func.value, ast.Name)):
            return f"(SAppend {q(v.func.value.id)} {expr(v.args[0])})"
    raise Untranslatable("statement " + ast.unparse(st)[:80])


# ---------------------------------------------------------------- aliasing guard
# The interpreter treats lists as values.  That is faithful as long as a list that was yielded
# is not mutated afterwards through the same name before the name is rebound.
def _mutates(st, name):
    if isinstance(st, ast.AugAssign) and isinstance(st.target, ast.Name) and st.target.id == name:
        return True
    if (isinstance(st, ast.Expr) and isinstance(st.value, ast.Call) and isinstance(st.value.func, ast.Attribute)
            and isinstance(st.value.func.value, ast.Name) and st.value.func.value.id == name):
        return True
    return False


def _rebinds(st, name):
    if isinstance(st, ast.Assign):
        return any(isinstance(t, ast.Name) and t.id == name for t in st.targets)
    if isinstance(st, ast.AnnAssign):
        return isinstance(st.target, ast.Name) and st.target.id == name and st.value is not None
    return False


def _scan(stmts, name):
    """'safe' when `name` is rebound before any mutation on every path through stmts,
    'bad' when a mutation can come first, None when neither happens"""
    for st in stmts:
        if _rebinds(st, name):
            return "safe"
        if _mutates(st, name):
            return "bad"
        if isinstance(st, ast.If):
            a, b = _scan(st.body, name), _scan(st.orelse, name)
            if "bad" in (a, b):
                return "bad"
            if a == "safe" and b == "safe":
                return "safe"
        elif isinstance(st, (ast.For, ast.While)):
            if _scan(st.body, name) == "bad":
                return "bad"
    return None


def check_yield_aliasing(body, cont=()):
    for i, st in enumerate(body):
        rest = list(body[i + 1:]) + list(cont)
        if isinstance(st, ast.Expr) and isinstance(st.value, ast.Yield):
            v = st.value.value
            if not isinstance(v, ast.Name):
                raise Untranslatable("yield of something that is not a variable")
            if _scan(rest, v.id) == "bad":
                raise Untranslatable(f"the yielded list {v.id} is mutated after the yield")
        elif isinstance(st, ast.If):
            check_yield_aliasing(st.body, rest)
            check_yield_aliasing(st.orelse, rest)
        elif isinstance(st, ast.For):
            check_yield_aliasing(st.body, list(st.body) + rest)


def assigned_names(fn):
    seen, out = set(), []
    def add(n):
        if n not in seen:
            seen.add(n)
            out.append(n)
    def walk(body):
        for st in body:
            if isinstance(st, ast.Assign):
                for t in st.targets:
                    if isinstance(t, ast.Name):
                        add(t.id)
            elif isinstance(st, (ast.AnnAssign, ast.AugAssign)) and isinstance(st.target, ast.Name):
                add(st.target.id)
            elif isinstance(st, ast.For):
                if isinstance(st.target, ast.Name):
                    add(st.target.id)
                walk(st.body)
            elif isinstance(st, ast.If):
                walk(st.body)
                walk(st.orelse)
    walk(fn.body)
    return out


def function(src_root, name):
    tree = ast.parse(open(os.path.join(src_root, "jinja2", "filters.py")).read())
    fns = [n for n in tree.body if isinstance(n, ast.FunctionDef) and n.name == name]
    if len(fns) != 1:
        raise Untranslatable(f"function {name} not found exactly once at module level")
    fn = fns[0]
    a = fn.args
    if a.vararg or a.kwarg or a.kwonlyargs or a.posonlyargs:
        raise Untranslatable(f"{name}: unexpected parameter kinds")
    params = [x.arg for x in a.args]
    defaults = [ast.unparse(d) for d in a.defaults]
    check_yield_aliasing(fn.body)
    local_names = [n for n in assigned_names(fn) if n not in params]
    del LOOPS[:]
    PREFIX[0] = name
    body = block(fn.body)
    return {"params": params, "defaults": defaults, "locals": local_names, "body": body, "loops": list(LOOPS),
            "decorators": [ast.unparse(d) for d in fn.decorator_list]}


def expect(what, got, want):
    if got != want:
        raise Untranslatable(f"{what}: {got!r}, the equation is stated for {want!r}")


# ---------------------------------------------------------------- generated files
HEADER = "(* regenerated from %(root)s/jinja2/filters.py by gen/filt_translate.py — do not edit *)\n"

SLICE_V = r"""From Coq Require Import List ZArith NArith Bool String Lia.
Import ListNotations.
From JV Require Import Model.FiltColl Lib.PyFilt Proofs.FiltPyProofs.
Open Scope string_scope. Open Scope Z_scope.

Definition loop_body : block := %(loop1)s.
Definition slice_body : block := %(body)s.

Section S.
Variable A : Type.
Definition rs (l : list A) := l.
Definition opt_v (o : option A) : value A := match o with Some a => VItem a | None => VNone end.
Definition mk_env (xs : list A) (n : Z) (fill : option A) (vseq vlen vq vr vo vi vs ve vt : value A) : env A :=
  [("value", VL xs); ("slices", VZ n); ("fill_with", opt_v fill); ("seq", vseq); ("length", vlen);
   ("items_per_slice", vq); ("slices_with_extra", vr); ("offset", vo); ("slice_number", vi);
   ("start", vs); ("end", ve); ("tmp", vt)].
Definition slice_expected (r : FiltColl.res (list (list A))) : outcome (list (list A)) :=
  match r with Ok ls => Good ls | Err ZeroDivisionError => Bad PZeroDiv | Err _ => Bad PStuck end.

Ltac ev := cbn [eval get set upd vars yielded String.eqb Ascii.eqb Bool.eqb cmp arith truthy mk_env opt_v].
Ltac run := cbn [execs exec eval get set upd vars yielded String.eqb Ascii.eqb Bool.eqb cmp arith truthy mk_env
                 slice_body opt_v].

Definition next_off (r i o : N) : N := if (i <? r)%%N then (o + 1)%%N else o.
Definition slice_item (xs : list A) (q r : N) (fill : option A) (i o : N) : list A :=
  let tmp := pyslice (o + i * q)%%N (next_off r i o + (i + 1) * q)%%N xs in
  match fill with
  | Some x => if negb (r =? 0)%%N && (r <=? i)%%N then (tmp ++ [x])%%list else tmp
  | None => tmp
  end.

Lemma step (xs : list A) (n : Z) (fill : option A) (q r i o : N) (outs : list (list A)) (vi vs ve vt : value A) :
  let o' := next_off r i o in
  let tmp' := slice_item xs q r fill i o in
  exists vs' ve' vt',
  execs A rs loop_body
    (upd A "slice_number" (VZ (Z.of_N i))
       {| vars := mk_env xs n fill (VL xs) (VZ (Z.of_nat (List.length xs))) (VZ (Z.of_N q)) (VZ (Z.of_N r)) (VZ (Z.of_N o)) vi vs ve vt;
          yielded := outs |})
  = Fall {| vars := mk_env xs n fill (VL xs) (VZ (Z.of_nat (List.length xs))) (VZ (Z.of_N q)) (VZ (Z.of_N r)) (VZ (Z.of_N o'))
                       (VZ (Z.of_N i)) vs' ve' vt';
            yielded := (outs ++ [tmp'])%%list |}.
Proof.
  intros o' tmp'. unfold loop_body. run. rewrite Z_ltb_N. subst tmp' o'. unfold slice_item, next_off.
  destruct (i <? r)%%N eqn:Elt; run; destruct fill as [x|]; run.
  all: try (rewrite Z_eqb_N0; destruct (r =? 0)%%N eqn:E0; cbn [negb andb]; run).
  all: try (rewrite Z_geb_N; destruct (r <=? i)%%N eqn:Ele; run).
  all: change 1 with (Z.of_N 1); rewrite <- ?N2Z.inj_add, <- ?N2Z.inj_mul, <- ?N2Z.inj_add; rewrite !pyslice_z_N;
       do 3 eexists; reflexivity.
Qed.

Lemma loop xs n fill (q r : N) : forall todo j (o : N) outs vi vs ve vt,
  exists o' vi' vs' ve' vt',
  loop_over A (fun i st' => execs A rs loop_body (upd A "slice_number" (VZ i) st'))
            (map Z.of_nat (seq j todo))
            {| vars := mk_env xs n fill (VL xs) (VZ (Z.of_nat (List.length xs))) (VZ (Z.of_N q)) (VZ (Z.of_N r)) (VZ (Z.of_N o)) vi vs ve vt;
               yielded := outs |}
  = Fall {| vars := mk_env xs n fill (VL xs) (VZ (Z.of_nat (List.length xs))) (VZ (Z.of_N q)) (VZ (Z.of_N r)) (VZ (Z.of_N o')) vi' vs' ve' vt';
            yielded := (outs ++ slice_go xs q r fill todo (N.of_nat j) o)%%list |}.
Proof.
  induction todo as [|todo IH]; intros j o outs vi vs ve vt.
  - exists o, vi, vs, ve, vt. cbn [seq map loop_over slice_go]. now rewrite app_nil_r.
  - cbn [seq map loop_over]. rewrite <- nat_N_Z.
    destruct (step xs n fill q r (N.of_nat j) o outs vi vs ve vt) as (vs1 & ve1 & vt1 & ->).
    destruct (IH (S j) (next_off r (N.of_nat j) o) (outs ++ [slice_item xs q r fill (N.of_nat j) o])%%list
                 (VZ (Z.of_N (N.of_nat j))) vs1 ve1 vt1) as (o2 & vi2 & vs2 & ve2 & vt2 & ->).
    exists o2, vi2, vs2, ve2, vt2. rewrite <- app_assoc. cbn [app].
    replace (N.of_nat (S j)) with (N.of_nat j + 1)%%N by lia. reflexivity.
Qed.

Definition slice_env0 (xs : list A) (n : Z) (fill : option A) : env A :=
  mk_env xs n fill VNone VNone VNone VNone VNone VNone VNone VNone VNone.

Theorem slice_source_eq_model : forall xs n fill,
  run_gen A rs slice_body (slice_env0 xs n fill) = slice_expected (do_slice n fill xs).
Proof.
  intros xs n fill. unfold run_gen, slice_env0, do_slice.
  destruct (Z.eqb_spec n 0) as [->|Hn0]; [reflexivity|].
  assert (E0 : (n =? 0) = false) by (now apply Z.eqb_neq).
  unfold slice_body.
  rewrite execs_cons, exec_assign; ev.
  rewrite execs_cons, exec_assign; ev.
  rewrite execs_cons, exec_assign; ev. rewrite E0.
  rewrite execs_cons, exec_assign; ev. rewrite E0.
  rewrite execs_cons, exec_assign; ev. unfold upd; ev.
  rewrite execs_cons, exec_for_range; ev.
  destruct (Z.ltb_spec n 0) as [Hneg|Hpos].
  - rewrite range_list_neg by lia. reflexivity.
  - replace n with (Z.of_N (Z.to_N n)) at 1 by lia. rewrite range_list_N.
    replace (Z.of_nat (List.length xs) / n) with (Z.of_N (N.of_nat (List.length xs) / Z.to_N n)) by (rewrite N2Z.inj_div; f_equal; lia).
    replace (Z.of_nat (List.length xs) mod n) with (Z.of_N (N.of_nat (List.length xs) mod Z.to_N n)) by (rewrite N2Z.inj_mod; f_equal; lia).
    destruct (loop xs n fill (N.of_nat (List.length xs) / Z.to_N n) (N.of_nat (List.length xs) mod Z.to_N n)
                   (N.to_nat (Z.to_N n)) 0%%nat 0%%N [] VNone VNone VNone VNone) as (o2 & vi2 & vs2 & ve2 & vt2 & H).
    cbn [Z.of_N N.of_nat] in H. unfold mk_env in H. rewrite H. destruct (Z.ltb_spec n 0); [lia|]. reflexivity.
Qed.
End S.

Print Assumptions slice_source_eq_model.
"""

BATCH_V = r"""From Coq Require Import List ZArith NArith Bool String Lia.
Import ListNotations.
From JV Require Import Model.FiltColl Lib.PyFilt Proofs.FiltPyProofs.
Open Scope string_scope. Open Scope Z_scope.

Definition do_batch_loop1 : block := %(loop1)s.
Definition batch_body : block := %(body)s.

Section S.
Variable A : Type.
Definition rs (l : list A) := l.
Definition opt_v (o : option A) : value A := match o with Some a => VItem a | None => VNone end.
Definition mk_env (xs : list A) (n : Z) (fill : option A) (vt vi : value A) : env A :=
  [("value", VL xs); ("linecount", VZ n); ("fill_with", opt_v fill); ("tmp", vt); ("item", vi)].
Ltac ev := cbn [eval get set upd vars yielded String.eqb Ascii.eqb Bool.eqb cmp arith truthy mk_env opt_v].
Ltac run := cbn [execs exec eval get set upd vars yielded String.eqb Ascii.eqb Bool.eqb cmp arith truthy mk_env opt_v].

Lemma loop xs0 n fill : forall xs tmp outs vi,
  exists vi',
  loop_over A (fun a st' => execs A rs do_batch_loop1 (upd A "item" (VItem a) st')) xs
            {| vars := mk_env xs0 n fill (VL tmp) vi; yielded := outs |}
  = Fall {| vars := mk_env xs0 n fill (VL (snd (batch_loop A n tmp xs))) vi';
            yielded := (outs ++ fst (batch_loop A n tmp xs))%%list |}.
Proof.
  induction xs as [|x r IH]; intros tmp outs vi.
  - exists vi. cbn [loop_over batch_loop fst snd]. now rewrite app_nil_r.
  - cbn [loop_over batch_loop]. unfold do_batch_loop1 at 1. run.
    destruct (Z.of_nat (List.length tmp) =? n); run; unfold upd, mk_env in *;
      cbn [set vars yielded String.eqb Ascii.eqb Bool.eqb app].
    + destruct (IH [x] (outs ++ [tmp])%%list (VItem x)) as (vi' & ->). exists vi'.
      destruct (batch_loop A n [x] r) as [ys t]. cbn [fst snd]. rewrite <- app_assoc. reflexivity.
    + destruct (IH (tmp ++ [x])%%list outs (VItem x)) as (vi' & ->). exists vi'. reflexivity.
Qed.

Theorem batch_source_eq_model : forall xs n fill,
  run_gen A rs batch_body (mk_env xs n fill VNone VNone) = Good (do_batch n fill xs).
Proof.
  intros xs n fill. unfold run_gen, do_batch, batch_body. rewrite batch_go_split.
  rewrite execs_cons, exec_assign; ev. unfold upd; ev.
  rewrite execs_cons, exec_for_in; ev.
  destruct (loop xs n fill xs [] [] VNone) as (vi' & H). unfold mk_env, upd in *. rewrite H. clear H.
  destruct (batch_loop A n [] xs) as [ys t]. cbn [fst snd app].
  run. destruct t as [|t0 t']; run; [now rewrite app_nil_r|].
  destruct fill as [x|]; run; [|reflexivity].
  destruct (Z.of_nat (List.length (t0 :: t')) <? n) eqn:E; run; unfold batch_final; rewrite E; [|reflexivity].
  rewrite repeat_list_single. reflexivity.
Qed.
End S.

Print Assumptions batch_source_eq_model.
"""

TRUNCATE_V = r"""From Coq Require Import List ZArith NArith Bool String Lia.
Import ListNotations.
From JV Require Import Model.FiltStr Lib.PyFilt Proofs.FiltPyProofs.
Open Scope string_scope. Open Scope Z_scope.

Definition truncate_body : block := %(body)s.

Notation A := N (only parsing).
Definition opt_z (o : option Z) : value A := match o with Some z => VZ z | None => VNone end.
Definition truncate_env (pol : Z) (s : str) (length : Z) (kw : bool) (e : str) (lw : option Z) : env A :=
  [("policy:truncate.leeway", VZ pol); ("s", VL s); ("length", VZ length); ("killwords", VB kw); ("end", VL e);
   ("leeway", opt_z lw); ("result", VNone)].
Definition truncate_expected (r : FiltStr.res str) : outcome (value A) :=
  match r with Ok x => Good (VL x) | Err AssertionError => Bad PAssert | Err _ => Bad PStuck end.
Ltac run := cbn [execs exec eval get set upd vars yielded String.eqb Ascii.eqb Bool.eqb cmp arith truthy truncate_env opt_z
                 truncate_body].

Theorem truncate_source_eq_model : forall pol s length kw e lw,
  run_fun A rsplit_head truncate_body (truncate_env pol s length kw e lw) = truncate_expected (do_truncate pol s length kw e lw).
Proof.
  intros pol s length kw e lw. unfold run_fun, do_truncate, len.
  set (lw' := match lw with Some l => l | None => pol end).
  destruct lw as [l|]; run; subst lw'.
  all: rewrite Z_geb_ltb;
       destruct (Z.ltb_spec length (Z.of_nat (List.length e))) as [H1|H1]; cbn [negb]; run; [reflexivity|].
  all: rewrite Z_geb_ltb.
  all: match goal with |- context [(?x <? 0)] => destruct (Z.ltb_spec x 0) as [H2|H2]; cbn [negb]; run; [reflexivity|] end.
  all: match goal with |- context [(?a <=? ?b)] => destruct (a <=? b); run; [reflexivity|] end.
  all: destruct kw; run; rewrite pyslice_z_prefix by lia; reflexivity.
Qed.

Print Assumptions truncate_source_eq_model.
"""


def emit_slice(src_root):
    d = function(src_root, "sync_do_slice")
    expect("sync_do_slice parameters", d["params"], ["value", "slices", "fill_with"])
    expect("sync_do_slice defaults", d["defaults"], ["None"])
    expect("sync_do_slice locals", d["locals"], ["seq", "length", "items_per_slice", "slices_with_extra", "offset",
                                                "slice_number", "start", "end", "tmp"])
    expect("sync_do_slice decorators", d["decorators"], [])
    if len(d["loops"]) != 1:
        raise Untranslatable("sync_do_slice: expected exactly one for loop")
    body = d["body"].replace(d["loops"][0][0], "loop_body")
    return (HEADER % {"root": src_root}) + SLICE_V % {"loop1": d["loops"][0][1], "body": body}


def emit_batch(src_root):
    d = function(src_root, "do_batch")
    expect("do_batch parameters", d["params"], ["value", "linecount", "fill_with"])
    expect("do_batch defaults", d["defaults"], ["None"])
    expect("do_batch locals", d["locals"], ["tmp", "item"])
    expect("do_batch decorators", d["decorators"], [])
    if len(d["loops"]) != 1:
        raise Untranslatable("do_batch: expected exactly one for loop")
    return (HEADER % {"root": src_root}) + BATCH_V % {"loop1": d["loops"][0][1], "body": d["body"]}


def emit_truncate(src_root):
    d = function(src_root, "do_truncate")
    expect("do_truncate parameters", d["params"], ["env", "s", "length", "killwords", "end", "leeway"])
    expect("do_truncate defaults", d["defaults"], ["255", "False", "'...'", "None"])
    expect("do_truncate locals", d["locals"], ["result"])
    expect("do_truncate decorators", d["decorators"], ["pass_environment"])
    if d["loops"]:
        raise Untranslatable("do_truncate: unexpected loop")
    return (HEADER % {"root": src_root}) + TRUNCATE_V % {"body": d["body"]}


if __name__ == "__main__":
    import sys
    root = sys.argv[1] if len(sys.argv) > 1 else "/repo/src"
    which = sys.argv[2] if len(sys.argv) > 2 else "slice"
    print({"slice": emit_slice, "batch": emit_batch, "truncate": emit_truncate}[which](root))
