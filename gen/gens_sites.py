"""C36 translator — async-generator creation sites and their guards.

Reads Python text with `ast` (generated template modules, and jinja2/environment.py +
jinja2/runtime.py) and reports every expression that creates an engine-owned async generator:

    <x>.root_render_func(...)          a template's root generator (include, extends, generate_async,
                                       render_async, make_module_async)
    context.blocks[...][0](context)    a block generator;   self._stack[self._depth](self._context)
    t_N(...)                           a local `async def` containing `yield` (loop-filter function)

and how it is consumed:

    sub / side, guarded    bound to a name, followed by `try: async for ... in <name> ... finally: await
                           <name>.aclose()`  or  `async with aclosing(<name>): async for ...`
    sub / side, unguarded  iterated directly by an `async for` statement
    collect                iterated by an async comprehension, or by an `async for` whose body is only `pass`
                           (no loop body that could raise or yield while the child is suspended)
    anything else          reported as unguarded (fail-closed)

kind is `side` for loop-filter functions (they yield elements to a loop body), `sub` otherwise.
`line` is the line of the consuming `async for` / comprehension: the line the consumer's frame
is on when the generator is iterated for the first time (used by the harness to find the site).
"""
from __future__ import annotations

import ast


def _is_asyncgen_def(fn):
    if not isinstance(fn, ast.AsyncFunctionDef):
        return False
    stack = list(fn.body)
    while stack:
        n = stack.pop()
        if isinstance(n, (ast.FunctionDef, ast.AsyncFunctionDef, ast.Lambda, ast.ClassDef)):
            continue
        if isinstance(n, (ast.Yield, ast.YieldFrom)):
            return True
        stack.extend(ast.iter_child_nodes(n))
    return False


def _creates(call, local_agens):
    f = call.func
    if isinstance(f, ast.Attribute) and f.attr == "root_render_func":
        return "sub"
    if isinstance(f, ast.Subscript):
        txt = ast.unparse(f)
        if txt.startswith("context.blocks[") or txt.startswith("self._stack["):
            return "sub"
    if isinstance(f, ast.Name) and f.id in local_agens:
        return "side"
    return None


def _mentions(node, name):
    return any(isinstance(n, ast.Name) and n.id == name for n in ast.walk(node))


def _aclose_of(stmts, name):
    for s in stmts:
        if (isinstance(s, ast.Expr) and isinstance(s.value, ast.Await) and isinstance(s.value.value, ast.Call)
                and isinstance(s.value.value.func, ast.Attribute) and s.value.value.func.attr == "aclose"
                and isinstance(s.value.value.func.value, ast.Name) and s.value.value.func.value.id == name):
            return True
    return False


def scan(src, filename):
    tree = ast.parse(src)
    parents = {}
    for n in ast.walk(tree):
        for c in ast.iter_child_nodes(n):
            parents[c] = n
    def _nested(n):
        p = parents.get(n)
        while p is not None:
            if isinstance(p, (ast.AsyncFunctionDef, ast.FunctionDef)):
                return True
            p = parents.get(p)
        return False

    local_agens = {n.name for n in ast.walk(tree) if _is_asyncgen_def(n) and _nested(n)}
    sites = []
    for call in ast.walk(tree):
        if not isinstance(call, ast.Call):
            continue
        kind = _creates(call, local_agens)
        if kind is None:
            continue
        # enclosing function name
        p = call
        func = "<module>"
        is_async_fn = False
        while p in parents:
            p = parents[p]
            if isinstance(p, (ast.FunctionDef, ast.AsyncFunctionDef)):
                func = p.name
                is_async_fn = isinstance(p, ast.AsyncFunctionDef)
                break
        if not is_async_fn:
            continue        # the synchronous render path creates plain generators
        site = {"file": filename, "func": func, "kind": kind, "guarded": False, "line": call.lineno,
                "how": "unrecognised", "text": ast.unparse(call)[:70]}
        par = parents.get(call)
        # (annotated) assignment to a single name
        target = None
        if isinstance(par, ast.Assign) and len(par.targets) == 1 and isinstance(par.targets[0], ast.Name):
            target = par.targets[0].id
        elif isinstance(par, ast.AnnAssign) and isinstance(par.target, ast.Name):
            target = par.target.id
        if target is not None:
            holder = parents.get(par)
            body = None
            for fld in ("body", "orelse", "finalbody"):
                lst = getattr(holder, fld, None)
                if isinstance(lst, list) and par in lst:
                    body = lst
            nxt = body[body.index(par) + 1] if body is not None and body.index(par) + 1 < len(body) else None
            if isinstance(nxt, ast.Try) and _aclose_of(nxt.finalbody, target) and nxt.body and isinstance(nxt.body[0], ast.AsyncFor) \
                    and _mentions(nxt.body[0].iter, target) and not nxt.handlers:
                site.update(guarded=True, how="try/finally aclose", line=nxt.body[0].lineno,
                            hi=max(nxt.body[0].iter.end_lineno, nxt.body[0].lineno))
            elif isinstance(nxt, ast.AsyncWith) and any(
                    isinstance(it.context_expr, ast.Call) and getattr(it.context_expr.func, "id", "") == "aclosing"
                    and _mentions(it.context_expr, target) for it in nxt.items) \
                    and nxt.body and isinstance(nxt.body[0], ast.AsyncFor) and _mentions(nxt.body[0].iter, target):
                site.update(guarded=True, how="async with aclosing", line=nxt.body[0].lineno,
                            hi=max(nxt.body[0].iter.end_lineno, nxt.body[0].lineno))
            else:
                site.update(how="bound to a name without a closing construct")
            sites.append(site)
            continue
        # walk up: comprehension or async for
        p = call
        while p in parents:
            q = parents[p]
            if isinstance(q, ast.comprehension) and q.is_async and p is q.iter:
                comp = parents[q]
                site.update(kind="collect", guarded=True, how="async comprehension", line=comp.lineno, hi=comp.end_lineno)
                break
            if isinstance(q, ast.AsyncFor) and p is q.iter:
                if all(isinstance(b, ast.Pass) for b in q.body) and not q.orelse:
                    # `async for _ in gen: pass` drives the generator to its end; like a comprehension the loop has no
                    # body in which the consumer could fail or be suspended while the generator is
                    site.update(kind="collect", guarded=True, how="async for with an empty body", line=q.lineno,
                                hi=max(q.iter.end_lineno, q.lineno))
                    break
                site.update(how="iterated directly by async for", line=q.lineno, hi=max(q.iter.end_lineno, q.lineno))
                break
            if isinstance(q, (ast.stmt,)):
                break
            p = q
        sites.append(site)
    for s in sites:
        s["lo"] = s["line"]
        s.setdefault("hi", s["line"])
    return sites


def coq_sites(sites, name="sites"):
    rows = []
    for s in sites:
        k = {"sub": "KSub", "side": "KSide", "collect": "KCollect"}[s["kind"]]
        rows.append(f"({k}, {'true' if s['guarded'] else 'false'})")
    return f"Definition {name} : list (skind * bool) :=\n [" + ";\n  ".join(rows) + "].\n"


if __name__ == "__main__":
    import sys
    for f in sys.argv[1:]:
        for s in scan(open(f).read(), f):
            print(s)
